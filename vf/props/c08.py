"""C08 - Fixing parameters is exact substitution, reversible and order-independent.

spec = {'kind': object kind, 'obj': construction spec, 'points': [full parameter vectors],
        'ops': PROGRAM (list of operations), 'every': verify after every operation, 'exhaustive': bool}

Operations (JSON-able dicts, positions are ORIGINAL parameter positions):
  {'op': 'fix', 'vals': {pos: value | None}}   one fix_parameters call (fix, re-fix, release, or a mixture)
  {'op': 'release_all', 'how': 'fixed'|'every'} one call that maps the fixed (or all) names to None
  {'op': 'eval', 'pt': k}                       evaluate at evaluation point k (no state change)
  {'op': 'bogus', 'val': v}                     fix a name that does not exist (silently ignored by chi)
  {'op': 'rename', ...}                         set_parameter_names (where the class offers it)
  {'op': 'copy', 'cont': bool}                  ReducedMechanisticModel.copy (continue on the copy or keep it)
  {'op': 'sens', 'on': bool}                    ReducedMechanisticModel.enable_sensitivities
  {'op': 'nids'}                                ReducedPopulationModel.set_n_ids(n+1) and back to n
  {'op': 'set_data'}                            ProblemModellingController.set_data again (documented: un-fixes
                                                population parameters)
The harness model is the dict {position: value} of currently fixed parameters (plus the current names by position
and the sensitivity switch). After EVERY operation the object is compared with
  * the harness model (names, counts),
  * the never-fixed TWIN evaluated at the full vector with the dict substituted (value, pointwise values, seeded
    samples, simulations; sensitivities restricted to the free entries),
  * a CANONICAL twin: a fresh object brought to the same dict by one fix_parameters call,
and every array returned earlier must still hold the values it was returned with.
"""
import itertools

import numpy as np
from hypothesis import strategies as st

from vf import gen, ref, popgen, llbuild, sbmlgen, core
from vf.core import Inconclusive
from vf.analytic_model import AnalyticModel

ID = 'C08'
BUDGET = {'quick': 3000, 'thorough': 45000}
EXHAUSTIVE = {'quick': True, 'thorough': True}
RULE = (
    'Hypothesis draws (object kind, construction spec, 2-3 evaluation points, a program of 2-20 (quick) / 2-50 '
    '(thorough) operations). Kinds: ReducedErrorModel over the four error models; ReducedMechanisticModel over the '
    'analytic model and over a generated PKPD model (optional direct/indirect route and regimen) through the reference '
    'integrator; ReducedPopulationModel over bare/covariate/composed population models (n_ids 1-4, unique dimension '
    'names, optionally wrapped before set_n_ids); LogLikelihood; PredictiveModel; PopulationPredictiveModel; '
    'ProblemModellingController without and with a population model. Operations: fix a subset, re-fix with other '
    'values, release some, mixed fix/release in one call, release all, evaluate, fix a non-existent name, rename, '
    'copy (continue / keep), toggle sensitivities, set_n_ids round trip, set_data. Fixing every parameter is drawn '
    'rarely and only for the Reduced* classes (then only names/counts are checked). Exhaustive tier: every '
    'non-empty subset of the parameters of small error / analytic mechanistic / population models (n <= 4) fixed '
    'in one call and one-by-one in reversed order, then released (one-by-one / at once). Non-trivial: a release or '
    're-fix after the first evaluation and an evaluation with >= 1 free and >= 1 fixed parameter. Distinct = '
    '(kind, structure of the object, operation sequence without values).')
RULE += (' ' + 'Added: parameter names and counts are observed between the two halves of the set_n_ids round trip.')
ASSUMPTIONS = [
    'oracle: a separately constructed never-fixed twin of the same spec evaluated at the full vector (substitution by '
    'original position, not by chi\'s mask); it is also the oracle for the names after a rename (the same rename '
    'applied to the twin); its initial names are compared with the independent name rules of vf/ref.py, vf/llbuild.py',
    'an evaluation whose twin raises inside chi is inconclusive (not a C08 matter)',
    'fixing a name that does not exist is silently ignored; an object without free parameters is not evaluated',
    'ProblemModellingController: fixing resets the log-prior (documented), set_data un-fixes population parameters '
    '(documented); the prior is set again with matching dimension before every posterior',
    'PopulationPredictiveModel is sampled with n_samples = n_ids of its population model',
    'copy of an SBML-backed reduced model resets sensitivities (documented); the analytic harness model keeps them',
    'derivatives are not compared where the twin\'s score is not finite (outside the support chi documents no '
    'derivative; some population models return uninitialised memory there)',
    'renames keep parameters addressable by name: a reset to default names is not performed when the defaults repeat '
    '(covariate coefficients of two parts of a composition), renaming stops before names reach the 50 characters '
    'ReducedPopulationModel keeps (coefficient names of the bare CovariatePopulationModel grow by " Cov. k" on every '
    'set(get())), the set_n_ids round trip is not performed for covariate-wrapped heterogeneous models nor for '
    'heterogeneous models after a rename (they name their parameters per individual again)',
    'reference integrator vf/simshim.py stands in for myokit.Simulation']
REQUIRED = ['kind:em', 'kind:mech', 'kind:sbml', 'kind:pop', 'kind:ll', 'kind:pred', 'kind:poppred', 'kind:ctrl',
            'kind:ctrlpop', 'op:fix', 'op:refix', 'op:release', 'op:mixed', 'op:release_all', 'op:bogus', 'op:rename',
            'op:copy', 'op:sens', 'op:nids', 'op:dims', 'op:set_data', 'all_fixed', 'late_n_ids', 'exhaustive', 'sbml:admin',
            'fix_arg:one_shot_iterable',
            'pop:bare', 'pop:pooled', 'pop:hetero', 'pop:cov', 'sens_while_fixed', 'em:user_defined:outer_two_fixed']

KIND_MENU = ['em', 'em', 'mech', 'mech', 'sbml', 'pop', 'pop', 'pop', 'll', 'll', 'pred', 'poppred', 'ctrl', 'ctrlpop']
CHEAP = ('em', 'mech', 'pop', 'll', 'pred')
ALLOW_ALL = ('em', 'mech', 'pop')          # fixing every parameter is drawn (rarely) for these kinds
RTOL = 1e-12


# =====================================================================================================
# strategy
# =====================================================================================================
def _dims(n):
    return ['dim %s' % chr(65 + d) for d in range(n)]


def _draw_em(draw):
    kind = draw(st.sampled_from(list(llbuild.EM_KINDS) + ['user3', 'user3']))
    n = draw(st.integers(1, 5))
    p = draw(st.integers(0, 3))
    ybar = gen.distinct(draw(gen.vec(gen.logu(0.05, 50.0), n)))
    y = draw(gen.vec(gen.logu(0.05, 50.0), n))
    S = draw(gen.mat(gen.real(-5, 5), n, p))
    obj = dict(em=kind, ybar=ybar, y=y, S=S, p=p, n_samples=draw(st.integers(1, 3)), seed=draw(st.integers(0, 10 ** 6)))
    npar = ref.EM_NPAR[kind]
    pool = [draw(gen.vec(gen.logu(0.05, 5.0), npar)) for _ in range(4)]
    return obj, npar, pool


def _draw_times(draw, lo=0.05, hi=6.0, max_n=4):
    n = draw(st.integers(1, max_n))
    ts = sorted(gen.distinct(draw(gen.vec(gen.logu(lo, hi), n))))
    if gen.chance(draw, 0.2):
        ts[0] = 0.0
    return ts


def _draw_mech(draw):
    n_out = draw(st.integers(1, 3))
    n_par = draw(st.integers(1, 6))
    obj = dict(n_out=n_out, n_par=n_par, times=_draw_times(draw))
    pool = [gen.distinct(draw(gen.vec(gen.logu(0.1, 10.0), n_par))) for _ in range(4)]
    return obj, n_par, pool


def _draw_sbml(draw):
    ms = sbmlgen.draw_model(draw, max_states=3)
    admin = None
    regimen = None
    if gen.chance(draw, 0.6):
        admin = dict(comp=draw(st.integers(0, len(ms['comps']) - 1)), direct=not gen.chance(draw, 0.5))
        if gen.chance(draw, 0.7):
            regimen = dict(dose=draw(gen.logu(0.5, 5.0)), start=draw(gen.logu(0.05, 1.0)),
                           duration=draw(gen.logu(0.05, 0.5)),
                           period=draw(st.sampled_from([None, 1.0])), num=draw(st.sampled_from([None, 2])))
    sq = sbmlgen.state_qnames(ms)
    outputs = None
    if gen.chance(draw, 0.6):
        k = draw(st.integers(1, min(2, len(sq))))
        outputs = list(draw(st.permutations(sq))[:k])
    names = sbmlgen.published_parameters(ms, admin)
    obj = dict(ms=ms, admin=admin, regimen=regimen, outputs=outputs, times=_draw_times(draw, 0.05, 3.0, 3))
    pool = [gen.distinct(draw(gen.vec(gen.logu(0.1, 2.0), len(names)))) for _ in range(3)]
    return obj, len(names), pool


def _draw_popobj(draw):
    n_ids = draw(st.integers(1, 4))
    pop = popgen.draw_pop(draw, n_ids, max_parts=3, max_dim=2, p_red=0, p_bare=0.35)
    n_dim = ref.pop_n_dim(pop)
    cov = popgen.draw_cov_matrix(draw, n_ids, ref.pop_n_cov(pop))
    z = draw(gen.mat(gen.real(-2.5, 2.5), n_ids, n_dim))
    U = draw(gen.mat(gen.real(-3, 3), n_ids, n_dim)) if gen.chance(draw, 0.5) else None
    late = False
    if popgen.has(pop, 'hetero') and not _cov_hetero(pop) and n_ids > 1:
        late = gen.chance(draw, 0.5)
    obj = dict(pop=pop, n_ids=n_ids, cov=cov, z=z, U=U, late=late, n_samples=draw(st.integers(1, 3)),
               seed=draw(st.integers(0, 10 ** 6)))
    pool = [popgen.draw_theta(draw, pop, n_ids, cov) for _ in range(4)]
    return obj, ref.pop_n_par(pop, n_ids), pool


def _cov_hetero(pop):
    k = pop['kind']
    if k == 'cov':
        return pop['base']['kind'] == 'hetero'
    if k == 'comp':
        return any(_cov_hetero(p) for p in pop['parts'])
    return False


def _draw_ll(draw):
    ll = llbuild.draw_ll(draw, p_fixed=0.1, max_out=3, max_par=4)
    n = llbuild.ll_n_parameters(ll)
    pool = [llbuild.draw_ll_params(draw, ll) for _ in range(4)]
    return dict(ll=ll), n, pool


def _draw_pred(draw):
    ll = llbuild.draw_ll(draw, p_fixed=0.1, max_out=3, max_par=4)
    n = llbuild.ll_n_parameters(ll)
    obj = dict(ll=dict(n_out=ll['n_out'], n_par=ll['n_par'], ems=ll['ems']), times=_draw_times(draw),
               n_samples=draw(st.integers(1, 3)), seed=draw(st.integers(0, 10 ** 6)))
    pool = [llbuild.draw_ll_params(draw, ll) for _ in range(4)]
    return obj, n, pool


def _draw_poppred(draw):
    ll = llbuild.draw_ll(draw, p_fixed=0, max_out=2, max_par=3)
    n_dim = llbuild.ll_n_parameters(ll)
    n_ids = draw(st.integers(1, 3))
    pop = popgen.draw_pop_for_dim(draw, n_dim, n_ids)
    cov = popgen.draw_cov_matrix(draw, n_ids, ref.pop_n_cov(pop))
    obj = dict(ll=dict(n_out=ll['n_out'], n_par=ll['n_par'], ems=ll['ems']), pop=pop, n_ids=n_ids, cov=cov,
               times=_draw_times(draw), seed=draw(st.integers(0, 10 ** 6)))
    pool = [popgen.draw_theta(draw, pop, n_ids, cov, positive=True) for _ in range(3)]
    return obj, ref.pop_n_par(pop, n_ids), pool


def _draw_ctrl(draw, with_pop):
    n_out = draw(st.integers(1, 2))
    mech = dict(kind='analytic', n_out=n_out, n_par=draw(st.integers(1, 3)))
    ems = [draw(st.sampled_from(llbuild.EM_KINDS)) for _ in range(n_out)]
    n_sig = sum(ref.EM_NPAR[k] for k in ems)
    n_ll = mech['n_par'] + n_sig
    n_ids = draw(st.integers(1, 3))
    indiv = []
    for i in range(n_ids):
        series = []
        for o in range(n_out):
            n = draw(st.integers(1, 3))
            ts = sorted(draw(gen.vec(gen.logu(0.1, 6.0), n)))
            series.append(dict(t=ts, v=draw(gen.vec(gen.logu(0.05, 20.0), n)), nan_v=[False] * n, nan_t=[False] * n))
        indiv.append(dict(series=series, doses=[]))
    deco = dict(ids=draw(st.sampled_from(['str', 'int'])), keys=None, explicit_map=False, unrelated=0, extra_col=False,
                nan_rows=0, no_dur_col=False, order_seed=draw(st.integers(0, 10 ** 6)), pop_first=draw(st.booleans()))
    obj = dict(mech=mech, ems=ems, n_ids=n_ids, indiv=indiv, pop=None, cov=None, deco=deco)
    if not with_pop:
        pool = [gen.distinct(draw(gen.vec(gen.logu(0.2, 3.0), mech['n_par']))) + draw(gen.vec(gen.logu(0.05, 3.0), n_sig))
                for _ in range(3)]
        n = n_ll
        obj['prior'] = llbuild.draw_prior(draw, n, pool[0])
        return obj, n, pool
    pop = popgen.draw_pop_for_dim(draw, n_ll, n_ids)
    cov = popgen.draw_cov_matrix(draw, n_ids, ref.pop_n_cov(pop))
    obj['pop'], obj['cov'] = pop, cov
    pool = [popgen.draw_theta(draw, pop, n_ids, cov, positive=True) for _ in range(3)]
    hd = ref.hier_layout(pop, n_ids)[2]
    bottoms = []
    for th in pool:
        z = draw(gen.mat(gen.real(-2.5, 2.5), n_ids, n_ll))
        x = popgen.x_from_z(pop, n_ids, th, z, cov)
        bottoms.append([gen.r6(float(v)) for v in x[:, hd].flatten()])
    obj['bottoms'] = bottoms
    n = ref.pop_n_par(pop, n_ids)
    obj['prior'] = llbuild.draw_prior(draw, n, pool[0])
    return obj, n, pool


DRAW = {'em': _draw_em, 'mech': _draw_mech, 'sbml': _draw_sbml, 'pop': _draw_popobj, 'll': _draw_ll,
        'pred': _draw_pred, 'poppred': _draw_poppred, 'ctrl': lambda d: _draw_ctrl(d, False),
        'ctrlpop': lambda d: _draw_ctrl(d, True)}
MENU = {
    'em': ['rename', 'rename'],
    'mech': ['rename', 'copy', 'copy', 'sens', 'sens', 'sens'],
    'sbml': ['rename', 'copy', 'sens', 'sens', 'sens'],
    'pop': ['rename', 'rename', 'nids', 'dims'],
    'll': [], 'pred': [], 'poppred': [],
    'ctrl': ['set_data'], 'ctrlpop': ['set_data', 'set_data']}
BASE_MENU = ['fix'] * 4 + ['refix'] * 3 + ['release'] * 3 + ['mixed'] * 2 + ['release_all', 'eval', 'eval', 'bogus']


def _pick(draw, pool, i, avoid=None):
    v = pool[draw(st.integers(0, len(pool) - 1))][i]
    if gen.chance(draw, 0.3):
        v = gen.r6(v * draw(st.sampled_from([0.5, 0.8, 1.25, 2.0])))
    if avoid is not None and v == avoid:
        v = gen.r6(v * 1.25)
    return v


def _sub(draw, items, lo, hi):
    """Sorted sub-list of items with lo..hi elements."""
    hi = max(lo, min(hi, len(items)))
    k = draw(st.integers(lo, hi))
    return sorted(draw(st.permutations(items))[:k])


def _draw_ops(draw, kind, n, pool, n_pts, max_len):
    menu = BASE_MENU + MENU[kind]
    fixed = {}
    ops = []
    L = draw(st.integers(2, max_len))
    if L == 2 and not gen.chance(draw, 0.3):
        L = draw(st.integers(2, max_len))      # (Hypothesis over-samples the minimum; short programs are enumerated)
    sens = False
    for _ in range(L):
        o = draw(st.sampled_from(menu))
        free = [i for i in range(n) if i not in fixed]
        allow_all = kind in ALLOW_ALL and not (kind == 'sbml') and gen.chance(draw, 0.12)
        if o in ('refix', 'release', 'mixed', 'release_all') and not fixed:
            o = 'fix'
        room = len(free) if allow_all else len(free) - 1       # how many more may be fixed
        if o == 'fix' and room < 1:
            o = 'release' if fixed else 'eval'
        if o == 'mixed' and not free and not fixed:
            o = 'eval'
        if o == 'fix':
            sub = _sub(draw, free, 1, room)
            vals = {str(i): _pick(draw, pool, i) for i in sub}
            ops.append(dict(op='fix', vals=vals))
        elif o == 'refix':
            sub = _sub(draw, sorted(fixed), 1, len(fixed))
            vals = {str(i): _pick(draw, pool, i, avoid=fixed[i]) for i in sub}
            if room >= 1 and gen.chance(draw, 0.3):
                for i in _sub(draw, free, 1, room):
                    vals[str(i)] = _pick(draw, pool, i)
            ops.append(dict(op='fix', vals=vals))
        elif o == 'release':
            sub = _sub(draw, sorted(fixed), 1, len(fixed))
            vals = {str(i): None for i in sub}
            if free and gen.chance(draw, 0.2):
                vals[str(free[0])] = None          # releasing a free parameter is a no-op
            ops.append(dict(op='fix', vals=vals))
        elif o == 'mixed':
            rel = _sub(draw, sorted(fixed), 1, len(fixed))
            vals = {str(i): None for i in rel}
            cand = [i for i in range(n) if i not in rel]
            room2 = (len(free) + len(rel)) if allow_all else (len(free) + len(rel) - 1)
            newly = [i for i in cand if i not in fixed]
            if newly and room2 - len(rel) >= 1 and gen.chance(draw, 0.8):
                for i in _sub(draw, newly, 1, min(len(newly), room2 - len(rel))):
                    vals[str(i)] = _pick(draw, pool, i)
            still = [i for i in fixed if i not in rel]
            if still and gen.chance(draw, 0.5):
                i = still[0]
                vals[str(i)] = _pick(draw, pool, i, avoid=fixed[i])
            if all(v is None for v in vals.values()) and free and room >= 1:
                vals[str(free[-1])] = _pick(draw, pool, free[-1])
            ops.append(dict(op='fix', vals=vals))
        elif o == 'release_all':
            ops.append(dict(op='release_all', how=draw(st.sampled_from(['fixed', 'every']))))
        elif o == 'eval':
            ops.append(dict(op='eval', pt=draw(st.integers(0, n_pts - 1))))
        elif o == 'bogus':
            ops.append(dict(op='bogus', val=draw(gen.logu(0.1, 5.0))))
        elif o == 'rename':
            if kind in ('mech', 'sbml'):
                ops.append(dict(op='rename', pos=_sub(draw, list(range(n)), 1, min(n, 3))))
            else:
                ops.append(dict(op='rename', reset=gen.chance(draw, 0.2)))
        elif o == 'copy':
            ops.append(dict(op='copy', cont=draw(st.booleans())))
        elif o == 'sens':
            sens = (not sens) if gen.chance(draw, 0.8) else sens
            if sens and kind == 'sbml' and len(fixed) == n:
                sens = False
            ops.append(dict(op='sens', on=sens))
        elif o == 'nids':
            ops.append(dict(op='nids'))
        elif o == 'dims':
            ops.append(dict(op='dims'))
        elif o == 'set_data':
            ops.append(dict(op='set_data'))
        fixed = _step_model(kind, fixed, ops[-1], n)
    return ops


def _step_model(kind, fixed, op, n):
    """The harness model of the fixed dict after one operation (pure)."""
    fixed = dict(fixed)
    if op['op'] == 'fix':
        for k, v in op['vals'].items():
            if v is None:
                fixed.pop(int(k), None)
            else:
                fixed[int(k)] = v
    elif op['op'] == 'release_all':
        fixed = {}
    elif op['op'] == 'set_data' and kind == 'ctrlpop':
        fixed = {}
    return fixed


@st.composite
def _spec(draw, tier):
    kind = draw(st.sampled_from(KIND_MENU))
    obj, n, pool = DRAW[kind](draw)
    n_pts = min(len(pool), draw(st.integers(2, 3)))
    long_ = 20 if tier == 'quick' else 50
    short = 8 if tier == 'quick' else 16
    max_len = long_ if kind in CHEAP else short
    ops = _draw_ops(draw, kind, n, pool, n_pts, max_len)
    return dict(kind=kind, obj=obj, n=n, points=pool[:n_pts], ops=ops, every=True, exhaustive=False)


def strategy(tier):
    return _spec(tier)


# ---- bounded exhaustive tier --------------------------------------------------------------------
def _val(i, k=0):
    return gen.r6(0.37 + 0.41 * i + 0.173 * k)


def _subset_programs(n):
    progs = []
    for r in range(1, n + 1):
        for S in itertools.combinations(range(n), r):
            one = [dict(op='fix', vals={str(i): _val(i) for i in S})]
            one += [dict(op='fix', vals={str(i): None}) for i in S]
            each = [dict(op='fix', vals={str(i): _val(i)}) for i in reversed(S)]
            each += [dict(op='release_all', how='fixed')]
            progs += [one, each]
    return progs


def extra_cases(tier):
    out = []

    def add(kind, obj, n, points):
        for ops in _subset_programs(n):
            out.append(dict(kind=kind, obj=obj, n=n, points=points, ops=ops, every=True, exhaustive=True))
    for k in llbuild.EM_KINDS:
        n = ref.EM_NPAR[k]
        obj = dict(em=k, ybar=[0.8, 1.7, 3.1], y=[1.0, 1.5, 2.6], S=[[0.5, -1.0], [1.5, 0.25], [-0.75, 2.0]], p=2,
                   n_samples=2, seed=11)
        add('em', obj, n, [[0.6, 0.3][:n], [1.4, 0.2][:n]])
    for n_par in (1, 2, 3, 4):
        obj = dict(n_out=2 if n_par > 1 else 1, n_par=n_par, times=[0.0, 0.7, 2.5])
        add('mech', obj, n_par, [[0.9, 1.6, 0.4, 2.2][:n_par], [1.3, 0.5, 2.1, 0.8][:n_par]])
    pops = [
        (dict(kind='gauss', n_dim=1, centered=True), 3, [[1.0, 0.5], [-0.5, 2.0]]),
        (dict(kind='gauss', n_dim=2, centered=False), 2, [[1.0, -2.0, 0.5, 1.5], [0.3, 0.6, 2.0, 0.7]]),
        (dict(kind='lognorm', n_dim=2, centered=True), 2, [[0.2, -0.4, 0.5, 0.3], [0.0, 0.7, 0.9, 0.2]]),
        (dict(kind='trunc', n_dim=1), 3, [[1.0, 0.8], [0.2, 1.5]]),
        (dict(kind='pooled', n_dim=3), 2, [[1.5, 0.7, 2.2], [0.4, 3.0, 1.1]]),
        (dict(kind='hetero', n_dim=1), 3, [[1.5, 0.7, 2.2], [0.4, 3.0, 1.1]]),
        (dict(kind='hetero', n_dim=2), 2, [[1.5, 0.7, 2.2, 0.9], [0.4, 3.0, 1.1, 2.5]]),
        (dict(kind='comp', parts=[dict(kind='gauss', n_dim=1, centered=True), dict(kind='pooled', n_dim=1)]), 3,
         [[1.0, 0.5, 2.0], [-1.0, 1.5, 0.6]]),
        (dict(kind='comp', parts=[dict(kind='pooled', n_dim=1), dict(kind='lognorm', n_dim=1, centered=False),
                                  dict(kind='hetero', n_dim=1)]), 1, [[2.0, 0.1, 0.4, 1.3], [0.6, -0.2, 0.8, 2.4]]),
        (dict(kind='cov', base=dict(kind='gauss', n_dim=1, centered=True), n_cov=1, sel=None), 2,
         [[1.0, 0.8, 0.3, 0.1], [0.5, 1.2, -0.2, 0.2]]),
        (dict(kind='cov', base=dict(kind='pooled', n_dim=2), n_cov=1, sel=[[0, 1]]), 2,
         [[1.0, 2.0, 0.3], [0.5, 1.2, -0.2]]),
    ]
    for pop, n_ids, points in pops:
        n_dim = ref.pop_n_dim(pop)
        n_cov = ref.pop_n_cov(pop)
        cov = None if n_cov == 0 else [[gen.r6(0.4 * (i + 1) - 0.9)] * n_cov for i in range(n_ids)]
        z = [[gen.r6(0.35 * (i + 1) - 0.2 * d) for d in range(n_dim)] for i in range(n_ids)]
        obj = dict(pop=pop, n_ids=n_ids, cov=cov, z=z, U=[[gen.r6(0.5 - 0.3 * i + d) for d in range(n_dim)] for i in range(n_ids)],
                   late=False, n_samples=2, seed=5)
        add('pop', obj, ref.pop_n_par(pop, n_ids), points)
    # the set_n_ids round trip after every single fixed parameter, with a heterogeneous part in front of / between the
    # other parts (its size changes with the number of individuals)
    for pop, points in [
            (dict(kind='comp', parts=[dict(kind='hetero', n_dim=1), dict(kind='gauss', n_dim=1, centered=True)]),
             [[1.5, 0.7, 1.0, 0.5], [0.4, 3.0, -0.5, 2.0]]),
            (dict(kind='comp', parts=[dict(kind='pooled', n_dim=1), dict(kind='hetero', n_dim=1),
                                      dict(kind='lognorm', n_dim=1, centered=True)]),
             [[2.0, 1.5, 0.7, 0.1, 0.4], [0.6, 0.4, 3.0, -0.2, 0.8]])]:
        n_ids, n_dim = 2, ref.pop_n_dim(pop)
        z = [[gen.r6(0.35 * (i + 1) - 0.2 * d) for d in range(n_dim)] for i in range(n_ids)]
        obj = dict(pop=pop, n_ids=n_ids, cov=None, z=z, U=None, late=False, n_samples=2, seed=5)
        n = ref.pop_n_par(pop, n_ids)
        for i in range(n):
            out.append(dict(kind='pop', obj=obj, n=n, points=points, exhaustive=True, every=True,
                            ops=[dict(op='fix', vals={str(i): _val(i)}), dict(op='nids'), dict(op='release_all', how='fixed')]))
            out.append(dict(kind='pop', obj=obj, n=n, points=points, exhaustive=True, every=True,
                            ops=[dict(op='fix', vals={str(i): _val(i)}), dict(op='dims'), dict(op='release_all', how='fixed')]))
    return out


# =====================================================================================================
# measurement of the generator
# =====================================================================================================
def _trace(spec):
    """[(op, fixed before, fixed after)] under the harness model."""
    fixed = {}
    out = []
    for op in spec['ops']:
        after = _step_model(spec['kind'], fixed, op, spec['n'])
        out.append((op, fixed, after))
        fixed = after
    return out


def classify(spec):
    kind = spec['kind']
    labs = ['kind:' + kind]
    if spec.get('exhaustive'):
        labs.append('exhaustive')
    if kind == 'em' and spec['obj'].get('em') == 'user3':
        labs.append('em:user_defined_three_parameters')
        if any(sorted(after) in ([0, 2],) for _, _, after in _trace(spec)):
            labs.append('em:user_defined:outer_two_fixed')
    sens = False
    for op, before, after in _trace(spec):
        o = op['op']
        if o == 'fix':
            vals = {int(k): v for k, v in op['vals'].items()}
            rel = [k for k, v in vals.items() if v is None and k in before]
            new = [k for k, v in vals.items() if v is not None and k not in before]
            re = [k for k, v in vals.items() if v is not None and k in before]
            if new:
                labs.append('op:fix')
            if re:
                labs.append('op:refix')
            if rel:
                labs.append('op:release')
            if rel and (new or re):
                labs.append('op:mixed')
        else:
            labs.append('op:' + o)
        if o == 'sens':
            sens = op['on']
        if o == 'copy' and kind == 'sbml':
            sens = False
        if len(after) == spec['n']:
            labs.append('all_fixed')
        if sens and after and o in ('fix', 'sens'):
            labs.append('sens_while_fixed')
    obj = spec['obj']
    if kind == 'sbml' and obj['admin'] is not None:
        labs.append('sbml:admin')
    if kind in ('pop', 'poppred', 'ctrlpop'):
        pop = obj['pop']
        if pop['kind'] != 'comp':
            labs.append('pop:bare')
        for lf in popgen.leaves(pop):
            labs.append('pop:' + lf['kind'])
        if popgen.has(pop, 'cov'):
            labs.append('pop:cov')
        if obj.get('late'):
            labs.append('late_n_ids')
    return sorted(set(labs))


def nontrivial(spec):
    tr = _trace(spec)
    mixed_eval = any(0 < len(after) < spec['n'] for _, _, after in tr)
    later_change = False
    for i, (op, before, after) in enumerate(tr):
        if i == 0 or op['op'] not in ('fix', 'release_all'):
            continue
        if op['op'] == 'release_all' and before:
            later_change = True
        if op['op'] == 'fix':
            for k, v in op['vals'].items():
                if int(k) in before and (v is None or v != before[int(k)]):
                    later_change = True
    return mixed_eval and later_change


def _obj_structure(spec):
    kind, o = spec['kind'], spec['obj']
    if kind == 'em':
        return [o['em'], len(o['ybar']), o['p']]
    if kind == 'mech':
        return [o['n_out'], o['n_par']]
    if kind == 'sbml':
        return [sbmlgen.structure(o['ms']), o['admin'], o['regimen'] is not None, o['outputs'] is not None]
    if kind == 'pop':
        return [popgen.structure(o['pop']), o['n_ids'], o['late'], o['U'] is not None]
    if kind in ('ll', 'pred'):
        ll = o['ll']
        return [ll['n_out'], ll['n_par'], [[e['kind'], sorted(e['fixed']) if e['fixed'] else None] for e in ll['ems']]]
    if kind == 'poppred':
        ll = o['ll']
        return [ll['n_out'], ll['n_par'], [e['kind'] for e in ll['ems']], popgen.structure(o['pop']), o['n_ids']]
    return [o['mech']['n_out'], o['mech']['n_par'], o['ems'], o['n_ids'],
            popgen.structure(o['pop']) if o['pop'] else None, o['deco']['pop_first']]


def structure(spec):
    ops = []
    for op in spec['ops']:
        if op['op'] == 'fix':
            ops.append(['fix', sorted([int(k), v is None] for k, v in op['vals'].items())])
        else:
            ops.append([op['op']] + [op[k] for k in sorted(op) if k not in ('op', 'val')])
    return [spec['kind'], _obj_structure(spec), ops]


# =====================================================================================================
# adapters: what the harness knows about each reducible object kind
# =====================================================================================================
class State(object):
    """Harness model of one object: fixed dict (original position -> value), names by position, sensitivities."""
    def __init__(self, obj, names):
        self.obj = obj
        self.fixed = {}
        self.names = list(names)
        self.sens = False

    def free(self, n):
        return [i for i in range(n) if i not in self.fixed]

    def snapshot(self, obj):
        s = State(obj, self.names)
        s.fixed = dict(self.fixed)
        s.sens = self.sens
        return s


def _twin_call(fn):
    """Evaluate the oracle; a chi exception inside the twin makes the evaluation inconclusive."""
    try:
        return fn()
    except (core.ClauseFail, Inconclusive, core.HarnessError, KeyboardInterrupt, SystemExit, MemoryError):
        raise
    except BaseException as e:  # noqa
        if core.exc_kind(e) is None:
            raise
        raise Inconclusive()


class Base(object):
    canon_every = 1
    has_n_fixed = True
    copyable = False

    def __init__(self, spec):
        self.s = spec
        self.o = spec['obj']
        self.n = spec['n']
        self._cache = {}

    # -- interface -----------------------------------------------------------------------------
    def fix(self, obj, d):
        obj.fix_parameters(d)

    def names(self, obj):
        return [str(v) for v in obj.get_parameter_names()]

    def n_par(self, obj):
        return int(obj.n_parameters())

    def n_fixed(self, obj):
        return int(obj.n_fixed_parameters())

    def twin_names(self):
        return self.names(self.tw)

    def extra_counts(self, case, st, free):
        pass

    def bogus_name(self):
        return 'no such parameter'

    def context(self, st, full, pt, step):
        return {}

    def restrict(self, res, free, ctx):
        return res

    def observe_twin(self, full, ctx):
        return self.observe(self.tw, full, ctx)

    def twin_result(self, st, full, free, pt, ctx):
        key = (pt, tuple(float(v) for v in full), tuple(free), st.sens)
        if key not in self._cache:
            res = _twin_call(lambda: self.observe_twin(full.copy(), ctx))
            self._cache[key] = self.restrict(dict(res), free, ctx)
        return self._cache[key]


class EmAd(Base):
    def __init__(self, spec):
        super(EmAd, self).__init__(spec)
        o = self.o
        self.kind = o['em']
        self.ybar = np.array(o['ybar'], dtype=float)
        self.y = np.array(o['y'], dtype=float)
        self.S = np.array(o['S'], dtype=float).reshape(len(self.ybar), o['p'])
        self.tw = ref.em_class(self.kind)()

    def fresh(self):
        import chi
        return chi.ReducedErrorModel(ref.em_class(self.kind)())

    def names0(self):
        return list(ref.EM_DEFAULT_NAMES[self.kind])

    def observe(self, obj, vec, ctx):
        o = self.o
        r = {}
        r['value'] = obj.compute_log_likelihood(vec.copy(), self.ybar.copy(), self.y.copy())
        r['pointwise'] = obj.compute_pointwise_ll(vec.copy(), self.ybar.copy(), self.y.copy())
        sc, sens = obj.compute_sensitivities(vec.copy(), self.ybar.copy(), self.S.copy(), self.y.copy())
        r['score'], r['sens'] = sc, sens
        r['sample'] = obj.sample(vec.copy(), self.ybar.copy(), o['n_samples'], o['seed'])
        return r

    def restrict(self, res, free, ctx):
        p = self.S.shape[1]
        sens = np.asarray(res['sens'], dtype=float)
        res['sens'] = np.concatenate([sens[:p], sens[p:][free]])
        return res

    def rename(self, st, op, step):
        free = st.free(self.n)
        if op.get('reset'):
            st.obj.set_parameter_names(None)
            self.tw.set_parameter_names(None)
        else:
            new = ['%sq%d_%d' % (chr(122 - i % 26), step, i) for i in free]
            st.obj.set_parameter_names(list(new))
            full = self.twin_names()
            for i, nm in zip(free, new):
                full[i] = nm
            self.tw.set_parameter_names(full)
        st.names = self.twin_names()


class MechAd(Base):
    copyable = True

    def __init__(self, spec):
        super(MechAd, self).__init__(spec)
        self.times = np.array(self.o['times'], dtype=float)
        self.tw = self.model()
        self.tw_s = None

    def model(self):
        return AnalyticModel(self.o['n_out'], self.o['n_par'])

    def fresh(self):
        import chi
        return chi.ReducedMechanisticModel(self.model())

    def names0(self):
        return ['psi %d' % (j + 1) for j in range(self.o['n_par'])]

    def names(self, obj):
        return [str(v) for v in obj.parameters()]

    def context(self, st, full, pt, step):
        return dict(sens=st.sens)

    def extra_counts(self, case, st, free):
        case.equal(bool(st.obj.has_sensitivities()), bool(st.sens), 'has_sensitivities()')

    def observe(self, obj, vec, ctx):
        res = obj.simulate(vec.copy(), self.times.copy())
        if ctx['sens']:
            case_ok = isinstance(res, tuple) and len(res) == 2
            if not case_ok:
                raise core.ClauseFail('shape', 'simulate with sensitivities enabled did not return (outputs, sensitivities)')
            return dict(sim=res[0], dsim=res[1])
        if isinstance(res, tuple):
            raise core.ClauseFail('shape', 'simulate without sensitivities returned a tuple')
        return dict(sim=res)

    def observe_twin(self, full, ctx):
        if ctx['sens']:
            if self.tw_s is None:
                self.tw_s = self.model_like_twin()
                self.tw_s.enable_sensitivities(True)
            return self.observe(self.tw_s, full, ctx)
        return self.observe(self.tw, full, ctx)

    def model_like_twin(self):
        m = self.model()
        cur = self.names(self.tw)
        base = self.names(m)
        ren = {a: b for a, b in zip(base, cur) if a != b}
        if ren:
            m.set_parameter_names(ren)
        return m

    def restrict(self, res, free, ctx):
        if 'dsim' in res:
            res['dsim'] = np.asarray(res['dsim'], dtype=float)[:, :, free]
        return res

    def rename(self, st, op, step):
        ren = {st.names[i]: '%sq%d_%d' % (chr(122 - i % 26), step, i) for i in op['pos']}
        st.obj.set_parameter_names(dict(ren))
        self.tw.set_parameter_names(dict(ren))
        if self.tw_s is not None:
            self.tw_s.set_parameter_names(dict(ren))
        st.names = self.twin_names()

    def sens_after_copy(self, st):
        return st.sens                      # AnalyticModel.copy is a deep copy (harness model)


class SbmlAd(MechAd):
    canon_every = 3

    def model(self):
        import chi
        o = self.o
        m = sbmlgen.build(o['ms'], chi.PKPDModel)
        if o['admin'] is not None:
            comp = o['ms']['comps'][o['admin']['comp']]
            m.set_administration(comp['id'], amount_var='%s_amount' % comp['sid'], direct=o['admin']['direct'])
            if o['regimen'] is not None:
                r = o['regimen']
                m.set_dosing_regimen(r['dose'], start=r['start'], duration=r['duration'], period=r['period'], num=r['num'])
        if o['outputs'] is not None:
            m.set_outputs(list(o['outputs']))
        return m

    def names0(self):
        return sbmlgen.published_parameters(self.o['ms'], self.o['admin'])

    def sens_after_copy(self, st):
        return False                        # documented: copying resets the sensitivity settings


class PopAd(Base):
    def __init__(self, spec):
        super(PopAd, self).__init__(spec)
        o = self.o
        self.pop, self.n_ids = o['pop'], o['n_ids']
        self.cov = None if o['cov'] is None else np.array(o['cov'], dtype=float)
        self.z = np.array(o['z'], dtype=float)
        self.U = None if o['U'] is None else np.array(o['U'], dtype=float)
        self.dims = _dims(ref.pop_n_dim(self.pop))
        self.kw = {} if self.cov is None else {'covariates': self.cov}
        self.kws = {} if self.cov is None else {'covariates': self.cov[0]}
        self.nb, self.nt, self.hd = ref.hier_layout(self.pop, self.n_ids)
        self.special = ref.pop_special(self.pop)
        self.tw = ref.build_pop(self.pop, self.dims, self.n_ids)
        self.tw.set_n_ids(self.n_ids)
        # default names of covariate coefficients repeat across the parts of a composition ('Param. 1 Cov. 1'):
        # parameters could no longer be addressed by name, so such a reset is not part of the program
        probe = ref.build_pop(self.pop, self.dims, self.n_ids)
        probe.set_n_ids(self.n_ids)
        probe.set_parameter_names(None)
        pn = probe.get_parameter_names()
        self.reset_ok = len(set(pn)) == len(pn)
        self.renamed = False

    def fresh(self):
        import chi
        base = ref.build_pop(self.pop, self.dims, None if self.o.get('late') else self.n_ids)
        r = chi.ReducedPopulationModel(base)
        r.set_n_ids(self.n_ids)
        return r

    def names0(self):
        return ref.pop_names(self.pop, self.n_ids, self.dims)

    def extra_counts(self, case, st, free):
        nh = tuple(int(v) for v in st.obj.n_hierarchical_parameters(self.n_ids))
        case.equal(nh, (self.nb, len(free)), 'n_hierarchical_parameters(n_ids)')
        # asked about a cohort of another size (planning a study, a likelihood under construction): the unfixed model's
        # answer for that size, less the fixed parameters
        for n2 in (self.n_ids + 2, 1):
            a, b = (int(v) for v in self.tw.n_hierarchical_parameters(n2))
            case.equal(tuple(int(v) for v in st.obj.n_hierarchical_parameters(n2)), (a, b - len(st.fixed)),
                       'n_hierarchical_parameters(%d) of a model configured for %d individuals with %d fixed parameter(s)'
                       % (n2, self.n_ids, len(st.fixed)))
        case.equal(int(st.obj.n_dim()), ref.pop_n_dim(self.pop), 'n_dim()')
        case.equal(int(st.obj.n_hierarchical_dim()), len(self.hd), 'n_hierarchical_dim()')
        case.equal(int(st.obj.n_covariates()), ref.pop_n_cov(self.pop), 'n_covariates()')
        bare = [str(v) for v in self.tw.get_parameter_names(exclude_dim_names=True)]
        case.equal([str(v) for v in st.obj.get_parameter_names(exclude_dim_names=True)], [bare[i] for i in free],
                   'get_parameter_names(exclude_dim_names=True)')
        sd, npool, nhet = self.tw.get_special_dims()
        want = []
        for e in sd:
            a = e[2] - sum(1 for i in st.fixed if i < e[2])
            b = e[3] - sum(1 for i in st.fixed if i < e[3])
            want.append([e[0], e[1], a, b, e[4]])
        got = st.obj.get_special_dims()
        case.equal([[int(e[0]), int(e[1]), int(e[2]), int(e[3]), bool(e[4])] for e in got[0]],
                   [[int(e[0]), int(e[1]), int(e[2]), int(e[3]), bool(e[4])] for e in want],
                   'get_special_dims() re-indexed to the free parameters')
        case.equal((int(got[1]), int(got[2])), (int(npool), int(nhet)), 'number of pooled / heterogeneous dimensions')

    def context(self, st, full, pt, step):
        key = ('x', tuple(float(v) for v in full))
        if key not in self._cache:
            def mk():
                x = popgen.x_from_z(self.pop, self.n_ids, full, self.z, self.cov)
                if any(self.special):
                    xc = np.asarray(self.tw.compute_individual_parameters(full.copy(), x.copy(), **self.kw), dtype=float)
                    for d, sp in enumerate(self.special):
                        if sp:
                            x[:, d] = xc[:, d]
                return x
            self._cache[key] = _twin_call(mk)
        return dict(x=self._cache[key])

    def observe(self, obj, vec, ctx):
        x, o = ctx['x'], self.o
        U = None if self.U is None else self.U.copy()
        r = {}
        r['value'] = obj.compute_log_likelihood(vec.copy(), x.copy(), **self.kw)
        r['indiv'] = obj.compute_individual_parameters(vec.copy(), x.copy(), **self.kw)
        sc, dpsi, dth = obj.compute_sensitivities(vec.copy(), x.copy(), dlogp_dpsi=U, **self.kw)
        r['score'], r['dpsi'], r['dtheta'] = sc, dpsi, dth
        U = None if self.U is None else self.U.copy()
        sc, g = obj.compute_sensitivities(vec.copy(), x.copy(), dlogp_dpsi=U, reduce=True, **self.kw)
        r['score_reduce'], r['grad_reduce'] = sc, g
        r['sample'] = obj.sample(parameters=vec.copy(), n_samples=o['n_samples'], seed=o['seed'], **self.kws)
        return r

    def restrict(self, res, free, ctx):
        res['dtheta'] = np.asarray(res['dtheta'], dtype=float)[free]
        g = np.asarray(res['grad_reduce'], dtype=float)
        res['grad_reduce'] = np.concatenate([g[:self.nb], g[self.nb:][free]])
        return res

    def rename(self, st, op, step):
        free = st.free(self.n)
        if op.get('reset'):
            if not self.reset_ok:
                return
            st.obj.set_parameter_names(None)
            self.tw.set_parameter_names(None)
        else:
            # Names of covariate coefficients grow by ' Cov. k' whenever a full list of names is read and set again
            # (bare CovariatePopulationModel: set_parameter_names(get_parameter_names()) is not idempotent; not a C08
            # matter), and ReducedPopulationModel keeps at most 50 characters: stop renaming before that limit.
            if max(len(str(v)) for v in self.tw.get_parameter_names()) > 40:
                return
            self.renamed = True
            new = ['%sq%d_%d' % (chr(122 - i % 26), step, i) for i in free]
            st.obj.set_parameter_names(list(new))
            full = [str(v) for v in self.tw.get_parameter_names(exclude_dim_names=True)]
            for i, nm in zip(free, new):
                full[i] = nm
            self.tw.set_parameter_names(full)
        st.names = self.twin_names()


class LlAd(Base):
    has_n_fixed = False

    def __init__(self, spec):
        super(LlAd, self).__init__(spec)
        self.ll = self.o['ll']
        self.tw = self.fresh()

    def fresh(self):
        return llbuild.build_ll(self.ll)

    def names0(self):
        return llbuild.ll_names(self.ll)

    def context(self, st, full, pt, step):
        return dict(order=step % 3)

    def observe(self, obj, vec, ctx):
        r = {}

        def value():
            r['value'] = obj(vec.copy())

        def pointwise():
            r['pointwise'] = obj.compute_pointwise_ll(vec.copy())

        def s1():
            r['score'], r['sens'] = obj.evaluateS1(vec.copy())
        seq = [[value, pointwise, s1], [s1, value, pointwise], [pointwise, s1, value]][ctx['order']]
        for f in seq:
            f()
        return r

    def restrict(self, res, free, ctx):
        res['sens'] = np.asarray(res['sens'], dtype=float)[free]
        return res


class PredAd(Base):
    has_n_fixed = False

    def __init__(self, spec):
        super(PredAd, self).__init__(spec)
        self.ll = self.o['ll']
        self.times = np.array(self.o['times'], dtype=float)
        self.tw = self.fresh()

    def fresh(self):
        import chi
        return chi.PredictiveModel(llbuild.build_model(self.ll), llbuild.build_error_models(self.ll))

    def names0(self):
        return llbuild.ll_names(self.ll)

    def extra_counts(self, case, st, free):
        case.equal(int(st.obj.get_n_outputs()), self.ll['n_out'], 'get_n_outputs()')

    def observe(self, obj, vec, ctx):
        o = self.o
        return dict(sample=obj.sample(vec.copy(), self.times.copy(), n_samples=o['n_samples'], seed=o['seed'],
                                      return_df=False))


class PopPredAd(Base):
    has_n_fixed = False

    def __init__(self, spec):
        super(PopPredAd, self).__init__(spec)
        o = self.o
        self.ll = o['ll']
        self.times = np.array(o['times'], dtype=float)
        self.cov = None if o['cov'] is None else np.array(o['cov'], dtype=float)
        self.tw = self.fresh()

    def fresh(self):
        import chi
        o = self.o
        pred = chi.PredictiveModel(llbuild.build_model(self.ll), llbuild.build_error_models(self.ll))
        pm = ref.build_pop(o['pop'], llbuild.ll_names(self.ll), o['n_ids'])
        pm.set_n_ids(o['n_ids'])
        return chi.PopulationPredictiveModel(pred, pm)

    def names0(self):
        return ref.pop_names(self.o['pop'], self.o['n_ids'], llbuild.ll_names(self.ll))

    def observe(self, obj, vec, ctx):
        o = self.o
        return dict(sample=obj.sample(vec.copy(), self.times.copy(), n_samples=o['n_ids'], seed=o['seed'],
                                      return_df=False, covariates=None if self.cov is None else self.cov.copy()))


def _ctrl_build(o):
    from vf.props import c14
    df, K = c14.build_frame(o, o['deco'])
    ctrl = c14.build_controller(o, df, K)
    kw = dict(output_observable_dict=None, covariate_dict=None, id_key=K['id'], time_key=K['time'], obs_key=K['obs'],
              value_key=K['value'])
    return ctrl, df, kw


class CtrlAd(Base):
    canon_every = 3
    has_n_fixed = False
    hier = False

    def __init__(self, spec):
        super(CtrlAd, self).__init__(spec)
        from vf.props import c14
        o = self.o
        self.ids = [str(i) for i in c14._ids(o)]
        self.ll_names = c14._ll_names(o)
        self.tw, _, _ = _ctrl_build(o)
        self.tw.set_log_prior(llbuild.build_prior(o['prior']))
        self.data = {}
        self._tw_post = {}

    def fresh(self):
        ctrl, df, kw = _ctrl_build(self.o)
        self.data[id(ctrl)] = (df, kw)
        return ctrl

    def names0(self):
        return list(self.ll_names)

    def n_par(self, obj):
        return int(obj.get_n_parameters())

    def set_data(self, obj):
        df, kw = self.data[id(obj)]
        obj.set_data(df, **kw)

    def extra_counts(self, case, st, free):
        pm = st.obj.get_predictive_model()
        case.equal([str(v) for v in pm.get_parameter_names()], [st.names[i] for i in free],
                   'names of get_predictive_model()')
        case.equal([str(v) for v in st.obj.get_parameter_names(exclude_pop_model=True)],
                   [st.names[i] for i in free] if not self.hier else list(self.ll_names), 'bottom-level names')

    def context(self, st, full, pt, step):
        return dict(ind=self.ids[pt % len(self.ids)], free=st.free(self.n), pt=pt)

    def prior(self, free):
        return llbuild.build_prior([self.o['prior'][i] for i in free])

    def observe(self, obj, vec, ctx):
        obj.set_log_prior(self.prior(ctx['free']))
        P = obj.get_log_posterior(individual=ctx['ind'])
        r = {}
        r['value'] = P(vec.copy())
        r['score'], r['sens'] = P.evaluateS1(vec.copy())
        r['names'] = [str(v) for v in P.get_parameter_names()]
        r['n'] = int(P.n_parameters())
        r['ll_value'] = P.get_log_likelihood()(vec.copy())
        return r

    def observe_twin(self, full, ctx):
        ind = ctx['ind']
        if ind not in self._tw_post:
            self._tw_post[ind] = self.tw.get_log_posterior(individual=ind)
        L = self._tw_post[ind].get_log_likelihood()
        free = ctx['free']
        pr = self.prior(free)
        lp, dlp = pr.evaluateS1(full[free].copy())
        r = {}
        r['ll_value'] = L(full.copy())
        r['value'] = r['ll_value'] + lp if np.isfinite(lp) else -np.inf
        sc, sens = L.evaluateS1(full.copy())
        r['score'] = sc + lp if np.isfinite(lp) else -np.inf     # (chi returns the prior's -inf without the likelihood)
        r['sens'] = np.asarray(sens, dtype=float)[free] + np.asarray(dlp, dtype=float)
        r['names'] = [self.names_now[i] for i in free]
        r['n'] = len(free)
        return r


class CtrlPopAd(CtrlAd):
    hier = True

    def __init__(self, spec):
        super(CtrlPopAd, self).__init__(spec)
        o = self.o
        self.nb, self.nt, self.hd = ref.hier_layout(o['pop'], o['n_ids'])
        self._tw_P = None

    def names0(self):
        return ref.pop_names(self.o['pop'], self.o['n_ids'], self.ll_names)

    def bogus_name(self):
        # documented: once a population model is set, only population parameters can be fixed
        return self.ll_names[0]

    def context(self, st, full, pt, step):
        return dict(free=st.free(self.n), pt=pt, bottom=np.array(self.o['bottoms'][pt], dtype=float))

    def observe(self, obj, vec, ctx):
        obj.set_log_prior(self.prior(ctx['free']))
        P = obj.get_log_posterior()
        v = np.concatenate([ctx['bottom'], vec])
        r = {}
        r['value'] = P(v.copy())
        r['score'], r['sens'] = P.evaluateS1(v.copy())
        r['names'] = [str(x) for x in P.get_parameter_names(exclude_bottom_level=True)]
        r['n'] = int(P.n_parameters())
        r['ll_value'] = P.get_log_likelihood()(v.copy())
        return r

    def observe_twin(self, full, ctx):
        if self._tw_P is None:
            self._tw_P = self.tw.get_log_posterior()
        L = self._tw_P.get_log_likelihood()
        free = ctx['free']
        pr = self.prior(free)
        lp, dlp = pr.evaluateS1(full[free].copy())
        v = np.concatenate([ctx['bottom'], full])
        r = {}
        r['ll_value'] = L(v.copy())
        r['value'] = r['ll_value'] + lp if np.isfinite(lp) else -np.inf
        sc, sens = L.evaluateS1(v.copy())
        sens = np.asarray(sens, dtype=float)
        r['score'] = sc + lp if np.isfinite(lp) else -np.inf     # (chi returns the prior's -inf without the likelihood)
        r['sens'] = np.concatenate([sens[:self.nb], sens[self.nb:][free] + np.asarray(dlp, dtype=float)])
        r['names'] = [self.names_now[i] for i in free]
        r['n'] = self.nb + len(free)
        return r


ADAPTERS = {'em': EmAd, 'mech': MechAd, 'sbml': SbmlAd, 'pop': PopAd, 'll': LlAd, 'pred': PredAd,
            'poppred': PopPredAd, 'ctrl': CtrlAd, 'ctrlpop': CtrlPopAd}


# =====================================================================================================
# the check: interpreter of the program
# =====================================================================================================
def _as_arrays(res):
    return {k: v for k, v in res.items() if isinstance(v, np.ndarray)}


GRAD_KEYS = ('sens', 'dpsi', 'dtheta', 'grad_reduce', 'dsim')
SCORE_KEYS = ('value', 'score', 'score_reduce', 'll_value')


def _compare(case, what, got, want, rtol=RTOL):
    # outside the support (score -inf / nan) chi documents no derivative (some models return uninitialised memory)
    finite = all(np.all(np.isfinite(np.asarray(want[k], dtype=float))) for k in SCORE_KEYS if k in want)
    for key in sorted(want):
        if key in GRAD_KEYS and not finite:
            continue
        if key not in got:
            case.fail('mismatch', '%s: %s missing' % (what, key))
        if key in ('names', 'n'):
            case.equal(got[key], want[key], '%s: %s' % (what, key))
        else:
            case.close(got[key], want[key], rtol=rtol, what='%s: %s' % (what, key))


def check(case):
    from vf import simshim
    simshim.install()
    s = case.spec
    kind = s['kind']
    n = s['n']
    points = [np.array(p, dtype=float) for p in s['points']]
    ops = s['ops']

    with case.clause('construct'):
        ad = ADAPTERS[kind](s)
        cur = State(ad.fresh(), ad.twin_names())
        case.equal(len(cur.names), n, 'number of parameters of the twin')
        case.equal(cur.names, ad.names0(), 'names of the never-fixed object vs the documented naming rule')
        case.equal(ad.names(cur.obj), cur.names, 'names of the fresh reducible object')
        case.equal(len(set(cur.names)), n, 'parameter names are unique')
    if case.fails:
        return
    names0 = list(cur.names)
    others = []           # (label, State, recorded observation, point)
    kept = []             # (label, array returned by chi, copy taken at that time)

    def full_vec(st, pt):
        v = points[pt].copy()
        for i, x in st.fixed.items():
            v[i] = x
        return v

    def observe(st, pt, step, keep=None):
        free = st.free(n)
        full = full_vec(st, pt)
        ctx = ad.context(st, full, pt, step)
        ad.names_now = st.names
        try:
            want = ad.twin_result(st, full, free, pt, ctx)
        except Inconclusive:
            if 'twin_raises:' + kind not in case.labels:
                case.labels.append('twin_raises:' + kind)
            raise
        got = ad.observe(st.obj, full[free].copy(), ctx)
        if keep is not None:
            for k, v in _as_arrays(got).items():
                kept.append(('%s returned %s' % (k, keep), v, np.array(v, copy=True)))
            del kept[:-24]
        return got, want, ctx

    def verify(step, pt):
        what = 'after op %d %s' % (step, _short_op(ops[step]))
        st = cur
        free = st.free(n)
        with case.clause('names_counts'):
            case.equal(ad.names(st.obj), [st.names[i] for i in free], '%s: names of the free parameters' % what)
            case.equal(ad.n_par(st.obj), len(free), '%s: n_parameters' % what)
            if ad.has_n_fixed:
                case.equal(ad.n_fixed(st.obj), len(st.fixed), '%s: n_fixed_parameters' % what)
            ad.extra_counts(case, st, free)
        if case.fails:
            return
        if not free:
            if 'all_fixed_reached' not in case.labels:
                case.labels.append('all_fixed_reached')
            return
        got = None
        with case.clause('substitution'):
            got, want, ctx = observe(st, pt, step, keep=what)
            _compare(case, what + ' vs never-fixed twin at the substituted vector', got, want)
        if case.fails:
            return
        if got is not None and (step % ad.canon_every == ad.canon_every - 1 or step == len(ops) - 1
                                or s.get('exhaustive')):
            with case.clause('order_independence'):
                canon = State(ad.fresh(), names0)
                if st.fixed:
                    ad.fix(canon.obj, {names0[i]: float(v) for i, v in st.fixed.items()})
                canon.fixed = dict(st.fixed)
                if ad.copyable and st.sens:
                    canon.obj.enable_sensitivities(True)
                canon.sens = st.sens
                case.equal(ad.names(canon.obj), [names0[i] for i in free],
                           '%s: names of a fresh object fixed in one call' % what)
                cgot = ad.observe(canon.obj, full_vec(st, pt)[free].copy(), ctx)
                cgot.pop('names', None)
                _compare(case, what + ': same dict reached by one fix call', {k: v for k, v in got.items() if k != 'names'},
                         cgot)
        with case.clause('results_immutable'):
            for label, arr, snap in kept:
                if not (arr.shape == snap.shape and np.array_equal(arr, snap, equal_nan=True)):
                    case.fail('aliasing', '%s was changed by a later call (%s): now %r, was %r' % (
                        label, what, np.asarray(arr).flatten()[:6].tolist(), snap.flatten()[:6].tolist()))
        if others:
            with case.clause('copies_independent'):
                for label, ost, rec, opt in others:
                    ofree = ost.free(n)
                    case.equal(ad.names(ost.obj), [ost.names[i] for i in ofree], '%s: names, %s' % (label, what))
                    if ofree:
                        now, _, _ = observe(ost, opt, 0)
                        _compare(case, '%s re-observed %s' % (label, what), now, rec, rtol=0)

    for step, op in enumerate(ops):
        o = op['op']
        pt = op['pt'] if o == 'eval' else step % len(points)
        n_fail = len(case.fails)
        before = dict(cur.fixed)
        with case.clause('operation'):
            if o == 'fix':
                d = {}
                for k, v in op['vals'].items():
                    d[cur.names[int(k)]] = None if v is None else float(v)
                # the argument "has to be convertable to a python dictionary": a dictionary, a list of pairs, and
                # iterables that can be read only once (zip, generator)
                form = step % 4
                if form == 1:
                    d = list(d.items())
                elif form == 2:
                    d = zip(list(d.keys()), list(d.values()))
                elif form == 3:
                    d = ((k, v) for k, v in list(d.items()))
                if form >= 2 and 'fix_arg:one_shot_iterable' not in case.labels:
                    case.labels.append('fix_arg:one_shot_iterable')
                ad.fix(cur.obj, d)
                cur.fixed = _step_model(kind, cur.fixed, op, n)
            elif o == 'release_all':
                idx = sorted(cur.fixed) if op['how'] == 'fixed' else list(range(n))
                ad.fix(cur.obj, {cur.names[i]: None for i in idx})
                cur.fixed = {}
            elif o == 'bogus':
                ad.fix(cur.obj, {ad.bogus_name(): float(op['val'])})
            elif o == 'rename':
                if cur.free(n):
                    ad.rename(cur, op, step)
            elif o == 'copy':
                cp = cur.obj.copy()
                cst = cur.snapshot(cp)
                cst.sens = ad.sens_after_copy(cur)
                if op['cont']:
                    keep_st, label = cur, 'original (op %d)' % step
                    cur = cst
                else:
                    keep_st, label = cst, 'copy (op %d)' % step
                if keep_st.free(n):
                    rec, _, _ = observe(keep_st, 0, 0)
                    others.append((label, keep_st, rec, 0))
                    del others[:-3]
            elif o == 'sens':
                cur.obj.enable_sensitivities(bool(op['on']))
                cur.sens = bool(op['on'])
            elif o == 'nids':
                # (a selection of a covariate model may refer to individuals; a heterogeneous model names its
                # parameters per individual again when n_ids changes, so custom names do not survive)
                if not _cov_hetero(ad.pop) and not (ad.renamed and popgen.has(ad.pop, 'hetero')):
                    cur.obj.set_n_ids(ad.n_ids + 1)
                    # in between: the parameters fixed by name are still the fixed ones (a heterogeneous part in
                    # front of them has grown by one individual)
                    # (only with the default names: after a rename / reset the names at another number of
                    # individuals are not modelled by the harness)
                    with case.clause('names_counts' if list(cur.names) == list(names0) else 'names_counts_renamed'):
                        if list(cur.names) != list(names0):
                            raise Inconclusive()
                        fixed_names = [cur.names[i] for i in sorted(cur.fixed)]
                        if popgen.has(ad.pop, 'hetero'):
                            wide = ref.pop_names(ad.pop, ad.n_ids + 1, ad.dims)
                        else:
                            wide = list(cur.names)
                        case.equal(list(cur.obj.get_parameter_names()), [nm for nm in wide if nm not in fixed_names],
                                   'op %d: names of the free parameters after set_n_ids(%d) with %s fixed' % (
                                       step, ad.n_ids + 1, fixed_names))
                        case.equal(int(cur.obj.n_parameters()), len(wide) - len(fixed_names),
                                   'op %d: n_parameters after set_n_ids(%d)' % (step, ad.n_ids + 1))
                    cur.obj.set_n_ids(ad.n_ids)
            elif o == 'dims':
                # the dimensions are renamed after parameters were fixed (what a composed model, a hierarchical likelihood
                # and the problem controller do with the models they are given) and named back: the fixed parameters stay
                # fixed, by position (their names contain the dimension names)
                if not ad.renamed and list(cur.names) == list(names0):
                    tmp = ['renamed dim %d' % (d + 1) for d in range(len(ad.dims))]
                    cur.obj.set_dim_names(list(tmp))
                    with case.clause('names_counts'):
                        wide = ref.pop_names(ad.pop, ad.n_ids, tmp)
                        case.equal(list(cur.obj.get_parameter_names()), [nm for i, nm in enumerate(wide) if i not in cur.fixed],
                                   'op %d: names of the free parameters after the dimensions were renamed with %s fixed' % (
                                       step, [cur.names[i] for i in sorted(cur.fixed)]))
                    cur.obj.set_dim_names(list(ad.dims))
            elif o == 'set_data':
                ad.set_data(cur.obj)
                cur.fixed = _step_model(kind, cur.fixed, op, n)
        if len(case.fails) > n_fail:
            return
        # (the documented reset of the prior is demanded when the call changed the set of free parameters
        # or a fixed value, not for calls without effect)
        changed = o in ('fix', 'release_all') and before != cur.fixed
        if kind in ('ctrl', 'ctrlpop') and changed:
            with case.clause('prior_reset'):
                case.true(cur.obj.get_log_prior() is None, 'fix_parameters did not reset the log-prior (documented)')
            if case.fails:
                return
        if s['every'] or step == len(ops) - 1:
            verify(step, pt)
            if case.fails:
                return


def _short_op(op):
    if op['op'] == 'fix':
        return 'fix(%s)' % ', '.join('%s: %s' % (k, 'None' if v is None else '%g' % v) for k, v in sorted(op['vals'].items()))
    return op['op']


RULE += (' Classes and clauses added in later rounds of the seeded-change protocol (DESIGN 9.4) are named in REQUIRED '
         'and in seeded/HISTORY.json; the evidence counts every one of them under classes.')
