"""C06 - Samplers draw from the distribution their log-likelihood scores."""
import math

import numpy as np
from hypothesis import strategies as st
from scipy import special
from scipy import stats as sps

from vf import gen, ref, popgen, stats
from vf.core import spec_key

ID = 'C06'
BUDGET = {'quick': 480, 'thorough': 20000}
RULE = (
    'Hypothesis draws either an error-model case (kind in {gauss,mult,cm,lognorm}, optionally wrapped in a '
    'ReducedErrorModel with a fixed subset, 1-5 pairwise distinct positive model outputs in [0.1,50], scales '
    'log-uniform; steered: for cm in 75% of the cases sigma_base = f*sigma_rel*mean(output), f in [0.5,2], outputs '
    'within a factor 2, for lognorm in 70% sigma_log in [0.2,0.6]) or a population-model case (grammar of vf/ref.py: '
    'Gaussian / log-normal centred or not, truncated Gaussian, pooled, heterogeneous, n_dim 1-2, covariate wrapper '
    'with 1-3 covariate rows (n_cov 1-3, default or explicit selection; rows passed either as one (n_samples,n_cov) '
    'matrix or row by row as (n_cov,) vectors), compositions of 1-3 parts, optionally reduced; n_ids 1-4 for the '
    'heterogeneous table; steered: truncated Gaussian mu/sigma in [-8,-5] (far tail) in 12%, else [-1,2] in 75% else [-3,5], log-normal sigma in '
    '[0.15,0.5] in 70% else [0.02,2]). Every sampler is called only as sample(..., seed=int) with a base seed from '
    'the spec; n1 = 20000 samples per case (8000 with a covariate wrapper, 3000 with a covariate wrapper around a '
    'truncated Gaussian, whose sampler is a Python loop), stage 2 uses a derived seed and 4*n1 samples '
    '(vf/stats.py: report only p1<1e-4 and p2<1e-9). Shape/support clauses additionally use n_samples in {None,1..50}. '
    'Non-trivial: the regime makes the plausible alternative distinguishable (cm: 2*sb*sr*y/(sb^2+sr^2*y^2)>0.2 for '
    'some output; mult: |log y|>0.2; lognorm: sigma>=0.2; truncated: mu/sigma<2; non-centred; heterogeneous n_ids>=2; '
    'Gaussian always). Distinct = (kind, n_times, fixed subset) / (structural projection of the population spec, '
    'n_ids, number of covariate rows, covariate mode).')
RULE += (' ' + 'Added class: covariates recorded in other units (1e-9, 1e-12, 1e-7, 1e4 times the usual scale; coefficients drawn relative to the covariate scale), per-sample covariate rows.')
ASSUMPTIONS = [
    'reference CDFs / moments: scipy.stats norm, lognorm, truncnorm(a=(0-mu)/sigma) parametrised from the class '
    'docstrings; vf/ref.py em_cdf / em_mean_std for the error models',
    'numpy Generators / RandomState seeded with different integers give independent streams',
    'two-stage false-alarm control: per-test false-alarm rate ~1e-13; cannot see discrepancies below about 0.02 in '
    'KS distance or 2% in a moment at the steered regimes',
    'raw-scale mean/variance z-tests are applied only where the reference skewness/kurtosis keeps the normal '
    'approximation valid (else the log-scale moments and the PIT decide)',
    'non-centred leaves are mapped by the leaf class\' own compute_individual_parameters with the parameters the '
    'reference layout assigns to that leaf (wrappers\' transforms are C05/C07)']
REQUIRED = ['em:gauss', 'em:mult', 'em:cm', 'em:lognorm', 'em:reduced', 'steer:cm', 'pop:gauss', 'pop:lognorm',
            'pop:trunc', 'pop:pooled', 'pop:hetero', 'noncentered', 'cov', 'comp', 'red', 'steer:trunc', 'trunc_far_tail', 'trunc_far_tail:beyond_cdf_underflow',
            'covmode:tile', 'covmode:rows', 'cov_units:tiny:tile', 'late_n_ids']
EM_KINDS = ['gauss', 'mult', 'cm', 'lognorm']
SEEDS = st.integers(0, 2 ** 31 - 2)


def _seeded(draw, d):
    """Adds the base seed. Hypothesis repeats small integers (0 in ~13% of the draws), which would give many cases
    the very same noise stream; so in 80% of the cases the drawn integer is mixed with the rest of the spec (the spec
    records the seed that is actually used, and 0 / 1 / 2^31-2 stay reachable as edge cases)."""
    base = draw(SEEDS)
    d['seed'] = base if gen.chance(draw, 0.2) else stats.derive_seed(base, spec_key(d))
    return d


# =============================================================================================
# strategy
# =============================================================================================
def _ns(draw):
    return None if gen.chance(draw, 0.25) else draw(st.integers(1, 50))


def _em_case(draw):
    kind = draw(st.sampled_from(EM_KINDS))
    n = draw(st.integers(1, 5))
    steer = False
    if kind == 'cm' and gen.chance(draw, 0.75):
        steer = True
        c = draw(gen.logu(0.5, 20.0))
        ybar = gen.distinct([gen.r6(c * f) for f in draw(gen.vec(gen.logu(0.7, 1.4), n))])
        srel = draw(gen.logu(0.05, 1.0))
        f = draw(gen.logu(0.5, 2.0))
        sig = [gen.r6(f * srel * float(np.mean(ybar))), srel]
    else:
        ybar = gen.distinct(draw(gen.vec(gen.logu(0.1, 50.0), n)))
        if kind == 'gauss':
            sig = [draw(gen.logu(1e-2, 1e2))]
        elif kind == 'mult':
            sig = [draw(gen.logu(0.02, 2.0))]
        elif kind == 'cm':
            sig = [draw(gen.logu(1e-2, 10.0)), draw(gen.logu(1e-2, 2.0))]
        else:
            if gen.chance(draw, 0.7):
                steer = True
                sig = [draw(gen.logu(0.2, 0.6))]
            else:
                sig = [draw(gen.logu(0.02, 2.5))]
    fixed = None
    if gen.chance(draw, 0.25):
        fixed = draw(gen.subset(ref.EM_NPAR[kind], min_size=0))
    return _seeded(draw, dict(mode='em', kind=kind, ybar=ybar, sig=sig, fixed=fixed, steer=steer, ns=_ns(draw)))


def _elem_theta(draw, leaf, n_ids):
    k, d = leaf['kind'], leaf['n_dim']
    if k == 'gauss':
        return draw(gen.vec(gen.real(-10, 10), d)) + draw(gen.vec(gen.logu(1e-2, 1e2), d))
    if k == 'lognorm':
        if gen.chance(draw, 0.7):
            sig = draw(gen.vec(gen.logu(0.15, 0.5), d))
        else:
            sig = draw(gen.vec(gen.logu(0.02, 2.0), d))
        return draw(gen.vec(gen.real(-2, 2), d)) + sig
    if k == 'trunc':
        sig = draw(gen.vec(gen.logu(1e-2, 1e2), d))
        if gen.chance(draw, 0.12):
            # far upper tail of the Gaussian (legitimate support; naive inverse-CDF samplers break here)
            z = draw(gen.vec(gen.real(-8, -5) if gen.chance(draw, 0.6) else gen.real(-60, -8), d))
        elif gen.chance(draw, 0.75):
            z = draw(gen.vec(gen.real(-1, 2), d))
        else:
            z = draw(gen.vec(gen.real(-3, 5), d))
        return [gen.r6(a * b) for a, b in zip(z, sig)] + sig
    if k == 'pooled':
        return draw(gen.vec(gen.logu(1e-2, 1e2), d))
    if k == 'hetero':
        return gen.distinct(draw(gen.vec(gen.logu(1e-2, 1e2), d * n_ids)))
    raise ValueError(k)


def _theta(draw, spec, n_ids, cov):
    """In-support parameter vector; scales stay positive for every covariate row."""
    k = spec['kind']
    if k in ref.ELEM:
        return _elem_theta(draw, spec, n_ids)
    if k == 'comp':
        out, c0 = [], 0
        for part in spec['parts']:
            nc = ref.pop_n_cov(part)
            out += _theta(draw, part, n_ids, [row[c0:c0 + nc] for row in cov] if cov is not None else None)
            c0 += nc
        return out
    base = spec['base']
    th0 = _elem_theta(draw, base, n_ids)
    nd, n_cov = base['n_dim'], spec['n_cov']
    cmax = [max([abs(row[c]) for row in cov] + [1e-9]) for c in range(n_cov)]
    zero = gen.chance(draw, 0.06)
    beta = []
    for (p, d) in ref.cov_selection(spec, n_ids):
        for c in range(n_cov):
            f = draw(gen.real(-0.9, 0.9))
            if zero:
                b = 0.0
            elif base['kind'] == 'trunc':
                b = f / 3.0 * th0[nd + d] / (n_cov * cmax[c])      # mu and sigma shift by <= 0.3 sigma
            elif base['kind'] in ('gauss', 'lognorm') and p == 1:
                b = 0.5 * f * th0[nd + d] / (n_cov * cmax[c])      # sigma_i within [0.55, 1.45] sigma
            elif base['kind'] in ('pooled', 'hetero'):
                b = f * th0[p * nd + d] / (n_cov * cmax[c])
            elif base['kind'] == 'lognorm':
                b = 0.5 * f / (n_cov * cmax[c])
            else:
                b = 2.0 * f * th0[nd + d] / (n_cov * cmax[c])      # Gaussian mean shifts by <= 1.8 sigma
            beta.append(gen.sig6(b))
    return th0 + beta


@st.composite
def _pop_case(draw):
    n_ids = draw(st.integers(1, 4))
    pop = popgen.draw_pop(draw, n_ids, max_parts=3, max_dim=2, p_cov=0.3, p_red=0, p_nested=0.05)
    n_cov = ref.pop_n_cov(pop)
    cov = None
    covmode = None
    if n_cov:
        R = draw(st.integers(1, 3))
        cov = popgen.draw_cov_matrix(draw, R, n_cov, units=0.35)
        covmode = draw(st.sampled_from(['tile', 'tile', 'rows']))
    theta = _theta(draw, pop, n_ids, cov)
    if len(theta) >= 2 and gen.chance(draw, 0.2):
        fixed = draw(gen.subset(len(theta), min_size=1, max_size=len(theta) - 1))
        pop = dict(kind='red', base=pop, fixed=fixed, values=[theta[j] for j in fixed])
        theta = [v for j, v in enumerate(theta) if j not in fixed]
    return _seeded(draw, dict(mode='pop', pop=pop, n_ids=n_ids, theta=theta, cov=cov, covmode=covmode, ns=_ns(draw)))


@st.composite
def _spec(draw):
    if gen.chance(draw, 0.4):
        return _em_case(draw)
    return draw(_pop_case())


def strategy(tier):
    return _spec()


def extra_cases(tier):
    """Truncated Gaussians whose location lies 38 to 60 standard deviations below the truncation point (the plain
    normal CDF underflows to 0 there; the documented density, its mean and its std. stay ordinary numbers), in every
    run."""
    out = []
    for k, (z, sig, n_dim, n_ids, ns) in enumerate([(-38.5, 1.0, 1, 1, None), (-45.0, 0.3, 1, 3, 20), (-59.0, 7.0, 2, 2, 7),
                                                    (-40.0, 25.0, 1, 1, 50)]):
        theta = [gen.r6(z * sig * (1 + 0.1 * d)) for d in range(n_dim)] + [sig] * n_dim
        out.append(dict(mode='pop', pop=dict(kind='trunc', n_dim=n_dim), n_ids=n_ids, theta=theta, cov=None, covmode=None,
                        ns=ns, seed=11 + k))
    # per-sample covariates recorded in a small unit (1e-9 ... 1e-12) whose rows differ: a pooled parameter with a
    # covariate effect takes exactly the value its own row dictates (decided without statistics, in every run)
    for k, (unit, n_ids, ns) in enumerate([(1e-9, 1, 6), (1e-12, 2, 9), (1e-9, 3, 4)]):
        pop = dict(kind='cov', base=dict(kind='pooled', n_dim=1), n_cov=1, sel=None)
        out.append(dict(mode='pop', pop=pop, n_ids=n_ids, theta=[2.0, gen.sig6(0.5 / unit)],
                        cov=[[1.0 * unit], [3.0 * unit], [2.0 * unit]], covmode='tile', ns=ns, seed=23 + k))
    return out


# =============================================================================================
# reference: per-leaf parameters and distributions
# =============================================================================================
def leaf_table(spec, n_ids, theta, cov):
    """Leaves of a population spec with the parameters every covariate row dictates.
    Returns a list of dict(kind, centered, n_dim, d0, part, leaf, P) with P of shape
    (R, n_param_per_dim, n_dim), R = number of covariate rows (1 without covariates)."""
    R = 1 if cov is None else len(cov)
    out = []

    def walk(s, th, cv, d0, part):
        k = s['kind']
        if k == 'comp':
            t0 = c0 = 0
            for j, p in enumerate(s['parts']):
                nt, nd, nc = ref.pop_n_par(p, n_ids), ref.pop_n_dim(p), ref.pop_n_cov(p)
                walk(p, th[t0:t0 + nt], None if cv is None else cv[:, c0:c0 + nc], d0, part + (j,))
                t0, d0, c0 = t0 + nt, d0 + nd, c0 + nc
            return
        if k == 'red':
            walk(s['base'], np.real(ref._expand_red(s, th, n_ids)), cv, d0, part)
            return
        if k == 'cov':
            base = s['base']
            P = np.array([np.real(ref._vartheta(s, th, n_ids, cv[r])) for r in range(R)], dtype=float)
        else:
            base = s
            P = np.repeat(np.array(ref._elem_theta_matrix(s, th, n_ids), dtype=float)[np.newaxis], R, axis=0)
        out.append(dict(kind=base['kind'], centered=base.get('centered', True), n_dim=base['n_dim'], d0=d0,
                        part=part, leaf=base, P=P, wrapped=(k == 'cov')))

    walk(spec, np.asarray(theta, dtype=float), None if cov is None else np.asarray(cov, dtype=float), 0, ())
    return out


def dist_cdf(kind, mu, sigma, x):
    """Reference CDF of psi, written from the class docstrings (mu, sigma broadcast against x)."""
    if kind == 'gauss':
        return sps.norm.cdf(x, loc=mu, scale=sigma)
    if kind == 'lognorm':
        return sps.lognorm.cdf(x, s=sigma, scale=np.exp(mu))
    if kind == 'trunc':
        return sps.truncnorm.cdf(x, a=(0.0 - mu) / sigma, b=np.inf, loc=mu, scale=sigma)
    raise ValueError(kind)


def dist_moments(kind, mu, sigma):
    """(mean, std, skewness, excess kurtosis) of the reference distribution (arrays)."""
    mu = np.asarray(mu, dtype=float)
    sigma = np.asarray(sigma, dtype=float)
    if kind == 'gauss':
        return mu, sigma, 0 * mu, 0 * mu
    if kind == 'lognorm':
        w = np.exp(sigma ** 2)
        m = np.exp(mu + sigma ** 2 / 2)
        return m, m * np.sqrt(w - 1), (w + 2) * np.sqrt(w - 1), w ** 4 + 2 * w ** 3 + 3 * w ** 2 - 6
    if kind == 'trunc':
        # docstring of get_mean_and_std: F = phi(mu/sigma) / (1 - Phi(-mu/sigma))
        z = mu / sigma
        F = np.exp(sps.norm.logpdf(z) - sps.norm.logcdf(z))
        m = mu + sigma * F
        v = sigma ** 2 * (1 - z * F - F ** 2)
        sk, ku = sps.truncnorm.stats(a=-z, b=np.inf, loc=mu, scale=sigma, moments='sk')
        return m, np.sqrt(v), np.asarray(sk, dtype=float), np.asarray(ku, dtype=float)
    raise ValueError(kind)


def _em_moments(kind, sig, ybar):
    """(mean, std, skew, excess kurtosis) per output value."""
    m, s = ref.em_mean_std(kind, sig, ybar)
    if kind == 'lognorm':
        w = math.exp(sig[0] ** 2)
        return m, s, (w + 2) * math.sqrt(w - 1) + 0 * ybar, w ** 4 + 2 * w ** 3 + 3 * w ** 2 - 6 + 0 * ybar
    return m, s, 0 * ybar, 0 * ybar


def _skew_ok(skew, n):
    return float(np.max(np.abs(skew))) / math.sqrt(n) <= 0.03


# =============================================================================================
# classification
# =============================================================================================
def _cm_effect(sig, ybar):
    sb, sr = sig
    return max(2 * sb * sr * y / (sb ** 2 + (sr * y) ** 2) for y in ybar)


def classify(spec):
    if spec['mode'] == 'em':
        labs = ['em', 'em:' + spec['kind']]
        if spec['fixed'] is not None:
            labs.append('em:reduced')
        if spec['steer']:
            labs.append('steer:' + spec['kind'])
        if spec['ns'] is None:
            labs.append('ns=None')
        return labs
    pop = spec['pop']
    labs = ['pop']
    for lf in popgen.leaves(pop):
        labs.append('pop:' + lf['kind'])
        if lf['kind'] in ('gauss', 'lognorm') and not lf.get('centered', True):
            labs.append('noncentered')
    for k in ('cov', 'comp', 'red'):
        if popgen.has(pop, k):
            labs.append(k)
    if spec['covmode']:
        mx = max(abs(v) for row in spec['cov'] for v in row)
        if 0 < mx < 1e-5 and len(spec['cov']) >= 2:
            labs.append('cov_units:tiny')
            if spec['covmode'] == 'tile':
                labs.append('cov_units:tiny:tile')
        labs.append('covmode:' + spec['covmode'])
        labs.append('cov_rows=%d' % len(spec['cov']))
    for lf in leaf_table(pop, spec['n_ids'], spec['theta'], spec['cov']):
        if lf['kind'] == 'trunc' and np.all((lf['P'][:, 0] / lf['P'][:, 1] >= -1.5) & (lf['P'][:, 0] / lf['P'][:, 1] <= 2.5)):
            labs.append('steer:trunc')
        if lf['kind'] == 'trunc' and np.any(lf['P'][:, 0] / lf['P'][:, 1] <= -5):
            labs.append('trunc_far_tail')
            if np.any(lf['P'][:, 0] / lf['P'][:, 1] <= -38):
                labs.append('trunc_far_tail:beyond_cdf_underflow')
        if lf['kind'] == 'hetero' and spec['n_ids'] >= 2:
            labs.append('hetero_table')
    if spec['ns'] is None:
        labs.append('ns=None')
    return sorted(set(labs))


def nontrivial(spec):
    if spec['mode'] == 'em':
        k, sig, yb = spec['kind'], spec['sig'], spec['ybar']
        if k == 'cm':
            return _cm_effect(sig, yb) > 0.2
        if k == 'mult':
            return any(abs(math.log(y)) > 0.2 for y in yb)
        if k == 'lognorm':
            return sig[0] >= 0.2
        return True
    for lf in leaf_table(spec['pop'], spec['n_ids'], spec['theta'], spec['cov']):
        k = lf['kind']
        if k == 'gauss' or (k == 'lognorm' and not lf['centered']):
            return True
        if k == 'lognorm' and np.any(lf['P'][:, 1] >= 0.2):
            return True
        if k == 'trunc' and np.any(lf['P'][:, 0] / lf['P'][:, 1] < 2):
            return True
        if k == 'hetero' and spec['n_ids'] >= 2:
            return True
    return False


def structure(spec):
    if spec['mode'] == 'em':
        return ['em', spec['kind'], len(spec['ybar']), spec['fixed'], spec['ns'] is None]
    return ['pop', popgen.structure(spec['pop']), spec['n_ids'], None if spec['cov'] is None else len(spec['cov']),
            spec['covmode']]


# =============================================================================================
# check
# =============================================================================================
def _report(case, res):
    """One clause per statistic family (first entry of the test key)."""
    names = []
    for key in res.evaluated:
        if key[0] not in names:
            names.append(key[0])
    for name in names:
        with case.clause(name):
            fs = res.for_prefix(name)
            if fs:
                case.fail(fs[0].stat, fs[0].text() + ('' if len(fs) == 1 else ' (+%d more statistics)' % (len(fs) - 1)))


def check(case):
    if case.spec['mode'] == 'em':
        _check_em(case)
    else:
        _check_pop(case)


# ---- error models ---------------------------------------------------------------------------
def _check_em(case):
    import chi
    s = case.spec
    kind = s['kind']
    ybar = np.array(s['ybar'], dtype=float)
    sig = np.array(s['sig'], dtype=float)
    npar = ref.EM_NPAR[kind]
    n_t = len(ybar)

    em = ref.em_class(kind)()
    free = list(range(npar))
    if s['fixed'] is not None:
        names = em.get_parameter_names()
        em = chi.ReducedErrorModel(em)
        em.fix_parameters({names[k]: float(sig[k]) for k in s['fixed']})
        free = [k for k in range(npar) if k not in s['fixed']]
    sig_free = sig[free]

    def sample(n, seed):
        return np.array(em.sample(sig_free.copy(), ybar.copy(), n_samples=n, seed=int(seed)), dtype=float)

    with case.clause('em_shape:' + kind):
        ns = s['ns']
        y = sample(ns, s['seed'])
        case.equal(y.shape, (n_t, 1 if ns is None else ns), 'shape of the samples', kind='shape')
        case.true(bool(np.all(np.isfinite(y))), 'non-finite sample', kind='nan')
        if kind == 'lognorm':
            case.true(bool(np.all(y > 0)), 'log-normal sample <= 0', kind='support')

    with case.clause('em_inputs_unchanged:' + kind):
        a_sig, a_yb = sig_free.copy(), ybar.copy()
        em.sample(a_sig, a_yb, n_samples=3, seed=int(s['seed']))
        case.true(np.array_equal(a_sig, sig_free) and np.array_equal(a_yb, ybar),
                  'sample() modified the arrays it was given: parameters %r -> %r, model output %r -> %r' % (
                      sig_free.tolist(), a_sig.tolist(), ybar.tolist()[:6], a_yb.tolist()[:6]), kind='input_modified')

    # the log-likelihood scores what the sampler draws: sampled series (the case's outputs, a decay curve followed far
    # out, many large read-outs) are scored by the model itself against the documented log-density of the sampled values
    with case.clause('em_scored_density:' + kind):
        series = [('the outputs of the case', ybar),
                  ('a decay curve at 121 time points', 10.0 * np.exp(-0.5 * np.linspace(0.0, 60.0, 121)) + (
                      1e-3 if kind in ('mult', 'lognorm') else 0.0)),
                  ('200 read-outs of 5000', np.full(200, 5000.0) * (1.0 + 1e-3 * np.arange(200)))]
        for label, yb in series:
            ys = np.array(em.sample(sig_free.copy(), yb.copy(), n_samples=1, seed=int(s['seed'])), dtype=float)[:, 0]
            if kind == 'lognorm' and not np.all(ys > 0):
                continue
            want_s = float(np.real(ref.em_loglik(kind, sig, yb, ys)))
            got_s = em.compute_log_likelihood(sig_free.copy(), yb.copy(), ys.copy())
            if np.isfinite(want_s):
                case.close(float(got_s), want_s, rtol=1e-9, what='log-likelihood of a sampled series (%s) vs the documented '
                                                                 'log-density' % label)

    # the default call (n_samples not given) over several time points: every time point has its own noise term
    if n_t >= 2 and kind != 'cm':
        with case.clause('em_default_call:' + kind):
            y0 = np.array(em.sample(sig_free.copy(), ybar.copy(), seed=int(s['seed'])), dtype=float)
            case.equal(y0.shape, (n_t, 1), 'shape of the samples of the default call', kind='shape')
            if kind == 'lognorm':
                zz = (np.log(y0[:, 0]) - np.log(ybar) + sig[0] ** 2 / 2.0) / sig[0]
            else:
                mm, ss = ref.em_mean_std(kind, sig, ybar)
                zz = (y0[:, 0] - mm) / ss
            spread = float(np.max(zz) - np.min(zz))
            case.true(spread > 1e-9 * max(1.0, float(np.max(np.abs(zz)))), 'the %d time points of one default call carry the '
                      'same standardised noise %r' % (n_t, zz[:4].tolist()), kind='identical')

    # one generator object handed to successive calls (what the predictive models do, per output and per individual):
    # the calls draw on, and together they are ONE sample of the documented density (pooled below with the seeded ones)
    with case.clause('em_generator_seed:' + kind):
        g = np.random.default_rng(int(s['seed']))
        parts_g = [np.array(em.sample(sig_free.copy(), ybar.copy(), n_samples=2, seed=g), dtype=float) for _ in range(3)]
        for a_, b_ in ((0, 1), (1, 2), (0, 2)):
            case.true(not np.array_equal(parts_g[a_], parts_g[b_]),
                      'calls %d and %d with the same generator object return identical samples: %r' % (
                          a_ + 1, b_ + 1, parts_g[a_].ravel()[:4].tolist()), kind='identical')

    with case.clause('em_integer_inputs:' + kind):
        i_sig = np.maximum(1, np.round(np.abs(sig_free))).astype(int)
        i_yb = np.maximum(1, np.round(np.abs(ybar))).astype(int)
        a = np.asarray(em.sample(i_sig.astype(float), i_yb.astype(float), n_samples=3, seed=int(s['seed'])), dtype=float)
        for label, c in (('int arrays', lambda v: v), ('lists of Python ints', lambda v: v.tolist())):
            b = np.asarray(em.sample(c(i_sig), c(i_yb), n_samples=3, seed=int(s['seed'])), dtype=float)
            case.close(b, a, rtol=1e-12, what='seeded samples for whole numbers given as %s vs as floats' % label)

    mean, std, skew, kurt = _em_moments(kind, sig, ybar)

    def draw(n, seed):
        y = sample(n, seed)
        if y.shape != (n_t, n):
            case.fail('shape', 'shape %r for n_samples=%d, expected %r' % (y.shape, n, (n_t, n)))
        return y

    def tests(y):
        out = {}
        n = y.shape[1]
        for j in range(n_t):
            p, d = stats.ks_uniform(ref.em_cdf(kind, sig, ybar[j], y[j]))
            out[('em_pit:' + kind, j)] = (p, 'ks', 'output %g, sigma %s: %s' % (ybar[j], sig.tolist(), d))
            r = (y[j] - mean[j]) / std[j]
            if _skew_ok(skew[j], n):
                p, d = stats.z_mean(r)
                out[('em_mean:' + kind, j)] = (p, 'z_mean', 'output %g: %s' % (ybar[j], d))
            p, d = stats.z_var(r, kurt[j])
            out[('em_var:' + kind, j)] = (p, 'z_var', 'output %g, reference sd %g: %s' % (ybar[j], std[j], d))
            if kind == 'lognorm':
                if np.all(y[j] > 0):
                    rl = (np.log(y[j]) - (math.log(ybar[j]) - sig[0] ** 2 / 2)) / sig[0]
                    p, d = stats.z_mean(rl)
                    out[('em_mean:' + kind, j, 'log')] = (p, 'z_mean', 'log scale, output %g: %s' % (ybar[j], d))
                    p, d = stats.z_var(rl, 0.0)
                    out[('em_var:' + kind, j, 'log')] = (p, 'z_var', 'log scale, output %g: %s' % (ybar[j], d))
                out[('em_support:' + kind, j)] = (1.0 if np.all(y[j] > 0) else 0.0, 'support',
                                                 'smallest sample %g' % float(np.min(y[j])))
        return out

    res = None
    with case.clause('em_sample:' + kind):
        res = stats.two_stage(draw, tests, s['seed'], 20000)
    if res is not None:
        if res.stage2:
            case.labels.append('stage2')
        _report(case, res)


# ---- population models ----------------------------------------------------------------------
def _n1(pop):
    if not popgen.has(pop, 'cov'):
        return 20000
    trunc_in_cov = False

    def walk(s):
        nonlocal trunc_in_cov
        if s['kind'] == 'cov' and s['base']['kind'] == 'trunc':
            trunc_in_cov = True
        for c in ([s['base']] if s['kind'] in ('cov', 'red') else s.get('parts', [])):
            walk(c)
    walk(pop)
    return 3000 if trunc_in_cov else 8000


def _late(s):
    pop = s['pop']
    if not popgen.has(pop, 'hetero') or popgen.has(pop, 'red') or s['n_ids'] < 2:
        return False
    # (a covariate model around a heterogeneous model selects per-individual parameters: built at full size)
    def cov_hetero(p):
        if p['kind'] == 'cov':
            return p['base']['kind'] == 'hetero'
        if p['kind'] == 'comp':
            return any(cov_hetero(q) for q in p['parts'])
        return False
    return not cov_hetero(pop) and int(s['seed']) % 2 == 0


def _check_pop(case):
    s = case.spec
    pop, n_ids = s['pop'], s['n_ids']
    theta = np.array(s['theta'], dtype=float)
    cov = None if s['cov'] is None else np.array(s['cov'], dtype=float)
    R = 1 if cov is None else len(cov)
    n_dim = ref.pop_n_dim(pop)
    leaves = leaf_table(pop, n_ids, theta, cov)

    m = None
    with case.clause('pop_construct'):
        if _late(s):
            # built for the default single individual (or a smaller number) and grown afterwards
            m = ref.build_pop(pop, None, None)
            if n_ids >= 3:
                m.set_n_ids(n_ids - 1)
            case.labels.append('late_n_ids')
        else:
            m = ref.build_pop(pop, None, n_ids)
        m.set_n_ids(n_ids)
        leaf_models = []
        for lf in leaves:
            lm = ref.build_pop(lf['leaf'], None, n_ids)
            lm.set_n_ids(n_ids)
            leaf_models.append(lm)
    if m is None or case.fails:
        return

    def call(n, seed, cv):
        kw = {} if cv is None else {'covariates': cv}
        return np.array(m.sample(parameters=theta.copy(), n_samples=n, seed=int(seed), **kw), dtype=float)

    def draw(n, seed):
        """-> (x (n, n_dim), row index (n,))"""
        if cov is None:
            x, row = call(n, seed, None), np.zeros(n, dtype=int)
        elif s['covmode'] == 'tile':
            row = np.arange(n) % R
            x = call(n, seed, cov[row].copy())
        else:
            per = [n // R + (1 if r < n % R else 0) for r in range(R)]
            xs = [call(per[r], seed if r == 0 else stats.derive_seed(seed, 'row', r), cov[r].copy())
                  for r in range(R)]
            for r in range(R):
                if xs[r].shape != (per[r], n_dim):
                    case.fail('shape', 'shape %r for n_samples=%d and 1-d covariates, expected %r' % (
                        xs[r].shape, per[r], (per[r], n_dim)))
            x = np.concatenate(xs, axis=0)
            row = np.concatenate([np.full(per[r], r, dtype=int) for r in range(R)])
        if x.shape != (n, n_dim):
            case.fail('shape', 'shape %r for n_samples=%d, expected %r' % (x.shape, n, (n, n_dim)))
        return x, row

    def psi_of(li, x, row):
        """Individual parameters of leaf li: the leaf class' own transform for non-centred leaves."""
        lf = leaves[li]
        xs = x[:, lf['d0']:lf['d0'] + lf['n_dim']]
        if lf['centered'] or lf['kind'] not in ('gauss', 'lognorm'):
            return xs
        psi = np.empty_like(xs)
        for r in range(R):
            idx = row == r
            if np.any(idx):
                psi[idx] = np.asarray(leaf_models[li].compute_individual_parameters(
                    parameters=lf['P'][r].copy(), eta=xs[idx].copy()), dtype=float)
        return psi

    def hard(li, x, row):
        """Deterministic clauses on any sample (support, pooled, heterogeneous membership).
        Returns dict key -> (p, stat, detail) and the row indices of heterogeneous leaves."""
        lf = leaves[li]
        k, d0, nd = lf['kind'], lf['d0'], lf['n_dim']
        out = {}
        psi = psi_of(li, x, row)
        hidx = None
        if not np.all(np.isfinite(psi)):
            out[('pop_finite:' + k, d0)] = (0.0, 'nan', 'non-finite sample in dimension %d..' % d0)
            return out, psi, hidx
        if k in ('lognorm', 'trunc'):
            out[('pop_support:' + k, d0)] = (1.0 if np.all(psi > 0) else 0.0, 'support',
                                             'smallest sample %g (must be > 0)' % float(np.min(psi)))
        if k == 'pooled':
            want = lf['P'][row, 0, :]
            err = np.abs(psi - want) <= 1e-12 * np.maximum(1.0, np.abs(want))
            out[('pop_pooled', d0)] = (1.0 if np.all(err) else 0.0, 'mismatch',
                                       'pooled sample %r, parameter %r' % (psi[0].tolist(), want[0].tolist()))
        if k == 'hetero':
            tab = lf['P'][row]                               # (n, n_ids, nd)
            dist = np.max(np.abs(tab - psi[:, np.newaxis, :]) / np.maximum(1.0, np.abs(tab)), axis=2)
            hidx = np.argmin(dist, axis=1)
            ok = dist[np.arange(len(psi)), hidx] <= 1e-12
            out[('pop_hetero_rows', d0)] = (1.0 if np.all(ok) else 0.0, 'mismatch',
                                            'sample %r is not a row of the parameter table %r' % (
                                                psi[int(np.argmin(ok))].tolist(), tab[int(np.argmin(ok))].tolist()))
            amb = np.sum(dist <= 1e-9, axis=1) > 1
            if np.any(amb):
                hidx = None                                  # rows coincide: frequencies undecidable
        return out, psi, hidx

    with case.clause('pop_shape'):
        ns = s['ns']
        x = call(ns, s['seed'], None if cov is None else cov[0].copy())
        case.equal(x.shape, (1 if ns is None else ns, n_dim), 'shape of the samples', kind='shape')
        for li in range(len(leaves)):
            for key, (p, stat, det) in hard(li, x, np.zeros(len(x), dtype=int))[0].items():
                if p == 0.0:
                    case.fail(stat, '%s (n_samples=%r): %s' % (key[0], ns, det))

    # the caller's arrays are inputs: sampling leaves them as they are (they are used again afterwards, e.g. to
    # transform the sampled eta into individual parameters)
    with case.clause('pop_inputs_unchanged'):
        th = theta.copy()
        cv = None if cov is None else cov[0].copy()
        kw = {} if cv is None else {'covariates': cv}
        m.sample(parameters=th, n_samples=3, seed=int(s['seed']), **kw)
        case.true(np.array_equal(th, theta), 'sample() modified the parameter array it was given: %r -> %r' % (
            theta.tolist()[:8], th.tolist()[:8]), kind='input_modified')
        if cv is not None:
            case.true(np.array_equal(cv, cov[0]), 'sample() modified the covariate array it was given',
                      kind='input_modified')

    # the log-likelihood scores what the sampler draws: one sampled population of n_ids individuals (each with the
    # parameters their covariates dictate), scored by the model itself, against the documented log-density of the samples
    if not any(lf['kind'] == 'hetero' for lf in leaves):
        with case.clause('pop_scored_density'):
            # (populations of 1, 2 and 3 individuals as well: no size is special)
            for n_pop in sorted({1, 2, 3, n_ids}):
                row = np.arange(n_pop) % R
                cvs = None if cov is None else cov[row].copy()
                xs = call(n_pop, stats.derive_seed(s['seed'], 'scored', n_pop), cvs)
                case.equal(xs.shape, (n_pop, n_dim), 'shape of a sampled population', kind='shape')
                want = 0.0
                for li, lf in enumerate(leaves):
                    v = xs[:, lf['d0']:lf['d0'] + lf['n_dim']]
                    mu = lf['P'][row, 0, :]
                    k = lf['kind']
                    if k == 'pooled':
                        continue
                    sg = lf['P'][row, 1, :]
                    if k in ('gauss', 'lognorm') and not lf['centered']:
                        want += float(np.sum(sps.norm.logpdf(v)))
                    elif k == 'gauss':
                        want += float(np.sum(sps.norm.logpdf(v, loc=mu, scale=sg)))
                    elif k == 'lognorm':
                        want += float(np.sum(sps.lognorm.logpdf(v, s=sg, scale=np.exp(mu))))
                    else:
                        want += float(np.sum(sps.norm.logpdf(v, loc=mu, scale=sg) - sps.norm.logcdf(mu / sg)))
                kw = {} if cvs is None else {'covariates': cvs.copy()}
                got = m.compute_log_likelihood(theta.copy(), xs.copy(), **kw)
                case.close(float(got), want, rtol=1e-8, atol=1e-9,
                           what='log-likelihood of a sampled population of %d individuals vs the documented log-density' % n_pop)

    # the sampled values are turned into individual parameters by the model itself, handed over the way a hierarchical
    # likelihood does it: one flat vector that holds the entries of the hierarchical dimensions only (pooled and
    # heterogeneous dimensions have none)
    hd = [d for d, sp in enumerate(ref.pop_special(pop)) if sp is None]
    if hd and not any(lf['kind'] == 'hetero' for lf in leaves) and pop['kind'] == 'comp':
        with case.clause('pop_transform_flat'):
            row = np.arange(n_ids) % R
            cvs = None if cov is None else cov[row].copy()
            xs = call(n_ids, stats.derive_seed(s['seed'], 'flat'), cvs)
            want_psi = np.real(ref.pop_indiv(pop, n_ids, theta, xs, cvs))
            kw = {} if cvs is None else {'covariates': cvs.copy()}
            got_psi = np.asarray(m.compute_individual_parameters(theta.copy(), xs[:, hd].flatten(), **kw), dtype=float)
            case.equal(got_psi.shape, (n_ids, n_dim), 'shape of the individual parameters from a flat vector', kind='shape')
            case.close(got_psi, want_psi, rtol=1e-10, atol=1e-12,
                       what='individual parameters of the sampled individuals, entries of the hierarchical dimensions '
                            'given as one flat vector')

    # whole-number parameters typed as integers give the same seeded samples as the same numbers as floats
    if cov is None:
        with case.clause('pop_integer_parameters'):
            th_i = np.maximum(1, np.round(np.abs(theta))).astype(int)
            a = np.asarray(m.sample(parameters=th_i.astype(float), n_samples=4, seed=int(s['seed'])), dtype=float)
            for label, arg in (('an int array', th_i), ('a list of Python ints', th_i.tolist())):
                b = np.asarray(m.sample(parameters=arg, n_samples=4, seed=int(s['seed'])), dtype=float)
                case.close(b, a, rtol=1e-12, what='seeded samples for whole-number parameters given as %s vs as floats' % label)

    def tests(data):
        x, row = data
        n = len(x)
        out = {}
        scores = []              # (part, leaf index, dim, score vector) for the independence clause
        for li, lf in enumerate(leaves):
            k, d0, nd = lf['kind'], lf['d0'], lf['n_dim']
            h, psi, hidx = hard(li, x, row)
            out.update(h)
            if ('pop_finite:' + k, d0) in out:
                continue
            if k == 'hetero':
                if hidx is not None and n_ids >= 2:
                    p, d = stats.chi2_freq(np.bincount(hidx, minlength=n_ids))
                    out[('pop_hetero_freq', d0)] = (p, 'chi2', d)
                    scores.append((lf['part'], li, d0, hidx.astype(float)))
                continue
            if k == 'pooled':
                continue
            mu = lf['P'][row, 0, :]
            sg = lf['P'][row, 1, :]
            mean, std, skew, kurt = dist_moments(k, lf['P'][:, 0, :], lf['P'][:, 1, :])      # (R, nd)
            rep = None
            if hasattr(leaf_models[li], 'get_mean_and_std'):
                rep = np.array([np.asarray(leaf_models[li].get_mean_and_std(lf['P'][r].copy()), dtype=float)
                                for r in range(R)])                                          # (R, 2, nd)
            for j in range(nd):
                d = d0 + j
                u = dist_cdf(k, mu[:, j], sg[:, j], psi[:, j])
                p, det = stats.ks_uniform(u)
                out[('pop_pit:' + k, d)] = (p, 'ks', 'dimension %d (%s, mu=%g, sigma=%g%s): %s' % (
                    d, k, lf['P'][0, 0, j], lf['P'][0, 1, j], '' if R == 1 else ', covariate row 0', det))
                if p is not None and p > 0:
                    scores.append((lf['part'], li, d, special.ndtri(np.clip(u, 1e-16, 1 - 1e-16))))
                r = (psi[:, j] - mean[row, j]) / std[row, j]
                if _skew_ok(skew[:, j], n):
                    p, det = stats.z_mean(r)
                    out[('pop_mean:' + k, d)] = (p, 'z_mean', 'dimension %d: %s' % (d, det))
                p, det = stats.z_var(r, kurt[row, j])
                out[('pop_var:' + k, d)] = (p, 'z_var', 'dimension %d: %s' % (d, det))
                if k == 'lognorm' and np.all(psi[:, j] > 0):
                    rl = (np.log(psi[:, j]) - mu[:, j]) / sg[:, j]
                    p, det = stats.z_mean(rl)
                    out[('pop_mean:' + k, d, 'log')] = (p, 'z_mean', 'dimension %d, log scale: %s' % (d, det))
                    p, det = stats.z_var(rl, 0.0)
                    out[('pop_var:' + k, d, 'log')] = (p, 'z_var', 'dimension %d, log scale: %s' % (d, det))
                if rep is not None:
                    rm, rs = rep[:, 0, j], rep[:, 1, j]
                    if not (np.all(np.isfinite(rm)) and np.all(np.isfinite(rs)) and np.all(rs > 0)):
                        out[('pop_reported:' + k, d)] = (0.0, 'nan', 'get_mean_and_std returned %r' % rep[0].tolist())
                    else:
                        bad = (np.abs(rm - mean[:, j]) > 1e-6 * np.maximum(1.0, np.abs(mean[:, j]))) | \
                            (np.abs(rs - std[:, j]) > 1e-6 * np.maximum(1.0, np.abs(std[:, j])))
                        out[('pop_reported_exact:' + k, d)] = (
                            0.0 if np.any(bad) else 1.0, 'mismatch',
                            'get_mean_and_std (%g, %g) vs moments of the documented density (%g, %g)' % (
                                rm[0], rs[0], mean[0, j], std[0, j]))
                        rr = (psi[:, j] - rm[row]) / rs[row]
                        if _skew_ok(skew[:, j], n):
                            p, det = stats.z_mean(rr)
                            out[('pop_reported:' + k, d, 'mean')] = (
                                p, 'z_mean', 'dimension %d, reported mean %g: %s' % (d, rm[0], det))
                        p, det = stats.z_var(rr, kurt[row, j])
                        out[('pop_reported:' + k, d, 'var')] = (
                            p, 'z_var', 'dimension %d, reported std %g: %s' % (d, rs[0], det))
        # independence: dimensions of different sub-models, and of one (non-heterogeneous) sub-model
        pairs = 0
        for a in range(len(scores)):
            for b in range(a + 1, len(scores)):
                if pairs >= 12:
                    break
                pa, la, da, za = scores[a]
                pb, lb, db, zb = scores[b]
                p, det = stats.corr_pearson(za, zb)
                out[('pop_indep', da, db)] = (p, 'corr', 'dimensions %d and %d (%s): %s' % (
                    da, db, 'same sub-model' if la == lb else 'different sub-models', det))
                pairs += 1
        return out

    res = None
    with case.clause('pop_sample'):
        res = stats.two_stage(draw, tests, s['seed'], _n1(pop))
    if res is not None:
        if res.stage2:
            case.labels.append('stage2')
        _report(case, res)


RULE += (' Classes and clauses added in later rounds of the seeded-change protocol (DESIGN 9.4) are named in REQUIRED '
         'and in seeded/HISTORY.json; the evidence counts every one of them under classes.')
