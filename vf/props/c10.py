"""C10 - Dosing regimens deliver the specified amounts at the specified times."""
import numpy as np
from hypothesis import strategies as st

from vf import gen, ref, sbmlgen

ID = 'C10'
BUDGET = {'quick': 1400, 'thorough': 60000}
RULE = (
    'Hypothesis draws (sim) a generated linear compartmental PKPD model (or the library one-compartment model), a dosed '
    'compartment, direct or indirect route, a regimen (dose, start 0 or >0, duration from bolus 0.01 to half a period, '
    'period None or >0, num None or 1-4) or an explicit myokit.Protocol of non-overlapping events, a time grid ending '
    'before the first dose / exactly at a dose time / between doses / late; (table) PredictiveModel.get_dosing_regimen '
    'for final_time None / before start / exactly at a dose time / in between; (data) a long-format dataset with dose '
    'rows (with/without duration, NaN rows, int/str IDs) for ProblemModellingController.get_dosing_regimens. '
    'Non-trivial: multi-dose regimen with start != 0 or a boundary final time, or indirect route. Distinct = '
    '(mode, topology, route, regimen class, final-time class).')
RULE += (' ' + "Added: routes into state variables of the 'global' component, a route that was first set to another variable / flag (also within the same component) and then changed; data mode: the log-posterior of every individual is compared with the closed form under that individual's own dose events (individuals without doses after dosed ones).")
ASSUMPTIONS = [
    'reference integrator vf/simshim.py stands in for myokit.Simulation; pacing semantics come from myokit.PacingSystem '
    "(myokit's own pure-Python implementation)",
    'oracle: input function u(t) built from the regimen arguments only, closed-form solution of the linear system with '
    'piecewise-constant input (augmented matrix exponential per interval), depot with rate k_a for the indirect route',
    '"up to the requested final time" is inclusive (start <= final_time), as in chi\'s own mask and repository test',
    'an indefinite regimen with final_time=None lists only its first dose (documented)']
REQUIRED = ['sim', 'table', 'data', 'direct', 'indirect', 'single', 'finite', 'indefinite', 'protocol',
            'ft:before', 'ft:at_dose', 'ft:between', 'ft:none', 'start>0', 'bolus', 'infusion', 'lib_pk',
            'rerouted', 'rerouted:same_component', 'route:global_state', 'data:undosed_after_dosed', 'index:not_unique', 'sim:outputs_after_regimen',
            'prior_predictive_table:running_infusion', 'rerouted:after_sensitivity_cycle']


@st.composite
def _regimen(draw):
    dose = draw(gen.logu(0.1, 10.0))
    start = 0.0 if gen.chance(draw, 0.35) else draw(gen.logu(0.05, 3.0))
    period = None if gen.chance(draw, 0.3) else draw(gen.logu(0.3, 3.0))
    if period is not None and gen.chance(draw, 0.35):
        # decimal periods and starts (0.1, 0.3, ...): multiples are not exactly representable
        period = draw(st.sampled_from([0.1, 0.2, 0.3, 0.6, 0.7, 1.1, 1.3]))
        if start != 0.0:
            start = draw(st.sampled_from([0.1, 0.2, 0.5, 1.7]))
    num = None
    if period is not None and not gen.chance(draw, 0.35):
        num = draw(st.integers(1, 4))
    if gen.chance(draw, 0.4):
        duration = 0.01
    else:
        hi = 0.5 * period if period else 1.0
        duration = draw(gen.logu(0.02, max(0.021, hi)))
    return dict(dose=dose, start=start, duration=duration, period=period, num=num)


def _final_time(draw, reg):
    """A final time by class: before the first dose, exactly at a dose time, between, late."""
    cls = draw(st.sampled_from(['at_dose', 'at_dose', 'between', 'before', 'late']))
    s, p = reg['start'], reg['period']
    k = draw(st.integers(0, 12)) if p else 0
    if reg['num']:
        k = min(k, reg['num'] - 1)
    if cls == 'before':
        if s == 0:
            cls = 'at_dose'
        else:
            return gen.r6(0.5 * s), 'before'
    if cls == 'at_dose':
        return (s + k * p) if p else s, 'at_dose'
    if cls == 'between':
        return ((s + k * p) + 0.37 * p) if p else s + 0.5, 'between'
    return (s + 6 * p + 1.0) if p else s + 5.0, 'late'


@st.composite
def _spec(draw):
    mode = draw(st.sampled_from(['sim', 'table', 'sim', 'data']))
    if mode == 'data':
        n_ids = draw(st.integers(1, 4))
        id_style = draw(st.sampled_from(['int', 'str', 'npint']))
        with_dur = draw(st.sampled_from(['col', 'nocol', 'col']))
        indiv = []
        for i in range(n_ids):
            n_d = draw(st.integers(0, 3))
            ts = sorted(gen.distinct(draw(gen.vec(gen.logu(0.1, 10.0), n_d))))
            ts = [gen.r6(t + 1.5 * j) for j, t in enumerate(ts)]      # spaced: events never overlap
            rows = []
            for t in ts:
                dur = None if gen.chance(draw, 0.4) else draw(gen.logu(0.02, 1.0))
                rows.append(dict(t=t, dose=draw(gen.logu(0.1, 10.0)), dur=dur))
            meas = [dict(t=draw(gen.logu(0.1, 10.0)), v=draw(gen.logu(0.1, 10.0)))
                    for _ in range(draw(st.integers(1, 3)))]
            indiv.append(dict(doses=rows, meas=meas))
        nan_rows = draw(st.integers(0, 2))
        shuffle = draw(st.integers(0, 10 ** 6))
        return dict(mode='data', n_ids=n_ids, id_style=id_style, with_dur=with_dur, indiv=indiv,
                    nan_rows=nan_rows, shuffle=shuffle)
    lib = gen.chance(draw, 0.12)
    ms = None if lib else sbmlgen.draw_model(draw, max_states=4)
    n_comp = 1 if lib else len(ms['comps'])
    admin = dict(comp=draw(st.integers(0, n_comp - 1)), direct=not gen.chance(draw, 0.4))
    if not lib and ms['gstates'] and gen.chance(draw, 0.35):
        # the drug enters a state variable of the 'global' component (index into compartments + global states)
        admin['comp'] = n_comp + draw(st.integers(0, len(ms['gstates']) - 1))
    if not lib and gen.chance(draw, 0.35):
        # the route was first set to another state variable / flag and then changed (only the last call counts)
        n_states = n_comp + len(ms['gstates'])
        same = [i for i in range(n_comp, n_states) if i != admin['comp']] if admin['comp'] >= n_comp else []
        if same and gen.chance(draw, 0.6):
            admin['prev'] = [draw(st.sampled_from(same)), admin['direct']]      # same component, same flag
        else:
            admin['prev'] = [draw(st.integers(0, n_states - 1)), draw(st.booleans())]
    protocol = None
    reg = draw(_regimen())
    if gen.chance(draw, 0.15):
        # explicit protocol: non-overlapping single events
        n_e = draw(st.integers(1, 3))
        ts = sorted(gen.distinct(draw(gen.vec(gen.logu(0.05, 4.0), n_e))))
        protocol = []
        t0 = 0.0
        for t in ts:
            d = draw(gen.logu(0.02, 0.8))
            protocol.append([draw(gen.logu(0.2, 20.0)), gen.r6(max(t, t0 + 0.05)), d])
            t0 = protocol[-1][1] + d
    ft, ftc = _final_time(draw, reg)
    if mode == 'table' and gen.chance(draw, 0.25):
        ft, ftc = None, 'none'
    names = ['central.drug_amount', 'central.size', 'global.elimination_rate'] if lib else \
        sbmlgen.published_parameters(ms)
    n_par = len(names) + (0 if admin['direct'] else 2)
    theta = gen.distinct(draw(gen.vec(gen.logu(0.1, 3.0), n_par)))
    if gen.chance(draw, 0.2):
        theta = [0.0 if 'amount' in n else v for n, v in zip(sorted(names), theta)] + theta[len(names):]
    n_t = draw(st.integers(1, 6))
    fr = sorted(draw(gen.vec(st.floats(0.0, 1.0).map(lambda v: round(v, 4)), n_t)))
    return dict(mode=mode, lib=lib, ms=ms, admin=admin, reg=reg, protocol=protocol, ft=ft, ftc=ftc,
                theta=theta, fr=fr, outputs_late=draw(st.booleans()))


def strategy(tier):
    return _spec()


def classify(spec):
    labs = [spec['mode']]
    if spec['mode'] == 'sim' and spec.get('outputs_late'):
        labs.append('sim:outputs_after_regimen')
    if spec['mode'] == 'data':
        labs.append('ids:' + spec['id_style'])
        labs.append('dur:' + spec['with_dur'])
        nd = [len(i['doses']) for i in spec['indiv']]
        if any(n == 0 and any(m > 0 for m in nd[:k]) for k, n in enumerate(nd)):
            labs.append('data:undosed_after_dosed')
        return labs
    labs.append('direct' if spec['admin']['direct'] else 'indirect')
    if spec['admin'].get('prev'):
        labs.append('rerouted')
        if _sens_cycle_before_reroute(spec) and not spec['lib']:
            labs.append('rerouted:after_sensitivity_cycle')
        ms_ = spec['ms']
        if ms_ is not None and min(spec['admin']['prev'][0], spec['admin']['comp']) >= len(ms_['comps']) and \
                bool(spec['admin']['prev'][1]) == bool(spec['admin']['direct']):
            labs.append('rerouted:same_component')
    if spec['ms'] is not None and spec['admin']['comp'] >= len(spec['ms']['comps']):
        labs.append('route:global_state')
    if spec['lib']:
        labs.append('lib_pk')
    if spec['protocol'] is not None:
        labs.append('protocol')
    else:
        r = spec['reg']
        labs.append('single' if not r['period'] else ('finite' if r['num'] else 'indefinite'))
        if r['start'] > 0:
            labs.append('start>0')
        labs.append('bolus' if r['duration'] == 0.01 else 'infusion')
    labs.append('ft:' + spec['ftc'])
    return labs


def nontrivial(spec):
    if spec['mode'] == 'data':
        return spec['n_ids'] >= 2 and sum(len(i['doses']) for i in spec['indiv']) >= 2
    if not spec['admin']['direct']:
        return True
    if spec['protocol'] is not None:
        return len(spec['protocol']) >= 2
    r = spec['reg']
    return bool(r['period']) and (r['start'] > 0 or spec['ftc'] in ('at_dose', 'before'))


def structure(spec):
    if spec['mode'] == 'data':
        return ['data', spec['n_ids'], spec['id_style'], spec['with_dur'],
                [[len(i['doses']), [d['dur'] is None for d in i['doses']]] for i in spec['indiv']], spec['nan_rows']]
    labs = classify(spec)
    return [labs, None if spec['lib'] else sbmlgen.structure(spec['ms']), spec['admin'],
            None if spec['protocol'] is None else len(spec['protocol'])]


# -------------------------------------------------------------------------------------------
PK_MS = dict(comps=[dict(id='central', size=1.0, sid='drug', init=0.0)], gstates=[],
             consts=[dict(id='elimination_rate', value=1.0)], derived=[],
             flows=[dict(src=0, dst=None, rate='elimination_rate')], inter=[],
             perm=dict(species=[0], params=[0], rules=[0], comps=[0]))


def _sens_cycle_before_reroute(spec):
    pv = spec['admin'].get('prev')
    return bool(pv) and (int(pv[0]) + int(spec['admin']['comp']) + len(spec.get('times') or [])) % 2 == 0


def _build_model(spec):
    import chi
    import chi.library
    if spec['lib']:
        M = chi.library.ModelLibrary().one_compartment_pk_model()
        ms = PK_MS
        comp = ms['comps'][0]
        M.set_administration('central', direct=spec['admin']['direct'])     # default amount_var
    else:
        ms = spec['ms']
        M = sbmlgen.build(ms, chi.PKPDModel)
        if spec['admin'].get('prev'):
            c0, v0 = _target(ms, spec['admin']['prev'][0])
            M.set_administration(c0, amount_var=v0, direct=bool(spec['admin']['prev'][1]))
            if _sens_cycle_before_reroute(spec):
                # the model went through a gradient evaluation (sensitivities on and off again) on the earlier route
                M.enable_sensitivities(True)
                M.enable_sensitivities(False)
        c1, v1 = _target(ms, spec['admin']['comp'])
        M.set_administration(c1, amount_var=v1, direct=spec['admin']['direct'])
    return M, ms


def _user_model(inner):
    """A user-defined mechanistic model that supports dosing (here it delegates to a PKPD model; a user would solve their
    own equations): not a chi.PKPDModel instance, but with the documented interface."""
    import chi

    class UserDosedModel(chi.MechanisticModel):
        def __init__(self, m):
            super(UserDosedModel, self).__init__()
            self._m = m

        def copy(self):
            return UserDosedModel(self._m.copy())

        def enable_sensitivities(self, enabled, parameter_names=None):
            self._m.enable_sensitivities(enabled, parameter_names)

        def has_sensitivities(self):
            return self._m.has_sensitivities()

        def n_outputs(self):
            return self._m.n_outputs()

        def n_parameters(self):
            return self._m.n_parameters()

        def outputs(self):
            return self._m.outputs()

        def parameters(self):
            return self._m.parameters()

        def simulate(self, parameters, times):
            return self._m.simulate(parameters, times)

        def supports_dosing(self):
            return True

        def set_dosing_regimen(self, dose, start=0, duration=0.01, period=None, num=None):
            self._m.set_dosing_regimen(dose, start, duration, period, num)

        def dosing_regimen(self):
            return self._m.dosing_regimen()

    return UserDosedModel(inner)


def _target(ms, idx):
    """(component, amount variable) of state idx (compartments first, then the states of 'global')."""
    if idx < len(ms['comps']):
        c = ms['comps'][idx]
        return c['id'], '%s_amount' % c['sid']
    return 'global', ms['gstates'][idx - len(ms['comps'])]['id']


def _events(spec, t_end):
    if spec['protocol'] is not None:
        return [(s, d, lvl) for lvl, s, d in spec['protocol'] if s <= t_end]
    r = spec['reg']
    return sbmlgen.regimen_events(r['dose'], r['start'], r['duration'], r['period'], r['num'], t_end)


def _set_regimen(obj, spec):
    import myokit
    if spec['protocol'] is not None:
        p = myokit.Protocol()
        evs = spec['protocol']
        if len(evs) >= 2:
            # the user's protocol object is passed, extended by a further event and passed again
            for lvl, s, d in evs[:-1]:
                p.add(myokit.ProtocolEvent(lvl, s, d))
            obj.set_dosing_regimen(p)
            lvl, s, d = evs[-1]
            p.add(myokit.ProtocolEvent(lvl, s, d))
        else:
            for lvl, s, d in evs:
                p.add(myokit.ProtocolEvent(lvl, s, d))
        obj.set_dosing_regimen(p)
    else:
        r = spec['reg']
        obj.set_dosing_regimen(dose=r['dose'], start=r['start'], duration=r['duration'],
                               period=r['period'], num=r['num'])


def _ids(spec):
    n = spec['n_ids']
    if spec['id_style'] == 'str':
        return ['p%s' % chr(65 + i) for i in range(n)]
    if spec['id_style'] == 'npint':
        return [np.int64(10 * (i + 1)) for i in range(n)]
    return [10 * (i + 1) for i in range(n)]


def check(case):
    import chi
    import pandas as pd
    from vf import simshim
    simshim.install()
    s = case.spec

    if s['mode'] == 'data':
        import chi.library
        ids = _ids(s)
        rows = []
        for i, ind in enumerate(s['indiv']):
            for m in ind['meas']:
                rows.append(dict(ID=ids[i], Time=m['t'], Observable='central.drug_concentration', Value=m['v'],
                                 Dose=np.nan, Duration=np.nan))
            for d in ind['doses']:
                rows.append(dict(ID=ids[i], Time=d['t'], Observable=np.nan, Value=np.nan, Dose=d['dose'],
                                 Duration=np.nan if d['dur'] is None else d['dur']))
        for k in range(s['nan_rows']):
            rows.append(dict(ID=ids[k % len(ids)], Time=np.nan, Observable=np.nan, Value=np.nan, Dose=np.nan,
                             Duration=np.nan))
        rng = np.random.RandomState(s['shuffle'])
        order = rng.permutation(len(rows))
        rows = [rows[j] for j in order]
        # (the measurements of an individual appear in time order: LogLikelihood rejects decreasing times and the
        # controller hands the rows over as they come)
        for i in range(len(ids)):
            pos = [k for k, r in enumerate(rows) if r['ID'] is ids[i] and isinstance(r['Observable'], str)]
            srt = sorted((rows[k] for k in pos), key=lambda r: r['Time'])
            for k, r in zip(pos, srt):
                rows[k] = r
        df = pd.DataFrame(rows)
        # index labels as they come out of pd.concat([measurements, doses, ...]) without ignore_index: not unique
        if s['shuffle'] % 3 == 1:
            df.index = [k % 4 for k in range(len(df))]
            case.labels.append('index:not_unique')
        elif s['shuffle'] % 3 == 2:
            df.index = [0] * len(df)
            case.labels.append('index:not_unique')
        dur_key = 'Duration'
        if s['with_dur'] == 'nocol':
            df = df.drop(columns=['Duration'])
            dur_key = None
        before = df.copy(deep=True)
        with case.clause('controller_regimens'):
            M = chi.library.ModelLibrary().one_compartment_pk_model()
            M.set_administration('central')
            ctrl = chi.ProblemModellingController(M, [chi.GaussianErrorModel()])
            ctrl.set_data(df, dose_duration_key=dur_key)
            regs = ctrl.get_dosing_regimens()
            case.equal(sorted(regs.keys()), sorted(str(i) for i in ids), 'keys of the regimen dictionary')
            for i, ind in enumerate(s['indiv']):
                want = []
                for d in ind['doses']:
                    dur = 0.01 if (d['dur'] is None or dur_key is None) else d['dur']
                    want.append((d['t'], dur, d['dose'] / dur))
                got = [(e.start(), e.duration(), e.level()) for e in regs[str(ids[i])].events()]
                case.equal(len(got), len(want), 'number of dose events of individual %s' % ids[i])
                case.close(np.array(sorted(got)).reshape(-1, 3), np.array(sorted(want)).reshape(-1, 3), rtol=1e-12,
                           what='dose events (time, duration, rate) of individual %s' % ids[i])
                for e in regs[str(ids[i])].events():
                    case.true(e.period() == 0 and e.multiplier() == 0, 'dataset dose events must not repeat')
        # the likelihood of every individual is simulated under THAT individual's dose events (also none at all)
        with case.clause('controller_delivery'):
            import pints
            ctrl.set_log_prior(pints.ComposedLogPrior(*[pints.UniformLogPrior(0.0, 100.0) for _ in range(4)]))
            posts = [ctrl.get_log_posterior(str(i)) for i in ids]
            theta = np.array([0.5, 2.0, 0.7, 0.8])
            lp = -4.0 * np.log(100.0)
            wants = {}
            for order_pass in (0, 1):
                # (second pass in reverse order: the objects are independent of the order they are used in)
                for P in (posts if order_pass == 0 else list(reversed(posts))):
                    pid = P.get_id()
                    i = [str(v) for v in ids].index(str(pid))
                    ind = s['indiv'][i]
                    ev = []
                    for d in ind['doses']:
                        dur = 0.01 if (d['dur'] is None or dur_key is None) else d['dur']
                        ev.append((d['t'], dur, d['dose'] / dur))
                    tm = np.array(sorted(m['t'] for m in ind['meas']), dtype=float)
                    obs = np.array([m['v'] for m in sorted(ind['meas'], key=lambda m: m['t'])], dtype=float)
                    amount = np.real(sbmlgen.ref_simulate(PK_MS, theta[:3], tm, ['central.drug_amount'],
                                                          dict(comp=0, direct=True), ev))[0]
                    conc = amount / theta[1]
                    want = lp + float(np.sum(-0.5 * np.log(2 * np.pi) - np.log(theta[3])
                                             - (obs - conc) ** 2 / (2 * theta[3] ** 2)))
                    if len(set(tm.tolist())) < len(tm):
                        wants = None      # tied measurement times: the order of the observations is not defined here
                        continue
                    if wants is not None:
                        wants[i] = want - lp
                    case.close(P(theta.copy()), want, rtol=1e-6, atol=1e-8,
                               what='log-posterior of individual %s under its own %d dose events' % (pid, len(ev)))
            if wants is not None and len(wants) == len(ids) and len(ids) >= 2:
                # all individuals at once (fully pooled population model): every likelihood still uses its own doses
                ctrl.set_population_model(chi.PooledModel(n_dim=4))
                ctrl.set_log_prior(pints.ComposedLogPrior(*[pints.UniformLogPrior(0.0, 100.0) for _ in range(4)]))
                H = ctrl.get_log_posterior()
                case.close(H(theta.copy()), lp + sum(wants.values()), rtol=1e-6, atol=1e-8,
                           what='fully pooled hierarchical log-posterior = prior + sum of the individuals\' '
                                'log-likelihoods, each under its own dose events')
        # the controller is given another dataset afterwards, one without dose information (same individuals, e.g. the
        # control arm): no dose event of the first dataset is left
        if 'controller_delivery' in case.checked and not case.fails:
            with case.clause('controller_second_dataset'):
                df2 = before[before['Observable'].notnull()][['ID', 'Time', 'Observable', 'Value']].copy()
                ctrl2 = chi.ProblemModellingController(M, [chi.GaussianErrorModel()])
                for c_ in (ctrl, ctrl2):
                    c_.set_data(df if c_ is ctrl2 else df2, **(dict(dose_duration_key=dur_key) if c_ is ctrl2 else
                                                              dict(dose_key=None, dose_duration_key=None)))
                ctrl2.set_data(df2, dose_key=None, dose_duration_key=None)
                for label, c_ in (('a controller with a pooled population model', ctrl), ('a fresh controller', ctrl2)):
                    regs2 = c_.get_dosing_regimens()
                    case.true(not regs2 or all(len(r.events()) == 0 for r in regs2.values()),
                              'dose events are reported after a dataset without dose information was set on %s' % label)
                    c_.set_log_prior(pints.ComposedLogPrior(*[pints.UniformLogPrior(0.0, 100.0) for _ in range(4)]))
                    total = lp
                    for i, ind in enumerate(s['indiv']):
                        tm = np.array(sorted(m['t'] for m in ind['meas']), dtype=float)
                        if len(set(tm.tolist())) < len(tm):
                            total = None
                            continue
                        obs = np.array([m['v'] for m in sorted(ind['meas'], key=lambda m: m['t'])], dtype=float)
                        amount = np.real(sbmlgen.ref_simulate(PK_MS, theta[:3], tm, ['central.drug_amount'],
                                                              dict(comp=0, direct=True), []))[0]
                        ll_i = float(np.sum(-0.5 * np.log(2 * np.pi) - np.log(theta[3])
                                            - (obs - amount / theta[1]) ** 2 / (2 * theta[3] ** 2)))
                        if total is not None:
                            total += ll_i
                        if c_ is ctrl2:
                            case.close(c_.get_log_posterior(str(ids[i]))(theta.copy()), lp + ll_i, rtol=1e-6, atol=1e-8,
                                       what='log-posterior of individual %s without doses (second dataset on %s)' % (
                                           ids[i], label))
                    if c_ is ctrl and total is not None:
                        # (the population model set before stays in place: the posterior is the pooled hierarchical one)
                        case.close(c_.get_log_posterior()(theta.copy()), total, rtol=1e-6, atol=1e-8,
                                   what='pooled hierarchical log-posterior without doses (second dataset on %s)' % label)
        with case.clause('input_unchanged'):
            case.true(df.equals(before) and list(df.columns) == list(before.columns),
                      "the caller's data frame was modified by set_data")
        return

    with case.clause('construct'):
        M, ms = _build_model(s)
    if case.fails:
        return
    admin = s['admin']
    names = sbmlgen.published_parameters(ms, admin)
    theta = np.array(s['theta'], dtype=float)

    with case.clause('names'):
        case.equal(M.parameters(), names, 'parameter names after set_administration')
        case.equal(M.n_parameters(), len(names), 'n_parameters after set_administration')
        case.equal(M.administration(), {'compartment': _target(ms, admin['comp'])[0], 'direct': admin['direct']},
                   'administration()')

    if s['mode'] == 'sim':
        t_end = s['ft'] if s['ft'] is not None else 5.0
        t_end = max(t_end, 0.05)
        times = np.array(sorted({round(f * t_end, 9) for f in s['fr']} | {t_end}), dtype=float)
        outs = sbmlgen.state_qnames(ms) + ([] if admin['direct'] else ['dose.drug_amount'])
        with case.clause('simulate'):
            if s.get('outputs_late'):
                # (the outputs are selected AFTER the regimen was scheduled)
                _set_regimen(M, s)
                M.set_outputs(outs)
            else:
                M.set_outputs(outs)
                _set_regimen(M, s)
            got = np.asarray(M.simulate(theta.copy(), times.copy()), dtype=float)
            ev = _events(s, t_end + 1.0)
            want = np.real(sbmlgen.ref_simulate(ms, theta, times, outs, admin, ev))
            case.close(got, want, rtol=1e-6, atol=1e-8, what='simulated amounts vs closed form with scheduled input')
        with case.clause('sensitivities_keep_regimen'):
            M.enable_sensitivities(True)
            out2, _ = M.simulate(theta.copy(), times.copy())
            case.close(out2, want, rtol=1e-6, atol=1e-8, what='amounts with sensitivities enabled (regimen kept)')
            # enabling again while already enabled (as ReducedMechanisticModel.fix_parameters and
            # enable_sensitivities(True, subset) do) builds a new simulator: the regimen must follow
            M.enable_sensitivities(True, parameter_names=M.parameters()[:1])
            out2b, _ = M.simulate(theta.copy(), times.copy())
            case.close(out2b, want, rtol=1e-6, atol=1e-8,
                       what='amounts after enabling sensitivities a second time (regimen kept)')
            M.enable_sensitivities(False)
            out3 = M.simulate(theta.copy(), times.copy())
            case.close(out3, want, rtol=1e-6, atol=1e-8, what='amounts after disabling sensitivities (regimen kept)')
        return

    # ---- table mode ---------------------------------------------------------------------
    with case.clause('regimen_table'):
        n_out = M.n_outputs()
        pm = chi.PredictiveModel(M, [chi.GaussianErrorModel() for _ in range(n_out)])
        case.true(pm.get_dosing_regimen() is None, 'regimen table before any regimen was set is not None')
        _set_regimen(pm, s)
        ft = s['ft']
        df = pm.get_dosing_regimen(final_time=ft)
        if s['protocol'] is not None:
            want = [(st_, d, lvl * d) for lvl, st_, d in s['protocol'] if (ft is None or st_ <= ft)]
        else:
            r = s['reg']
            if ft is None:
                if r['period'] and not r['num']:
                    want = [(r['start'], r['duration'], r['dose'])]
                else:
                    ev = sbmlgen.regimen_events(r['dose'], r['start'], r['duration'], r['period'], r['num'], np.inf)
                    want = [(a, b, c * b) for a, b, c in ev]
            else:
                ev = sbmlgen.regimen_events(r['dose'], r['start'], r['duration'], r['period'], r['num'], ft)
                want = [(a, b, c * b) for a, b, c in ev]
        if not want:
            case.true(df is None, 'no dose up to final_time=%r but a table was returned: %r' % (
                ft, None if df is None else df.values.tolist()))
        else:
            case.true(df is not None, 'doses %r are scheduled up to final_time=%r but None was returned' % (want, ft))
            case.equal(list(df.columns), ['Time', 'Duration', 'Dose'], 'columns of the regimen table')
            got = sorted((float(a), float(b), float(c)) for a, b, c in df[['Time', 'Duration', 'Dose']].values)
            case.equal(len(got), len(want), 'number of listed dose events (final_time=%r): listed times %r, scheduled %r' % (
                ft, [g[0] for g in got], [w[0] for w in want]))
            case.close(np.array(got), np.array(sorted(want)), rtol=1e-9, what='listed (time, duration, amount)')

    # every sampled individual (ID) of a predictive model is listed with exactly these dose rows
    if ft is not None and want:
        with case.clause('sample_table'):
            params = np.concatenate([theta, np.full(n_out, 0.3)])
            tms = np.array(sorted({ft, 0.5 * ft}), dtype=float)
            for n in sorted({2, max(2, min(len(want), 4))}):
                smp = pm.sample(params.copy(), tms.copy(), n_samples=n, seed=5, include_regimen=True)
                case.true('Dose' in smp.columns, 'doses %r are scheduled up to the final time but the sampled table has '
                          'no dose column (n_samples=%d)' % (sorted(want), n), kind='missing_column')
                dose_rows = smp[smp['Dose'].notnull()]
                ids_ = sorted(set(int(v) for v in dose_rows['ID']))
                case.equal(ids_, list(range(1, n + 1)), 'sample IDs that carry dose rows (n_samples=%d)' % n)
                for i in ids_:
                    sub = dose_rows[dose_rows['ID'] == i]
                    got_i = sorted((float(a), float(b), float(c)) for a, b, c in sub[['Time', 'Duration', 'Dose']].values)
                    case.equal(len(got_i), len(want), 'number of dose rows of sample ID %d (n_samples=%d): times %r, '
                               'scheduled %r' % (i, n, [g[0] for g in got_i], [w[0] for w in sorted(want)]))
                    case.close(np.array(got_i), np.array(sorted(want)), rtol=1e-9,
                               what='dose rows (time, duration, amount) of sample ID %d (n_samples=%d)' % (i, n))
        # a prior predictive model sampled up to a time at which the last infusion is still RUNNING: the table lists every
        # dose that has started (once for all samples)
        if s['protocol'] is None:
            with case.clause('prior_predictive_table'):
                import pints
                r = s['reg']
                last = sorted(sbmlgen.regimen_events(r['dose'], r['start'], r['duration'], r['period'], r['num'], ft))[-1]
                t_mid = float(last[0] + 0.5 * last[1])
                want_mid = sorted((a, b, c * b) for a, b, c in sbmlgen.regimen_events(
                    r['dose'], r['start'], r['duration'], r['period'], r['num'], t_mid))
                prior = pints.ComposedLogPrior(*[pints.GaussianLogPrior(float(v), 1e-9 * max(abs(float(v)), 1.0))
                                                 for v in params])
                prm = chi.PriorPredictiveModel(pm, prior)
                smp = prm.sample(np.array([0.5 * t_mid, t_mid]), n_samples=2, seed=4, include_regimen=True)
                case.true('Dose' in smp.columns, 'no dose column in the table sampled from a prior predictive model',
                          kind='missing_column')
                got_m = sorted((float(a), float(b), float(c)) for a, b, c in
                               smp[smp['Dose'].notnull()][['Time', 'Duration', 'Dose']].values)
                case.equal(len(got_m), len(want_mid), 'number of dose rows of a prior predictive model sampled up to %r (the '
                           'infusion started at %r runs until %r): listed %r, started by then %r' % (
                               t_mid, last[0], last[0] + last[1], [g[0] for g in got_m], [w[0] for w in want_mid]))
                case.close(np.array(got_m), np.array(want_mid), rtol=1e-9,
                           what='dose rows of a prior predictive model sampled while an infusion is running')
                case.labels.append('prior_predictive_table:running_infusion')
        # a population predictive model whose population model has covariates: the covariate rows of the sampled
        # individuals stand next to the same dose rows
        with case.clause('population_sample_table'):
            d = len(params)
            covm = chi.CovariatePopulationModel(chi.PooledModel(n_dim=1), chi.LinearCovariateModel(n_cov=2))
            popm = chi.ComposedPopulationModel([chi.PooledModel(n_dim=d - 1), covm]) if d >= 2 else covm
            ppm = chi.PopulationPredictiveModel(pm, popm)
            pp = np.concatenate([params, np.zeros(ppm.n_parameters() - d)])
            for n, cv in ((2, np.array([0.7, -1.2])), (3, np.array([[0.7, 1.0], [0.1, 2.0], [-0.4, 3.0]]))):
                smp = ppm.sample(pp.copy(), tms.copy(), n_samples=n, seed=5, include_regimen=True, covariates=cv.copy())
                case.true('Dose' in smp.columns, 'doses %r are scheduled up to the final time but the sampled table has '
                          'no dose column (n_samples=%d)' % (sorted(want), n), kind='missing_column')
                dose_rows = smp[smp['Dose'].notnull()]
                for i in range(1, n + 1):
                    sub = dose_rows[dose_rows['ID'] == i]
                    got_i = sorted((float(a), float(b), float(c)) for a, b, c in sub[['Time', 'Duration', 'Dose']].values)
                    case.equal(len(got_i), len(want), 'number of dose rows of sample ID %d of a population predictive '
                               'model with covariates (n_samples=%d): times %r, scheduled %r' % (
                                   i, n, [g[0] for g in got_i], [w[0] for w in sorted(want)]))
                    case.close(np.array(got_i), np.array(sorted(want)), rtol=1e-9,
                               what='dose rows of sample ID %d of a population predictive model with covariates' % i)
        # a user-defined dosing-capable model (not a PKPDModel instance) with one parameter fixed: the regimen set through
        # the predictive model is reported in the same table and in the sampled table
        if s['protocol'] is None:
            with case.clause('user_model_regimen'):
                um = _user_model(M.copy())
                pmu = chi.PredictiveModel(um, [chi.GaussianErrorModel() for _ in range(n_out)])
                first = pmu.get_parameter_names()[0]
                pmu.fix_parameters({first: float(theta[0])})
                r = s['reg']
                pmu.set_dosing_regimen(dose=r['dose'], start=r['start'], duration=r['duration'], period=r['period'],
                                       num=r['num'])
                dfu = pmu.get_dosing_regimen(final_time=ft)
                case.true(dfu is not None, 'the regimen set on a predictive model over a user-defined dosed model with a '
                          'fixed parameter is not reported (None)')
                got_u = sorted((float(a), float(b), float(c)) for a, b, c in dfu[['Time', 'Duration', 'Dose']].values)
                case.close(np.array(got_u), np.array(sorted(want)), rtol=1e-9,
                           what='regimen table of a predictive model over a user-defined dosed model with a fixed parameter')
                smp = pmu.sample(params[1:].copy(), tms.copy(), n_samples=2, seed=5, include_regimen=True)
                case.true('Dose' in smp.columns and int(smp['Dose'].notnull().sum()) == 2 * len(want),
                          'dose rows in the table sampled from the user-defined dosed model: expected %d per sample id'
                          % len(want), kind='dose_rows')

        # an averaged model over two different posterior predictive models: the regimen set through it reaches both
        if s['protocol'] is None:
            with case.clause('averaged_regimen'):
                import xarray as xr
                posts = []
                for k in range(2):
                    Mk = M.copy()
                    pmk = chi.PredictiveModel(Mk, [chi.GaussianErrorModel() for _ in range(n_out)])
                    nms = pmk.get_parameter_names()
                    vals = np.concatenate([theta * (1.0 + 0.1 * k), np.full(n_out, 1e-6)])
                    ds = xr.Dataset({nm: xr.DataArray(np.array([[v, v]]), dims=['chain', 'draw'],
                                                      coords={'chain': [0], 'draw': [0, 1]})
                                     for nm, v in zip(nms, vals)})
                    posts.append(chi.PosteriorPredictiveModel(pmk, ds))
                # (a candidate with weight 0 is a candidate; the weights alternate between the cases)
                w_pam = [[1.0, 1.0], [0.0, 1.0], [1.0, 0.0]][len(want) % 3]
                pam = chi.PAMPredictiveModel(posts, list(w_pam))
                r = s['reg']
                # another regimen was scheduled and its table requested before: the second call replaces it everywhere
                pam.set_dosing_regimen(dose=9.9, start=0.3, duration=0.2, period=0.7, num=2)
                pam.get_dosing_regimen(final_time=ft)
                pam.sample(np.array([ft]), n_samples=1, seed=1, include_regimen=True)
                pam.set_dosing_regimen(dose=r['dose'], start=r['start'], duration=r['duration'], period=r['period'],
                                       num=r['num'])
                df_p = pam.get_dosing_regimen(final_time=ft)
                case.true(df_p is not None, 'the averaged model (weights %r) reports no regimen' % (w_pam,))
                got_p = sorted((float(a), float(b), float(c)) for a, b, c in df_p[['Time', 'Duration', 'Dose']].values)
                case.equal(len(got_p), len(want), 'number of dose events reported by the averaged model (weights %r) after the '
                           'regimen was replaced: %r, scheduled %r' % (w_pam, [g[0] for g in got_p], [w[0] for w in sorted(want)]))
                case.close(np.array(got_p), np.array(sorted(want)), rtol=1e-9,
                           what='regimen table of the averaged model (weights %r) after the regimen was replaced' % (w_pam,))
                for k, post in enumerate(pam.get_predictive_model()):
                    dfk = post.get_dosing_regimen(final_time=ft)
                    case.true(dfk is not None, 'candidate model %d of the averaged model reports no regimen' % (k + 1))
                    got_k = sorted((float(a), float(b), float(c)) for a, b, c in dfk[['Time', 'Duration', 'Dose']].values)
                    case.close(np.array(got_k), np.array(sorted(want)), rtol=1e-9,
                               what='regimen of candidate model %d of the averaged model' % (k + 1))
                # a candidate (posterior predictive model) sampled at ONE late time: the table lists every dose applied up to
                # that time, also those before the first sampled time
                smp_c = posts[1].sample(np.array([ft]), n_samples=1, seed=2, include_regimen=True)
                case.true('Dose' in smp_c.columns, 'no dose column in the table sampled from a posterior predictive model',
                          kind='missing_column')
                got_c = sorted((float(a), float(b), float(c)) for a, b, c in
                               smp_c[smp_c['Dose'].notnull()][['Time', 'Duration', 'Dose']].values)
                case.equal(len(got_c), len(want), 'number of dose rows of a posterior predictive model sampled at the single '
                           'time %r: listed %r, scheduled %r' % (ft, [g[0] for g in got_c], [w[0] for w in sorted(want)]))
                case.close(np.array(got_c), np.array(sorted(want)), rtol=1e-9,
                           what='dose rows of a posterior predictive model sampled at one late time')
                # sampled through the averaged model at times given in another order: the table covers the doses up to
                # the LARGEST requested time
                t_un = np.array([ft, 0.25 * ft, 0.5 * ft])
                smp = pam.sample(t_un.copy(), n_samples=2, seed=3, include_regimen=True)
                case.true('Dose' in smp.columns, 'doses are scheduled up to the final time but the table sampled from the '
                          'averaged model has no dose column', kind='missing_column')
                # (the averaged model lists the regimen once for all sampled individuals, without an ID)
                dose_rows = smp[smp['Dose'].notnull()]
                got_a = sorted((float(a), float(b), float(c)) for a, b, c in dose_rows[['Time', 'Duration', 'Dose']].values)
                case.equal(len(got_a), len(want), 'number of dose rows sampled from the averaged model at times %r: listed '
                           '%r, scheduled up to %r: %r' % (t_un.tolist(), [g[0] for g in got_a], ft,
                                                           [w[0] for w in sorted(want)]))
                case.close(np.array(got_a), np.array(sorted(want)), rtol=1e-9,
                           what='dose rows sampled from the averaged model')


RULE += (' Classes and clauses added in later rounds of the seeded-change protocol (DESIGN 9.4) are named in REQUIRED '
         'and in seeded/HISTORY.json; the evidence counts every one of them under classes.')
