"""C12 - Population filters use the documented estimators; missing-data invariant."""
import numpy as np
from hypothesis import strategies as st

from vf import gen
from vf import ref_filters as rf

ID = 'C12'
BUDGET = {'quick': 4000, 'thorough': 200000}
RULE = (
    'Hypothesis draws a filter description (plain filter of one of the 5 classes, or a ComposedPopulationFilter of '
    '1-3 parts splitting the time axis with the same or mixed classes; n_kernels 2-3 for the mixture), observations '
    '(n_ids 1-6, n_observables 1-3, n_times 1-5) with a missing-value pattern (rate 0/0.2/0.5 per case) that leaves '
    '>=1 value per (observable,time) cell, simulated values (n_sim 2-12; a multiple of every n_kernels in use with >=2 '
    'per kernel), values in [-10,10] (log-uniform in [1e-2,1e2] in time columns covered by a log-normal filter), '
    'simulated values of one cell pairwise separated by >=1e-3 relative; plus the transformations of the metamorphic '
    'clauses: 0-3 all-missing individuals inserted at drawn positions, measurements to blank (never the last of a '
    'cell), a permutation of the measured individuals, one or two successive time orders (permutations), and a '
    'refinement of every part into consecutive sub-filters of the same class (flat or as a composition of composed '
    'filters; also with the sub-filters sorted individually before composing). Non-trivial: (>=2 observables or >=2 '
    'times) and a missing value present and n_sim>=3. Distinct = distinct (parts, composed, shape, n_sim, missing '
    'pattern, orders, refinement, padding) projections.')
ASSUMPTIONS = [
    'reference log-densities written from the class docstrings as explicit loops (vf/ref_filters.py), cross-checked '
    'once against scipy.stats; derivative oracle: complex-step differentiation of that reference',
    'log-normal KDE bandwidth is computed from the simulated log-values (property text), not from the measurements '
    '(class docstring)',
    'sort_times(order) means observations[..., order]; the simulated values are then supplied as sim[..., order] and '
    'the sensitivities are expected in that (input) ordering',
    'simulated values of a cell (and of every mixture block) are pairwise distinct: zero empirical variance is '
    'outside the documented estimators',
    'metamorphic clauses compare chi with chi (tolerance 1e-9 value, 1e-8 gradient), so they stay decidable where '
    'the value clause already fails']
REQUIRED = ['kind:gauss', 'kind:lognorm', 'kind:gkde', 'kind:lnkde', 'kind:gmix', 'composed', 'mixed', 'plain',
            'nan', 'full', 'pad', 'drop', 'order2', 'order:noninvolution', 'refined', 'n_ids=1', 'n_times=1',
            'nk=3', 'n_sim=2', 'nested', 'large_common_level:gmix', 'other_unit:small', 'identical_individuals']


# --------------------------------------------------------------------------
# generator
# --------------------------------------------------------------------------
def _cuts(draw, n, max_parts):
    """Composition of n into 1..max_parts positive sizes."""
    if n == 1 or max_parts == 1:
        return [n]
    k = draw(st.integers(0, min(n, max_parts) - 1))
    cuts = sorted(draw(st.lists(st.integers(1, n - 1), min_size=k, max_size=k, unique=True)))
    edges = [0] + cuts + [n]
    return [b - a for a, b in zip(edges[:-1], edges[1:])]


def _spread(values, rel=1e-3):
    """Pairwise separation of at least rel*max(1,|v|) (conditioning of the empirical variance)."""
    out = []
    for v in values:
        w = v
        k = 1
        while any(abs(w - o) < rel * max(1.0, abs(w), abs(o)) for o in out):
            w = gen.r6(v + (0.0137 * k) * max(1.0, abs(v)))
            k += 1
        out.append(w)
    return out


@st.composite
def _spec(draw):
    n_obs = draw(st.sampled_from([1, 1, 2, 2, 3]))
    n_times = draw(st.sampled_from([1, 2, 2, 3, 3, 3, 4, 4, 5, 5]))
    n_ids = draw(st.sampled_from([1, 2, 2, 3, 3, 4, 5, 6]))

    # ---- filter description
    composed = gen.chance(draw, 0.5)
    sizes = _cuts(draw, n_times, 3) if composed else [n_times]
    mixed = gen.chance(draw, 0.7)
    k0 = draw(st.sampled_from(rf.KINDS))
    nk0 = draw(st.sampled_from([2, 2, 3]))
    parts = []
    for nt in sizes:
        kind = draw(st.sampled_from(rf.KINDS)) if mixed else k0
        p = dict(kind=kind, nt=nt)
        if kind == 'gmix':
            p['nk'] = draw(st.sampled_from([2, 2, 3])) if mixed else nk0
        parts.append(p)
    nks = sorted(set(p['nk'] for p in parts if p['kind'] == 'gmix'))
    if nks == []:
        n_sim = draw(st.sampled_from([2, 3, 3, 4, 5, 6, 7, 8, 10, 12]))
    elif nks == [2]:
        n_sim = draw(st.sampled_from([4, 6, 8, 10, 12]))
    elif nks == [3]:
        n_sim = draw(st.sampled_from([6, 9, 12]))
    else:
        n_sim = draw(st.sampled_from([6, 12]))

    # ---- values
    positive = []
    for p in parts:
        positive += [p['kind'] in rf.LOGNORMAL] * p['nt']

    def val(j):
        return gen.logu(1e-2, 1e2) if positive[j] else gen.real(-10, 10)

    rate = draw(st.sampled_from([0, 1, 1, 2]))          # missing-value rate 0 / 0.2 / 0.5
    obs = [[[None] * n_times for _ in range(n_obs)] for _ in range(n_ids)]
    drop = []
    for r in range(n_obs):
        for j in range(n_times):
            present = [i for i in range(n_ids) if rate == 0 or draw(st.integers(0, 9)) >= (2 if rate == 1 else 5)]
            if not present:
                present = [draw(st.integers(0, n_ids - 1))]
            for i in present:
                obs[i][r][j] = draw(val(j))
            if len(present) >= 2 and gen.chance(draw, 0.4):
                drop.append([draw(st.sampled_from(present)), r, j])
    sim = [[[None] * n_times for _ in range(n_obs)] for _ in range(n_sim)]
    for r in range(n_obs):
        for j in range(n_times):
            col = _spread(draw(gen.vec(val(j), n_sim)))
            for s in range(n_sim):
                sim[s][r][j] = col[s]

    # ---- two measured individuals with the very same complete record (rounded snapshot data): both count
    twins = False
    if n_ids >= 2 and gen.chance(draw, 0.1):
        obs[0] = [[v if v is not None else draw(val(j)) for j, v in enumerate(row)] for row in obs[0]]
        obs[1] = [list(row) for row in obs[0]]
        drop = [d for d in drop if d[0] not in (0, 1)]
        twins = True

    # ---- a large common level (counts around 2^24) with spreads of order one: the estimators depend on differences only
    level = None
    if not any(positive) and gen.chance(draw, 0.1):
        level = draw(st.sampled_from([float(2 ** 20), float(2 ** 24), 1e8]))
        obs = [[[None if v is None else level + round(v * 64) / 64.0 for v in row] for row in ind] for ind in obs]
        sim = [[[level + round(v * 64) / 64.0 for v in row] for row in ind] for ind in sim]
        for r in range(n_obs):
            for j in range(n_times):
                seen = set()
                for s_ in range(n_sim):                     # (rounding must not make two simulated values equal)
                    while sim[s_][r][j] in seen:
                        sim[s_][r][j] += 1.0 / 64.0
                    seen.add(sim[s_][r][j])

    # ---- measurements reported in a small (or large) unit: concentrations of order 1e-7, variances of order 1e-14
    unit = None
    if level is None and gen.chance(draw, 0.1):
        unit = draw(st.sampled_from([1e-7, 1e-9, 1e-5, 1e6]))
        obs = [[[None if v is None else gen.sig6(v * unit) for v in row] for row in ind] for ind in obs]
        sim = [[[gen.sig6(v * unit) for v in row] for row in ind] for ind in sim]

    # ---- transformations
    pad = sorted(draw(st.lists(st.integers(0, n_ids), min_size=0, max_size=3))) if gen.chance(draw, 0.6) else []
    perm = list(draw(st.permutations(list(range(n_ids)))))
    order1 = list(draw(st.permutations(list(range(n_times)))))
    order2 = list(draw(st.permutations(list(range(n_times))))) if gen.chance(draw, 0.6) else None
    refine = [_cuts(draw, p['nt'], p['nt']) for p in parts]
    nest = gen.chance(draw, 0.3)
    return dict(nest=nest, parts=parts, composed=composed, obs=obs, sim=sim, drop=drop, pad=pad, perm=perm,
                order1=order1, order2=order2, refine=refine, level=level, unit=unit, twins=twins)


def strategy(tier):
    return _spec()


def extra_cases(tier):
    """Problem sizes at which an implementation would start to work in blocks (the (n_sim, n_ids, n_obs, n_times) table of
    kernel terms has more than 2^20 entries): 40 measured and 500 / 437 simulated individuals. Only the value (and its
    agreement with the score of compute_sensitivities) is checked for these."""
    import random
    out = []
    for k, (kind, n_sim) in enumerate([('lnkde', 500), ('gkde', 437)]):
        rng = random.Random(100 + k)
        n_ids, n_obs, n_times = 40, 2, 30
        pos = kind == 'lnkde'
        obs = [[[None if rng.random() < 0.3 else gen.sig6(rng.uniform(0.5, 3.0) if pos else rng.uniform(-2.0, 2.0))
                 for _ in range(n_times)] for _ in range(n_obs)] for _ in range(n_ids)]
        for r in range(n_obs):
            for j in range(n_times):
                if all(obs[i][r][j] is None for i in range(n_ids)):
                    obs[0][r][j] = 1.0
        sim = [[[gen.sig6(rng.uniform(0.4, 3.5) if pos else rng.uniform(-2.5, 2.5)) for _ in range(n_times)]
                for _ in range(n_obs)] for _ in range(n_sim)]
        out.append(dict(nest=False, parts=[dict(kind=kind, nt=n_times)], composed=False, obs=obs, sim=sim, drop=[], pad=[],
                        perm=list(range(n_ids)), order1=list(range(n_times)), order2=None, refine=[[n_times]], level=None,
                        unit=None, twins=False, big=True))
    return out


def _shape(spec):
    o = spec['obs']
    return len(o), len(o[0]), len(o[0][0])


def _has_nan(spec):
    return any(v is None for a in spec['obs'] for b in a for v in b)


def _noninvolution(order):
    return any(order[order[k]] != k for k in range(len(order)))


def classify(spec):
    n_ids, n_obs, n_times = _shape(spec)
    parts = spec['parts']
    labs = set('kind:' + p['kind'] for p in parts)
    labs.add('composed' if spec['composed'] else 'plain')
    if len(set(p['kind'] for p in parts)) > 1:
        labs.add('mixed')
    if any(p.get('nk') == 3 for p in parts):
        labs.add('nk=3')
    labs.add('nan' if _has_nan(spec) else 'full')
    if spec.get('big'):
        labs.add('large_problem')
    if spec.get('twins'):
        labs.add('identical_individuals')
    if spec.get('unit'):
        labs.add('other_unit')
        if spec['unit'] < 1e-6:
            labs.add('other_unit:small')
    if spec.get('level'):
        labs.add('large_common_level')
        if any(p['kind'] == 'gmix' for p in parts):
            labs.add('large_common_level:gmix')
    if spec['pad']:
        labs.add('pad')
    if spec['drop']:
        labs.add('drop')
    if spec['order2'] is not None:
        labs.add('order2')
    orders = [spec['order1']] + ([spec['order2']] if spec['order2'] is not None else [])
    if any(_noninvolution(o) for o in orders):
        labs.add('order:noninvolution')
    if all(o == list(range(n_times)) for o in orders):
        labs.add('order:identity')
    if any(len(c) > 1 for c in spec['refine']):
        labs.add('refined')
    if spec['nest']:
        labs.add('nested')
    if n_ids == 1:
        labs.add('n_ids=1')
    if n_times == 1:
        labs.add('n_times=1')
    if n_obs >= 2:
        labs.add('n_obs>=2')
    if len(spec['sim']) == 2:
        labs.add('n_sim=2')
    return sorted(labs)


def nontrivial(spec):
    n_ids, n_obs, n_times = _shape(spec)
    return (n_obs >= 2 or n_times >= 2) and _has_nan(spec) and len(spec['sim']) >= 3


def structure(spec):
    return [spec['parts'], spec['composed'], list(_shape(spec)), len(spec['sim']),
            [[[v is None for v in b] for b in a] for a in spec['obs']],
            spec['order1'], spec['order2'], spec['refine'], spec['nest'], spec['pad'], len(spec['drop'])]


# --------------------------------------------------------------------------
# check
# --------------------------------------------------------------------------
def _arr(nested):
    return np.array([[[np.nan if v is None else v for v in b] for b in a] for a in nested], dtype=float)


# Conditioning of the case at hand: a common level L with a spread s carries the data with a relative resolution of
# eps * L / s; results cannot be pinned down better than a modest multiple of that (0 for ordinary data).
_COND = [0.0]


def _value(case, f, sim, want, what, rtol=1e-9):
    rtol = max(rtol, 100.0 * _COND[0])
    got = f.compute_log_likelihood(sim.copy())
    case.true(not np.ma.is_masked(got), '%s: masked value returned' % what, kind='masked')
    case.close(float(got), want, rtol=rtol, what=what)


def _sens(case, f, sim, want_v, want_g, what, rtol_v=1e-9, rtol_g=1e-7):
    rtol_v, rtol_g = max(rtol_v, 100.0 * _COND[0]), max(rtol_g, 100.0 * _COND[0])
    out = f.compute_sensitivities(sim.copy())
    case.equal(len(out), 2, '%s: length of the returned tuple' % what, kind='shape')
    sc, g = out
    case.true(not np.ma.is_masked(sc), '%s: masked score returned' % what, kind='masked')
    case.close(float(sc), want_v, rtol=rtol_v, what='%s: score' % what)
    case.true(not np.ma.is_masked(g), '%s: sensitivities contain masked entries' % what, kind='masked')
    g = np.asarray(g, dtype=float)
    case.equal(g.shape, sim.shape, '%s: sensitivities shape' % what, kind='shape')
    # entries that are cancelling sums of terms ~|g|_inf carry rounding noise of that scale (found by
    # the thorough tier: KDE kernels 400 bandwidths away from the data, |g|_inf ~ 1e5, one entry ~ 0)
    gmax = float(np.max(np.abs(want_g))) if np.size(want_g) else 0.0
    case.close(g, want_g, rtol=rtol_g, atol=1e-11 * gmax, what='%s: sensitivities' % what)


def _same_as_base(case, f, sim, v0, g0, what):
    """Metamorphic comparison chi vs chi."""
    if v0 is not None:
        _value(case, f, sim, v0, what)
    if g0 is not None:
        _sens(case, f, sim, g0[0], g0[1], what, rtol_g=1e-8)


def check(case):
    s = case.spec
    parts, composed = s['parts'], s['composed']
    obs = _arr(s['obs'])
    sim = _arr(s['sim'])
    n_ids, n_obs, n_times = obs.shape

    _COND[0] = 0.0
    if s.get('level'):
        spreads, j0 = [], 0
        for p_ in parts:
            nk = int(p_.get('nk') or 1)                        # (mixture filters estimate one kernel per block of individuals)
            for j in range(j0, j0 + p_['nt']):
                for r in range(n_obs):
                    for blk in np.array_split(sim[:, r, j], nk):
                        spreads.append(float(np.std(blk)))
            j0 += p_['nt']
        spread = min(spreads)
        _COND[0] = float(s['level']) * 2.3e-16 / max(spread, 1e-300)
    with case.clause('construct'):
        f = rf.build(parts, obs, composed)
    if case.fails:
        return

    with case.clause('counts'):
        case.equal(int(f.n_observables()), n_obs, 'n_observables')
        case.equal(int(f.n_times()), n_times, 'n_times')

    # ---- documented estimators ---------------------------------------------
    want = float(np.real(rf.filter_loglik(parts, obs, sim)))
    v0 = g0 = None
    with case.clause('value'):
        got = f.compute_log_likelihood(sim.copy())
        if not np.ma.is_masked(got) and np.isfinite(float(got)):
            v0 = float(got)
        _value(case, f, sim, want, 'log-likelihood')

    # a freshly built filter whose FIRST evaluation is the one with sensitivities (a purely gradient-based sampler)
    if not s.get('big') and np.isfinite(want):
        with case.clause('sensitivities_first'):
            f2 = rf.build(parts, obs, composed)
            out2 = f2.compute_sensitivities(sim.copy())
            # (compared with chi's own value where there is one: the reference value is the subject of clause 'value')
            case.close(float(out2[0]), want if v0 is None else v0, rtol=max(1e-9 if v0 is None else 1e-12, 100.0 * _COND[0]),
                       what='score of compute_sensitivities as the first evaluation of a new filter')
            if v0 is not None and not case.fails:
                out1 = f.compute_sensitivities(sim.copy())
                case.close(np.asarray(out2[1], dtype=float), np.asarray(out1[1], dtype=float), rtol=1e-12,
                           what='sensitivities as the first evaluation of a new filter vs after a log-likelihood evaluation')

    if s.get('big'):
        with case.clause('sensitivities'):
            out = f.compute_sensitivities(sim.copy())
            case.close(float(out[0]), want, rtol=1e-9, what='score of compute_sensitivities (large problem)')
            case.equal(np.shape(out[1]), sim.shape, 'sensitivities shape (large problem)', kind='shape')
        return

    with case.clause('sensitivities'):
        out = f.compute_sensitivities(sim.copy())
        if len(out) == 2 and np.shape(out[1]) == sim.shape and not np.ma.is_masked(out[1]) \
                and np.all(np.isfinite(np.asarray(out[1], dtype=float))) and np.isfinite(float(out[0])):
            g0 = (float(out[0]), np.asarray(out[1], dtype=float).copy())
        want_g = rf.filter_grad(parts, obs, sim)
        # the score is compared with chi's own value (the reference value is the subject of clause 'value');
        # here the derivative is the subject
        if v0 is not None:
            case.close(float(out[0]), v0, rtol=max(1e-12, 100.0 * _COND[0]), what='score of compute_sensitivities vs compute_log_likelihood')
        else:
            case.close(float(out[0]), want, rtol=max(1e-9, 100.0 * _COND[0]), what='score of compute_sensitivities')
        _sens(case, f, sim, float(out[0]), want_g, 'reference', rtol_g=1e-7)

    # the measurement arrays handed to the constructors and the simulated measurements are the caller's: they keep
    # their values (the same data are used to build other filters)
    with case.clause('inputs_unchanged'):
        for k, (given, pristine) in enumerate(rf.inputs_of(f)):
            case.true(np.array_equal(given, pristine, equal_nan=True),
                      'the observation array handed to the constructor of part %d (%s) was modified: %r -> %r' % (
                          k, parts[k]['kind'], pristine.ravel()[:4].tolist(), given.ravel()[:4].tolist()),
                      kind='input_modified')
        a = sim.copy()
        f.compute_log_likelihood(a)
        f.compute_sensitivities(a)
        case.true(np.array_equal(a, sim, equal_nan=True), 'the simulated measurements passed in were modified',
                  kind='input_modified')
    rf.GIVEN.clear()

    # whole-number measurements typed as integers (int arrays, nested lists of Python ints) are the same data
    if not np.any(np.isnan(obs)):
        with case.clause('integer_observations'):
            obs_i = np.maximum(1, np.round(np.abs(obs)))
            f_f = rf.build(parts, obs_i, composed)
            v_f = f_f.compute_log_likelihood(sim.copy())
            for label, kwb in (('int arrays', dict(dtype=np.int64)), ('nested lists of Python ints', dict(dtype=np.int64,
                                                                                                          as_list=True))):
                f_i = rf.build(parts, obs_i, composed, **kwb)
                v_i = f_i.compute_log_likelihood(sim.copy())
                if np.ma.is_masked(v_f) or not np.isfinite(float(v_f)):
                    continue
                case.close(float(v_i), float(v_f), rtol=1e-12, what='log-likelihood for whole-number measurements given as '
                                                                    '%s vs as floats' % label)
                s_i = f_i.compute_sensitivities(sim.copy())
                s_f = f_f.compute_sensitivities(sim.copy())
                case.close(np.asarray(s_i[1], dtype=float), np.asarray(s_f[1], dtype=float), rtol=1e-12,
                           what='sensitivities for whole-number measurements given as %s vs as floats' % label)
        rf.GIVEN.clear()

    if v0 is None and g0 is None:
        return

    # ---- results handed out earlier keep their values when the filter is evaluated again -------------------
    with case.clause('results_stable'):
        r1 = f.compute_sensitivities(sim.copy())
        keep = np.array(r1[1], dtype=float, copy=True)
        sim_b = sim * 1.02 + 0.03
        f.compute_sensitivities(sim_b.copy())
        f.compute_log_likelihood(sim_b.copy())
        case.true(np.array_equal(np.asarray(r1[1], dtype=float), keep, equal_nan=True),
                  'the sensitivities returned by an earlier call changed after a later call with other simulated values '
                  'of the same shape', kind='result_modified')

    # ---- one filter, simulated populations of different sizes ------------------------
    # (nothing computed for one set of simulated individuals may carry over to the next)
    with case.clause('other_sample_size'):
        # (the mixture filters need a multiple of their number of kernels)
        m = int(np.lcm.reduce([int(p.get('nk') or 1) for p in parts]))
        reps = -(-m // sim.shape[0])
        extra = np.concatenate([sim * (1.03 + 0.01 * r) + 0.02 for r in range(reps)])[:m]
        for label, sim2 in (('%d more simulated individual(s)' % m, np.concatenate([sim, extra])),
                            ('twice as many simulated individuals', np.concatenate([sim, sim * 1.03 + 0.02]))):
            want2 = float(np.real(rf.filter_loglik(parts, obs, sim2)))
            if not np.isfinite(want2):
                continue
            _value(case, f, sim2, want2, 'log-likelihood on the same filter with %s' % label)
            sc2, g2 = f.compute_sensitivities(sim2.copy())
            case.close(float(sc2), want2, rtol=max(1e-9, 100.0 * _COND[0]), what='score of compute_sensitivities on the same filter with %s' % label)
            case.equal(np.shape(g2), sim2.shape, 'sensitivities shape with %s' % label, kind='shape')
        _same_as_base(case, f, sim, v0, g0, 'the first simulated population again')

    # ---- a rejected order leaves the filter as it was ----------------------------------
    if n_times >= 2:
        with case.clause('rejected_order'):
            for label, bad in (('a repeated index', [0] * 2 + list(range(2, n_times))),
                               ('a wrong length', list(range(n_times - 1, -1, -1)) + [0])):
                try:
                    f.sort_times(np.array(bad, dtype=int))
                except ValueError:
                    pass
                else:
                    case.fail('accepted', 'sort_times accepted an order with %s: %r' % (label, bad))
            case.equal(int(f.n_times()), n_times, 'n_times after rejected sort_times calls')
            _same_as_base(case, f, sim, v0, g0, 'after sort_times calls that were rejected')

    # ---- missing-data invariance -------------------------------------------
    if s['pad']:
        with case.clause('pad'):
            rows = list(obs)
            for pos in sorted(s['pad'], reverse=True):
                rows.insert(pos, np.full((n_obs, n_times), np.nan))
            _same_as_base(case, rf.build(parts, np.array(rows), composed), sim, v0, g0, 'padded with all-NaN individuals')

    if np.any(np.isnan(obs)):
        with case.clause('compact'):
            small = rf.compact(obs)
            _same_as_base(case, rf.build(parts, small, composed), sim, v0, g0, 'missing values removed (smaller data)')

    if s['drop']:
        with case.clause('nan_remove'):
            blank = obs.copy()
            for i, r, j in s['drop']:
                blank[i, r, j] = np.nan
            fa = rf.build(parts, blank, composed)
            fb = rf.build(parts, rf.compact(blank), composed)
            va = float(fa.compute_log_likelihood(sim.copy()))
            _value(case, fb, sim, va, 'measurement replaced by NaN vs measurement removed')
            sa, ga = fa.compute_sensitivities(sim.copy())
            _sens(case, fb, sim, float(sa), np.asarray(ga, dtype=float), 'replaced by NaN vs removed', rtol_g=1e-8)

    if n_ids >= 2 and s['perm'] != list(range(n_ids)):
        with case.clause('perm_ids'):
            _same_as_base(case, rf.build(parts, obs[s['perm']], composed), sim, v0, g0, 'measured individuals permuted')

    # ---- time orders ---------------------------------------------------------
    def gperm(cols):
        return None if g0 is None else (g0[0], g0[1][:, :, cols])

    def sort_clause(name, make, first=True):
        """make() -> (filter, columns of the original time axis it currently expects)."""
        cols = np.arange(n_times)
        fs = None
        if first:
            with case.clause(name):
                fs, cols = make()
                o1 = np.array(s['order1'], dtype=int)
                fs.sort_times(o1.copy())
                cols = cols[o1]
                case.equal(int(fs.n_times()), n_times, 'n_times after sort_times')
                _same_as_base(case, fs, sim[:, :, cols], v0, gperm(cols),
                              'sort_times(order1) with reordered simulated values')
                # the identity order afterwards (what a filter posterior does with the filter it is given when the
                # times it gets are sorted already) leaves everything as it is
                fs.sort_times(np.arange(n_times))
                _same_as_base(case, fs, sim[:, :, cols], v0, gperm(cols),
                              'sort_times(order1), then sort_times(identity), with reordered simulated values')
        else:
            with case.clause(name):
                fs, cols = make()
                _same_as_base(case, fs, sim[:, :, cols], v0, gperm(cols),
                              'parts sorted before composing, simulated values reordered block-wise')
        if s['order2'] is not None and fs is not None and name not in [fl['clause'] for fl in case.fails]:
            with case.clause(name + '_twice'):
                o2 = np.array(s['order2'], dtype=int)
                fs.sort_times(o2.copy())
                cols = cols[o2]
                _same_as_base(case, fs, sim[:, :, cols], v0, gperm(cols),
                              'further sort_times(order2) with reordered simulated values')

    ident = np.arange(n_times)
    sort_clause('sort', lambda: (rf.build(parts, obs, composed), ident))

    # ---- splitting the time axis into a composed filter ------------------------
    fine = []
    groups = []
    for p, sizes in zip(parts, s['refine']):
        grp = []
        for nt in sizes:
            q = dict(p)
            q['nt'] = nt
            grp.append(q)
        fine += grp
        groups.append(grp)

    def build_split():
        if not s['nest']:
            return rf.build(fine, obs, True)
        # composition of compositions: every part of the subject becomes a composed filter
        import chi
        inner = []
        j0 = 0
        for p, grp in zip(parts, groups):
            inner.append(rf.build(grp, obs[:, :, j0:j0 + p['nt']], True))
            j0 += p['nt']
        return chi.ComposedPopulationFilter(inner)

    with case.clause('split'):
        _same_as_base(case, build_split(), sim, v0, g0, 'time axis split into a composed filter')
    sort_clause('split_sort', lambda: (build_split(), ident))

    # ---- parts sorted individually, then composed (and sorted again as a whole) ----
    def build_inner_sorted():
        import chi
        fs, cols = [], []
        j0 = 0
        for q in fine:
            local = [o - j0 for o in s['order1'] if j0 <= o < j0 + q['nt']]
            fq = rf.build([q], obs[:, :, j0:j0 + q['nt']], False)
            fq.sort_times(np.array(local, dtype=int))
            fs.append(fq)
            cols += [j0 + k for k in local]
            j0 += q['nt']
        return chi.ComposedPopulationFilter(fs), np.array(cols, dtype=int)

    if n_times >= 2:
        sort_clause('inner_sort', build_inner_sorted, first=False)

    # ---- composed filters sorted individually, then composed again (composition of sorted compositions) ----
    def build_nested_sorted():
        import chi
        inner, cols = [], []
        j0 = 0
        for p, grp in zip(parts, groups):
            local = [o - j0 for o in s['order1'] if j0 <= o < j0 + p['nt']]
            fi = rf.build(grp, obs[:, :, j0:j0 + p['nt']], True)
            fi.sort_times(np.array(local, dtype=int))
            inner.append(fi)
            cols += [j0 + k for k in local]
            j0 += p['nt']
        return chi.ComposedPopulationFilter(inner), np.array(cols, dtype=int)

    if n_times >= 2:
        sort_clause('nested_inner_sort', build_nested_sorted, first=False)

    if len(parts) > 1:
        with case.clause('additive'):
            tot = 0.0
            j0 = 0
            for p in parts:
                fp = rf.build([p], obs[:, :, j0:j0 + p['nt']], False)
                tot += float(fp.compute_log_likelihood(sim[:, :, j0:j0 + p['nt']].copy()))
                j0 += p['nt']
            if v0 is not None:
                case.close(v0, tot, rtol=max(1e-9, 100.0 * _COND[0]), what='composed value vs sum of its parts')


RULE += (' Classes and clauses added in later rounds of the seeded-change protocol (DESIGN 9.4) are named in REQUIRED '
         'and in seeded/HISTORY.json; the evidence counts every one of them under classes.')
