"""C19 - Evaluations are pure: no hidden state, no input mutation, any process."""
import copy

import math

import numpy as np
from hypothesis import strategies as st

from vf import core, gen, ref, popgen, llbuild, hbuild, sbmlgen

ID = 'C19'
BUDGET = {'quick': 220, 'thorough': 6000}
RULE = (
    'A history (program) over a family of objects derived from the SAME user models: two individual likelihoods over '
    'the same mechanistic/error-model objects, a posterior, a hierarchical likelihood and posterior, a predictive and '
    'population predictive model, reduced wrappers (error / mechanistic / population), the user\'s own population '
    'model, a population filter and a filter posterior (analytic back-end), or two likelihoods, a posterior, a '
    'predictive model and the user\'s model on a DOSED generated PKPD model through the reference integrator. Steps: '
    'evaluate (value / pointwise / value-with-sensitivities / seeded sample / simulate) any object at one of three '
    'argument sets, in any interleaving; mutate the user\'s mechanistic model (outputs, names, sensitivities, regimen, '
    'route) or error models (names, fixed values) after construction; finally evaluate batches sequentially and with '
    'pints.ParallelEvaluator (2-3 worker processes). Oracle: the first result of each (object, call, arguments) '
    '(exact equality), deep copies of every returned array and of every input, and a pristine twin family built from '
    'separately constructed user models. Non-trivial: >=1 gradient->value alternation on a dosed or reduced object '
    'and >=1 user-model mutation. Distinct = (back-end, structure, program).')
RULE += (' ' + 'Added: a filter posterior and a dataset pointwise evaluation with param_map in the analytic family; gradients returned during in-place rounds stay unchanged; parameter names of every derived object after the program.')
ASSUMPTIONS = [
    'exact repeatability is demanded (rtol 1e-12): the reference integrator and numpy are deterministic',
    'wrappers that are documented to hold a REFERENCE to the user model (ReducedMechanisticModel, ReducedErrorModel, '
    'ReducedPopulationModel, HierarchicalLogLikelihood -> population model) are not required to be independent of later '
    'changes to that model; likelihoods, predictive models and controllers are',
    'the OS schedules the worker processes of pints.ParallelEvaluator; the harness generates the batches and worker '
    'counts, it does not control interleavings inside the evaluator']
REQUIRED = ['first_evaluation_at_special_point', 'filter_sort_evaluate_sort', 'independent_after_mutation', 'backend:analytic', 'backend:pkpd', 'mutation', 'grad_then_value', 'parallel', 'reduced_call', 'sample_call',
            'inplace_updates']
MUT_ANALYTIC = ['m_outputs', 'm_names', 'm_sens', 'em_names', 'em_refix']
MUT_PKPD = ['m_regimen', 'm_admin', 'm_outputs', 'm_sens', 'em_names']


@st.composite
def _spec(draw):
    pk = gen.chance(draw, 0.35)
    n_steps = draw(st.integers(6, 25))
    steps = [[draw(st.integers(0, 40)), draw(st.integers(0, 5)), draw(st.integers(0, 2))] for _ in range(n_steps)]
    n_mut = draw(st.integers(0, 3))
    muts = sorted([[draw(st.integers(1, n_steps)), draw(st.integers(0, 4))] for _ in range(n_mut)])
    par = None
    if gen.chance(draw, 0.3):
        par = dict(workers=draw(st.integers(2, 3)), n=draw(st.integers(2, 5)))
    if pk:
        ms = sbmlgen.draw_model(draw, max_states=3)
        admin = dict(comp=draw(st.integers(0, len(ms['comps']) - 1)), direct=draw(st.booleans()))
        names = sbmlgen.published_parameters(ms, admin)
        sq = sbmlgen.state_qnames(ms)
        n_out = draw(st.integers(1, min(2, len(sq))))
        outs = list(draw(st.permutations(sq))[:n_out])
        ems = [dict(kind=draw(st.sampled_from(['gauss', 'cm'])), fixed=None) for _ in range(n_out)]
        lls = []
        for _ in range(2):
            times, mode, tied = llbuild.draw_time_grids(draw, n_out, None, False)
            times = [[gen.r6(t * 0.2) for t in ts] for ts in times]
            obs = [draw(gen.vec(gen.logu(0.05, 5.0), len(t))) for t in times]
            lls.append(dict(n_out=n_out, n_par=len(names), ems=ems, times=times, obs=obs, tmode=mode, tied=tied))
        reg = dict(dose=draw(gen.logu(0.5, 5.0)), start=draw(gen.logu(0.05, 1.0)), duration=draw(gen.logu(0.02, 0.3)),
                   period=draw(gen.logu(0.5, 2.0)), num=draw(st.integers(1, 3)))
        nsig = sum(llbuild.ll_n_sigma(lls[0]))
        args = [gen.distinct(draw(gen.vec(gen.logu(0.1, 1.5), len(names)))) + draw(gen.vec(gen.logu(0.1, 2.0), nsig))
                for _ in range(3)]
        prior = llbuild.draw_prior(draw, len(args[0]), args[0])
        return dict(backend='pkpd', ms=ms, admin=admin, outputs=outs, lls=lls, reg=reg, args=args, prior=prior,
                    steps=steps, muts=muts, par=par, seed=draw(st.integers(0, 2 ** 31 - 1)))
    h = hbuild.draw_hier(draw, max_ids=3, max_parts=3, p_nested=0.0, with_prior=True)
    if h['n_ids'] == 1:
        h['lls'] = h['lls'] + [llbuild.draw_ll_like(draw, h['lls'][0])]
    ll_args = [llbuild.draw_ll_params(draw, h['lls'][0]) for _ in range(3)]
    ll_prior = llbuild.draw_prior(draw, len(ll_args[0]), ll_args[0])
    # two further hierarchical vectors: scaled copies that stay in support
    vecs = [h['vec']]
    for f in (1.03, 0.98):
        nb = ref.hier_layout(h['pop'], h['n_ids'])[0]
        vecs.append([gen.r6(v * f) for v in h['vec'][:nb]] + list(h['vec'][nb:]))
    return dict(backend='analytic', h=h, ll_args=ll_args, ll_prior=ll_prior, hvecs=vecs, steps=steps, muts=muts,
                par=par, seed=draw(st.integers(0, 2 ** 31 - 1)))


def strategy(tier):
    return _spec()


def classify(spec):
    labs = ['backend:' + spec['backend']]
    if spec['muts']:
        labs.append('mutation')
    if spec['par']:
        labs.append('parallel')
    return labs


def nontrivial(spec):
    return bool(spec['muts']) and len(spec['steps']) >= 8


def structure(spec):
    if spec['backend'] == 'pkpd':
        base = ['pkpd', sbmlgen.structure(spec['ms']), spec['admin'], spec['outputs']]
    else:
        base = ['analytic', hbuild.structure(spec['h'])]
    return base + [spec['steps'], spec['muts'], spec['par']]


# ---------------------------------------------------------------------------------------------------
class Family(object):
    """User models + everything derived from them. `calls` lists (name, function(arg index))."""
    def __init__(self, spec):
        import chi
        self.spec = spec
        self.inputs = []          # (label, object passed to chi, deep copy)
        if spec['backend'] == 'analytic':
            self._analytic(chi)
        else:
            self._pkpd(chi)

    def _keep(self, label, obj):
        self.inputs.append((label, obj, copy.deepcopy(obj)))
        return obj

    def _analytic(self, chi):
        s = self.spec
        h = s['h']
        ll0, ll1 = h['lls'][0], h['lls'][1]
        self.M = llbuild.build_model(ll0)
        self.ems = llbuild.build_error_models(ll0)
        n_ids = len(h['lls']) if h['n_ids'] == 1 else h['n_ids']
        data = []
        for ll in h['lls']:
            obs = [self._keep('obs', np.array(o, dtype=float)) for o in ll['obs']]
            times = [self._keep('times', np.array(t, dtype=float)) for t in ll['times']]
            data.append((obs, times))
        self.L1 = chi.LogLikelihood(self.M, self.ems, data[0][0], data[0][1])
        self.L2 = chi.LogLikelihood(self.M, self.ems, data[1][0], data[1][1])
        self.P1 = chi.LogPosterior(self.L1, llbuild.build_prior(s['ll_prior']))
        self.PM = chi.PredictiveModel(self.M, self.ems)
        xs = [self._keep('x', np.array(a, dtype=float)) for a in s['ll_args']]
        hx = [self._keep('hx', np.array(v, dtype=float)) for v in s['hvecs']]
        tt = self._keep('sample times', np.array([2.0, 0.5, 1.0]))
        calls = [
            ('L1.call', lambda k: self.L1(xs[k])), ('L1.pointwise', lambda k: self.L1.compute_pointwise_ll(xs[k])),
            ('L1.S1', lambda k: self.L1.evaluateS1(xs[k])), ('L2.call', lambda k: self.L2(xs[k])),
            ('L2.S1', lambda k: self.L2.evaluateS1(xs[k])), ('P1.call', lambda k: self.P1(xs[k])),
            ('P1.S1', lambda k: self.P1.evaluateS1(xs[k])),
            ('P1.initial', lambda k: self.P1.sample_initial_parameters(n_samples=2, seed=k)),
            ('PM.sample', lambda k: self.PM.sample(xs[k], tt, n_samples=3, seed=s['seed'] + k, return_df=False)),
            ('M.simulate', lambda k: self.M.simulate(xs[k][:ll0['n_par']], np.array([0.5, 1.0, 2.0]))),
        ]
        # evaluations at a point where the mechanistic model cannot be solved (chi returns -infinity with a warning): the
        # rejected evaluation leaves no trace in later ones
        def failing(fn):
            def run_(k):
                import warnings
                from vf import analytic_model
                bad = xs[k].copy()
                bad[0] = -abs(bad[0]) - 1.0
                analytic_model.FAIL_BELOW[0] = 0.0
                try:
                    with warnings.catch_warnings():
                        warnings.simplefilter('ignore')
                        return fn(bad)
                finally:
                    analytic_model.FAIL_BELOW[0] = None
            return run_
        calls += [('L1.S1_failing', failing(lambda b: self.L1.evaluateS1(b))),
                  ('L1.call_failing', failing(lambda b: self.L1(b))),
                  ('P1.S1_failing', failing(lambda b: self.P1.evaluateS1(b)))]
        # pointwise evaluation over a posterior dataset that stores the parameters under other names (param_map)
        import xarray as xr
        lnames = [str(n) for n in self.L1.get_parameter_names()]
        pmap = {n: 'stored %d' % j for j, n in enumerate(lnames) if j % 2 == 0}
        dsets = [xr.Dataset({pmap.get(n, n): xr.DataArray(np.array([[xs[k][j], xs[(k + 1) % 3][j]]]), dims=['chain', 'draw'],
                                                          coords={'chain': [0], 'draw': [0, 1]})
                             for j, n in enumerate(lnames)}) for k in range(3)]
        calls.append(('L1.pointwise_dataset',
                      lambda k: np.asarray(chi.compute_pointwise_loglikelihood(self.L1, dsets[k], param_map=dict(pmap)).values)))
        # a posterior predictive model over a dataset with two individuals: the argument selects the individual (and
        # the seed); nothing derived from one individual's samples may be served for the other
        pnames = [str(n) for n in self.PM.get_parameter_names()]
        po_vals = np.array([[[xs[0][j], xs[2][j]], [xs[1][j], xs[1][j] * 1.1]] for j in range(len(pnames))])
        po_ds = xr.Dataset({n: xr.DataArray(po_vals[j][np.newaxis], dims=['chain', 'draw', 'individual'],
                                            coords={'chain': [0], 'draw': [0, 1], 'individual': ['a', 'b']})
                            for j, n in enumerate(pnames)})
        self.PO = chi.PosteriorPredictiveModel(self.PM, po_ds)
        calls.append(('PO.sample', lambda k: self.PO.sample(tt, n_samples=3, individual=['a', 'b', 'a'][k],
                                                            seed=s['seed'] + 7 * k)[['ID', 'Time', 'Value']]))
        self.derived_independent = {'L1.call', 'L1.pointwise', 'L1.S1', 'L2.call', 'L2.S1', 'P1.call', 'P1.S1', 'P1.initial',
                                    'PM.sample', 'L1.pointwise_dataset', 'L1.S1_failing', 'L1.call_failing', 'P1.S1_failing'}
        if h['n_ids'] >= 2:
            # hierarchical objects over freshly built likelihoods of the same user models
            lls = [chi.LogLikelihood(self.M, self.ems, d[0], d[1]) for d in data]
            if h['ids'] is not None:
                for L, i in zip(lls, h['ids']):
                    L.set_id(i)
            self.pop = ref.build_pop(h['pop'], hbuild.ll_param_names(h), h['n_ids'])
            cov = None if h['cov'] is None else self._keep('cov', np.array(h['cov'], dtype=float))
            self.H = chi.HierarchicalLogLikelihood(lls, self.pop, covariates=cov)
            self.HP = chi.HierarchicalLogPosterior(self.H, llbuild.build_prior(h['prior']))
            self.PPM = chi.PopulationPredictiveModel(chi.PredictiveModel(self.M, self.ems), self.pop)
            nb = ref.hier_layout(h['pop'], h['n_ids'])[0]
            calls += [
                ('H.call', lambda k: self.H(hx[k])), ('H.S1', lambda k: self.H.evaluateS1(hx[k])),
                ('HP.call', lambda k: self.HP(hx[k])), ('HP.S1', lambda k: self.HP.evaluateS1(hx[k])),
                ('pop.sample', lambda k: self.pop.sample(hx[k][nb:], n_samples=3, seed=s['seed'] + k,
                                                         covariates=None if cov is None else cov[0])),
                ('PPM.sample', lambda k: self.PPM.sample(hx[k][nb:], tt, n_samples=h['n_ids'], seed=s['seed'] + k,
                                                         return_df=False, covariates=cov)),
            ]
            self.derived_independent |= {'H.call', 'H.S1', 'HP.call', 'HP.S1', 'PPM.sample'}
        # seeded initial points of a hierarchical posterior whose priors have positive support (the seeds are 0, 1, 2:
        # zero is a seed like any other)
        import pints
        lls2 = [chi.LogLikelihood(self.M, self.ems, d[0], d[1]) for d in data[:2]]
        nd2 = lls2[0].n_parameters()
        self.HP2 = chi.HierarchicalLogPosterior(
            chi.HierarchicalLogLikelihood(lls2, chi.LogNormalModel(n_dim=nd2)),
            pints.ComposedLogPrior(*[pints.LogNormalLogPrior(0.0, 0.3) for _ in range(2 * nd2)]))
        calls.append(('HP2.initial', lambda k: self.HP2.sample_initial_parameters(n_samples=2, seed=k)))
        self.derived_independent.add('HP2.initial')
        # reduced error model over one of the user's error models (reference semantics)
        em0 = ref.em_class(ll0['ems'][0]['kind'])()
        npar = ref.EM_NPAR[ll0['ems'][0]['kind']]
        self.RE = chi.ReducedErrorModel(em0)
        ybar = self._keep('ybar', np.array([1.0, 2.5, 0.7]))
        yobs = self._keep('yobs', np.array([1.2, 2.0, 0.9]))
        S = self._keep('S', np.array([[1.0, 0.5], [0.2, -1.0], [0.3, 0.3]]))
        if npar == 2:
            self.RE.fix_parameters({em0.get_parameter_names()[0]: 0.4})
        sig = [self._keep('sig', np.array([0.3 + 0.2 * k] * (1 if npar == 2 else npar))) for k in range(3)]
        calls += [
            ('RE.loglik', lambda k: self.RE.compute_log_likelihood(sig[k], ybar, yobs)),
            ('RE.pointwise', lambda k: self.RE.compute_pointwise_ll(sig[k], ybar, yobs)),
            ('RE.sens', lambda k: self.RE.compute_sensitivities(sig[k], ybar, S, yobs)),
            ('RE.sample', lambda k: self.RE.sample(sig[k], ybar, n_samples=2, seed=s['seed'] + k)),
        ]
        # reduced population model around a pooled + Gaussian composite (shared value buffer)
        rp = chi.ReducedPopulationModel(chi.ComposedPopulationModel([chi.PooledModel(), chi.GaussianModel()]))
        rp.set_n_ids(2)
        rp.fix_parameters({rp.get_parameter_names()[1]: 1.5})
        self.RP = rp
        rth = [self._keep('rth', np.array([1.0 + k, 0.5 + 0.1 * k])) for k in range(3)]
        robs = [self._keep('robs', np.array([[1.0 + k, 1.2], [1.0 + k, 1.9]])) for k in range(3)]
        calls += [
            ('RP.loglik', lambda k: self.RP.compute_log_likelihood(rth[k], robs[k])),
            ('RP.sens', lambda k: self.RP.compute_sensitivities(rth[k], robs[k])),
            ('RP.sample', lambda k: self.RP.sample(rth[k], n_samples=2, seed=s['seed'] + k)),
            ('RP.indiv', lambda k: self.RP.compute_individual_parameters(rth[k], robs[k])),
        ]
        # composed model of non-centred parts, fluctuations given in the documented flattened form
        self.CPM = chi.ComposedPopulationModel([chi.GaussianModel(centered=False), chi.LogNormalModel(centered=False)])
        self.CPM.set_n_ids(3)
        cth = [self._keep('cth', np.array([1.0 + 0.1 * k, 0.2, 0.5, 0.3])) for k in range(3)]
        ceta = [self._keep('ceta', np.array([0.3 + k, -0.2, 1.1, 0.4, -0.7, 0.1 * k])) for k in range(3)]
        calls += [
            ('CPM.indiv_flat', lambda k: self.CPM.compute_individual_parameters(cth[k], ceta[k])),
            ('CPM.indiv_eta', lambda k: self.CPM.compute_individual_parameters(cth[k], ceta[k], return_eta=True)),
            ('CPM.loglik', lambda k: self.CPM.compute_log_likelihood(cth[k], ceta[k].reshape(3, 2))),
        ]
        # the non-centred models sampled directly (and through a reduced wrapper) with an integer seed
        self.GNC = chi.GaussianModel(n_dim=2, centered=False)
        self.LNC = chi.LogNormalModel(n_dim=1, centered=False)
        self.TNC = chi.TruncatedGaussianModel(n_dim=1)
        self.RNC = chi.ReducedPopulationModel(chi.GaussianModel(n_dim=2, centered=False))
        self.RNC.fix_parameters({self.RNC.get_parameter_names()[1]: 0.4})
        gth = [self._keep('gth', np.array([1.0 + 0.1 * k, 0.4, 0.3, 0.2])) for k in range(3)]
        calls += [
            ('GNC.sample', lambda k: self.GNC.sample(gth[k], n_samples=3, seed=s['seed'] + k)),
            ('LNC.sample', lambda k: self.LNC.sample(gth[k][[0, 2]], n_samples=3, seed=s['seed'] + k)),
            ('TNC.sample', lambda k: self.TNC.sample(gth[k][[0, 2]], n_samples=3, seed=s['seed'] + k)),
            ('RNC.sample', lambda k: self.RNC.sample(gth[k][[0, 2, 3]], n_samples=3, seed=s['seed'] + k)),
        ]
        # a pooled parameter with a covariate effect: the hierarchical (reduced) gradient with upstream sensitivities
        self.CP = chi.CovariatePopulationModel(chi.PooledModel(n_dim=1), chi.LinearCovariateModel(n_cov=1))
        cp_cov = self._keep('cp cov', np.array([[1.0], [2.0], [3.0]]))
        cp_th = [self._keep('cp theta', np.array([1.0 + 0.1 * k, 0.5])) for k in range(3)]
        cp_x = [self._keep('cp x', (th[0] + th[1] * cp_cov[:, 0])[:, np.newaxis].copy()) for th in cp_th]
        cp_u = self._keep('cp upstream', np.array([[0.3], [0.2], [-0.4]]))
        calls += [
            ('CP.sens_reduced', lambda k: self.CP.compute_sensitivities(cp_th[k], cp_x[k], covariates=cp_cov,
                                                                        dlogp_dpsi=cp_u, reduce=True)),
            ('CP.sens', lambda k: self.CP.compute_sensitivities(cp_th[k], cp_x[k], covariates=cp_cov, dlogp_dpsi=cp_u)),
        ]
        # a fully pooled composed model that a hierarchical likelihood over three individuals uses (by reference), also
        # evaluated directly for a sub-group of two: evaluating it does not reconfigure it
        from vf.analytic_model import AnalyticModel
        self.CPP = chi.ComposedPopulationModel([chi.PooledModel(n_dim=1), chi.PooledModel(n_dim=1)])
        lls3 = [chi.LogLikelihood(AnalyticModel(1, 1), [chi.GaussianErrorModel()], [np.array([1.0 + 0.2 * i, 1.4])],
                                  [np.array([0.5, 1.5])]) for i in range(3)]
        self.H3 = chi.HierarchicalLogLikelihood(lls3, self.CPP)
        h3x = [self._keep('h3x', np.array([0.9 + 0.1 * k, 0.6])) for k in range(3)]
        calls += [
            ('H3.call', lambda k: self.H3(h3x[k])),
            ('H3.S1', lambda k: self.H3.evaluateS1(h3x[k])),
            ('CPP.sens_subgroup', lambda k: self.CPP.compute_sensitivities(h3x[k], np.tile(h3x[k], (2, 1)), reduce=True)),
            ('CPP.n_ids', lambda k: np.array([float(self.CPP.n_ids())])),
        ]
        # reduced pooled model (the individual values ARE the parameters held in the shared buffer)
        rp2 = chi.ReducedPopulationModel(chi.PooledModel(n_dim=2))
        rp2.fix_parameters({rp2.get_parameter_names()[0]: 7.0})
        self.RP2 = rp2
        r2 = [self._keep('r2', np.array([1.0 + k])) for k in range(3)]
        calls += [
            ('RP2.sample', lambda k: self.RP2.sample(r2[k], n_samples=2, seed=s['seed'] + k)),
            ('RP2.sample1', lambda k: self.RP2.sample(r2[k])),
            ('RP2.indiv', lambda k: self.RP2.compute_individual_parameters(r2[k], np.zeros((1, 2)))),
        ]
        # reduced mechanistic model around a copy of the user's model
        self.RM = chi.ReducedMechanisticModel(self.M.copy())
        n_par = ll0['n_par']
        if n_par >= 2:
            self.RM.fix_parameters({self.M.parameters()[0]: 0.8})
        rmx = [self._keep('rmx', np.array(a[1 if n_par >= 2 else 0:n_par], dtype=float)) for a in s['ll_args']]
        calls += [('RM.simulate', lambda k: self.RM.simulate(rmx[k], np.array([0.5, 1.5])))]
        # a population filter and filter posterior
        filt_obs = self._keep('filter obs', np.array([[[1.0, 2.0]], [[1.5, np.nan]], [[0.7, 2.4]]]))
        self.F = chi.GaussianKDEFilter(filt_obs)
        sim = [self._keep('sim', np.array([[[1.1 + 0.1 * k, 2.1]], [[0.8, 1.7 + 0.1 * k]], [[1.4, 2.6]]])) for k in range(3)]
        calls += [('F.loglik', lambda k: self.F.compute_log_likelihood(sim[k])),
                  ('F.sens', lambda k: self.F.compute_sensitivities(sim[k]))]
        for tag, cls in (('FG', chi.GaussianFilter), ('FL', chi.LogNormalFilter), ('FLK', chi.LogNormalKDEFilter)):
            f = cls(self._keep('filter obs ' + tag, filt_obs.copy()))
            setattr(self, tag, f)
            calls += [(tag + '.loglik', lambda k, f=f: f.compute_log_likelihood(sim[k])),
                      (tag + '.sens', lambda k, f=f: f.compute_sensitivities(sim[k]))]
        # filter posterior over the user's mechanistic model (simulated individuals are parameters of the posterior)
        n_out = ll0['n_out']
        f_obs = self._keep('filter posterior obs', np.array(
            [[[0.8 + 0.3 * i + 0.2 * o + 0.1 * t for t in range(3)] for o in range(n_out)] for i in range(4)]))
        f_times = self._keep('filter posterior times', np.array([0.5, 1.0, 2.0]))
        self.FP = chi.PopulationFilterLogPosterior(
            population_filter=chi.GaussianFilter(f_obs), times=f_times, mechanistic_model=self.M,
            population_model=chi.GaussianModel(n_dim=n_par),
            log_prior=llbuild.build_prior([dict(kind='lognormal', a=0.0, b=1.0)] * (2 * n_par + n_out)), n_samples=3)
        n_fp = self.FP.n_parameters()
        self.fpx = [self._keep('fpx', np.linspace(0.6, 1.4, n_fp) * (1 + 0.05 * k)) for k in range(3)]
        calls += [('FP.call', lambda k: self.FP(self.fpx[k])), ('FP.S1', lambda k: self.FP.evaluateS1(self.fpx[k]))]
        # (the filter posterior holds its own copy of the user's mechanistic model)
        self.derived_independent |= {'FP.call', 'FP.S1'}
        self.calls = calls
        self.named = [('L1', self.L1), ('L2', self.L2), ('P1', self.P1), ('PM', self.PM), ('FP', self.FP)]
        if hasattr(self, 'HP'):
            self.named += [('H', self.H), ('HP', self.HP), ('PPM', self.PPM)]

    def _pkpd(self, chi):
        from vf import simshim
        simshim.install()
        s = self.spec
        ms = s['ms']
        self.M = sbmlgen.build(ms, chi.PKPDModel)
        comp = ms['comps'][s['admin']['comp']]
        self.M.set_administration(comp['id'], amount_var='%s_amount' % comp['sid'], direct=s['admin']['direct'])
        self.M.set_outputs(list(s['outputs']))
        r = s['reg']
        self.M.set_dosing_regimen(dose=r['dose'], start=r['start'], duration=r['duration'], period=r['period'], num=r['num'])
        ll0 = s['lls'][0]
        self.ems = llbuild.build_error_models(ll0)
        data = []
        for ll in s['lls']:
            obs = [self._keep('obs', np.array(o, dtype=float)) for o in ll['obs']]
            times = [self._keep('times', np.array(t, dtype=float)) for t in ll['times']]
            data.append((obs, times))
        self.L1 = chi.LogLikelihood(self.M, self.ems, data[0][0], data[0][1])
        self.L2 = chi.LogLikelihood(self.M, self.ems, data[1][0], data[1][1])
        self.P1 = chi.LogPosterior(self.L1, llbuild.build_prior(s['prior']))
        self.PM = chi.PredictiveModel(self.M, self.ems)
        xs = [self._keep('x', np.array(a, dtype=float)) for a in s['args']]
        tt = self._keep('sample times', np.array([1.2, 0.3, 0.6]))
        n_par = ll0['n_par']
        self.calls = [
            ('L1.call', lambda k: self.L1(xs[k])), ('L1.pointwise', lambda k: self.L1.compute_pointwise_ll(xs[k])),
            ('L1.S1', lambda k: self.L1.evaluateS1(xs[k])), ('L2.call', lambda k: self.L2(xs[k])),
            ('L2.S1', lambda k: self.L2.evaluateS1(xs[k])), ('P1.call', lambda k: self.P1(xs[k])),
            ('P1.S1', lambda k: self.P1.evaluateS1(xs[k])),
            ('P1.initial', lambda k: self.P1.sample_initial_parameters(n_samples=2, seed=k)),
            ('PM.sample', lambda k: self.PM.sample(xs[k], tt, n_samples=2, seed=s['seed'] + k, return_df=False)),
            ('PM.regimen', lambda k: self.PM.get_dosing_regimen(final_time=2.0 + k)),
            ('M.simulate', lambda k: self.M.simulate(xs[k][:n_par], np.array([0.3, 0.9, 1.7]))),
        ]
        self.derived_independent = {'L1.call', 'L1.pointwise', 'L1.S1', 'L2.call', 'L2.S1', 'P1.call', 'P1.S1', 'P1.initial',
                                    'PM.sample', 'PM.regimen'}

    # -- mutations of the USER models -----------------------------------------------------------
    def mutate(self, which):
        import chi
        s = self.spec
        if s['backend'] == 'analytic':
            op = MUT_ANALYTIC[which % len(MUT_ANALYTIC)]
            ll0 = s['h']['lls'][0]
            if op == 'm_outputs':
                self.M.set_outputs(list(reversed(self.M.outputs()))[:1])
            elif op == 'm_names':
                self.M.set_parameter_names({self.M.parameters()[0]: 'renamed by user'})
            elif op == 'm_sens':
                self.M.enable_sensitivities(not self.M.has_sensitivities())
            elif op == 'em_names':
                em = self.ems[0]
                em.set_parameter_names(['user name %d' % j for j in range(em.n_parameters())])
            elif op == 'em_refix':
                em = self.ems[0]
                if isinstance(em, chi.ReducedErrorModel):
                    inner = em.get_error_model().get_parameter_names()
                    em.fix_parameters({inner[0]: 7.77})
                else:
                    em.set_parameter_names(['other %d' % j for j in range(em.n_parameters())])
            return op
        op = MUT_PKPD[which % len(MUT_PKPD)]
        ms = s['ms']
        if op == 'm_regimen':
            self.M.set_dosing_regimen(dose=9.0, start=0.1, duration=0.05)
        elif op == 'm_admin':
            comp = ms['comps'][0]
            self.M.set_administration(comp['id'], amount_var='%s_amount' % comp['sid'], direct=not s['admin']['direct'])
        elif op == 'm_outputs':
            self.M.set_outputs([sbmlgen.state_qnames(ms)[0]])
        elif op == 'm_sens':
            self.M.enable_sensitivities(not self.M.has_sensitivities())
        elif op == 'em_names':
            em = self.ems[0]
            em.set_parameter_names(['user name %d' % j for j in range(em.n_parameters())])
        return op


def _norm(res):
    """Normalise a result to a list of float arrays (tuples -> several arrays; frames -> values)."""
    import pandas as pd
    if res is None:
        return [np.array([np.nan])]
    if isinstance(res, pd.DataFrame):
        return [res.to_numpy(dtype=float)]
    if isinstance(res, tuple):
        out = []
        for r in res:
            out += _norm(r)
        return out
    return [np.array(res, dtype=float)]


def _same(case, got, want, what):
    case.equal(len(got), len(want), '%s: number of returned arrays' % what)
    for a, b in zip(got, want):
        case.close(a, b, rtol=1e-12, atol=0, what=what)


def _process_state():
    """Process-wide settings an evaluation has no business changing (copies)."""
    import warnings
    import os
    # (blanket filters as installed by warnings.simplefilter; message- or module-specific ones may legitimately be
    # added by a library that is imported lazily during the first evaluation)
    return dict(warnings_filters=[tuple(str(x) for x in f) for f in warnings.filters if f[1] is None and f[3] is None],
                numpy_errstate=dict(np.geterr()),
                numpy_printoptions={k: str(v) for k, v in np.get_printoptions().items()}, cwd=os.getcwd())


def _first_point_clause(case, seed):
    import chi
    from vf.analytic_model import AnalyticModel

    def build(which):
        lls = [chi.LogLikelihood(AnalyticModel(1, 2), [chi.GaussianErrorModel()], [np.array([1.0 + 0.2 * i, 1.4, 0.9])],
                                 [np.array([0.5, 1.5, 2.5])]) for i in range(2)]
        pop = [lambda: chi.ComposedPopulationModel([chi.GaussianModel(centered=False), chi.PooledModel(n_dim=2)]),
               lambda: chi.ComposedPopulationModel([chi.GaussianModel(n_dim=2, centered=False), chi.PooledModel()]),
               lambda: chi.ComposedPopulationModel([chi.LogNormalModel(centered=False), chi.GaussianModel(centered=False),
                                                    chi.PooledModel()])][which]()
        return chi.HierarchicalLogLikelihood(lls, pop)
    which = seed % 3
    n = build(which).n_parameters()
    nb = {0: 2, 1: 4, 2: 4}[which]
    top_identity = {0: [0.0, 1.0, 0.8, 0.5], 1: [0.0, 0.0, 1.0, 1.0, 0.5], 2: [0.0, 1.0, 0.0, 1.0, 0.5]}[which]
    later = np.concatenate([[0.4, -0.3, 0.8, 0.1][:nb], {0: [0.9, 0.4, 0.7, 0.3], 1: [0.8, 0.6, 0.3, 0.2, 0.4],
                                                            2: [-0.2, 0.3, 0.7, 0.2, 0.4]}[which]])
    firsts = [np.concatenate([[0.7, 0.9, 0.6, 0.8][:nb], top_identity]),
              np.concatenate([np.zeros(nb), later[nb:]]), np.ones(n)]
    fresh = build(which)
    want_v, (want_s, want_g) = fresh(later.copy()), build(which).evaluateS1(later.copy())
    case.close(want_s, want_v, rtol=1e-12, what='score of evaluateS1 vs plain evaluation on new objects')
    for k, x0 in enumerate(firsts):
        for mode in ('S1', 'call'):
            H = build(which)
            if mode == 'S1':
                H.evaluateS1(x0.copy())
            else:
                H(x0.copy())
            sc, g = H.evaluateS1(later.copy())
            what = 'composition %d, first evaluation (%s) at special point %d' % (which, mode, k)
            case.close(sc, want_s, rtol=1e-12, what='score of evaluateS1 afterwards (%s)' % what)
            case.close(np.asarray(g, dtype=float), np.asarray(want_g, dtype=float), rtol=1e-12,
                       what='gradient of evaluateS1 afterwards (%s)' % what)
            case.close(H(later.copy()), want_v, rtol=1e-12, what='plain evaluation afterwards (%s)' % what)
    case.labels.append('first_evaluation_at_special_point')


def check(case):
    import pints
    s = case.spec
    state0 = _process_state()
    with case.clause('construct'):
        fam = Family(s)
        twin = Family(s)          # pristine twin: its user models are never mutated
    if case.fails:
        return
    names = [n for n, _ in fam.calls]
    names_at_start = [(lab, [str(n) for n in obj.get_parameter_names()]) for lab, obj in getattr(fam, 'named', [])]
    recorded = {}                 # (call name, k) -> normalised first result (own copy)
    returned = []                 # (what, live returned arrays, copies at return time)
    last = None
    mutated = False
    mut_at = {}
    for pos, which in s['muts']:
        mut_at.setdefault(pos, []).append(which)

    def run(fa, ci, k):
        return fa.calls[ci % len(fa.calls)][1](k)

    for step, (ci, _, k) in enumerate(s['steps']):
        for which in mut_at.get(step, []):
            with case.clause('mutate_user_model'):
                op = fam.mutate(which)
                case.labels.append('mut:' + op)
                mutated = True
        name = names[ci % len(names)]
        if mutated and name not in fam.derived_independent:
            continue              # wrappers holding a reference / the user's own model may change
        what = '%s(arg %d) at step %d' % (name, k, step)
        if name.endswith('.S1') and last is not None:
            pass
        if last is not None and last[0].endswith('.S1') and name.endswith('.call') and last[0][:2] == name[:2]:
            case.labels.append('grad_then_value')
        if name.startswith('R'):
            case.labels.append('reduced_call')
        if name.endswith('sample'):
            case.labels.append('sample_call')
        with case.clause('repeatable'):
            res = run(fam, ci, k)
            live = res if isinstance(res, tuple) else (res,)
            norm = _norm(res)
            key = (name, k)
            if key not in recorded:
                recorded[key] = [a.copy() for a in norm]
                # first evaluation: the pristine twin must agree (same spec, separately built models)
                if not mutated or name in fam.derived_independent:
                    tw = _norm(run(twin, ci, k))
                    _same(case, norm, tw, '%s vs pristine twin' % what)
            else:
                _same(case, norm, recorded[key], '%s repeated' % what)
            returned.append((what, [r for r in live if isinstance(r, np.ndarray)],
                             [r.copy() for r in live if isinstance(r, np.ndarray)]))
        last = (name, k)
        if case.fails:
            return

    # after the user's own models were changed, every object that is documented to hold copies of them is evaluated once
    # more (whatever the random program happened to call): it still agrees with the pristine twin
    if mutated:
        with case.clause('independent_after_mutation'):
            for ci, (name, fn) in enumerate(fam.calls):
                if name in fam.derived_independent:
                    k = (s['seed'] + ci) % 3
                    _same(case, _norm(fn(k)), _norm(twin.calls[ci][1](k)),
                          '%s(arg %d) after the user models were changed vs pristine twin' % (name, k))
            case.labels.append('independent_after_mutation')
        if case.fails:
            return

    # The caller re-uses ONE argument buffer and updates it in place between evaluations (what
    # optimisers and samplers do): every result must depend on the buffer's current values only.
    with case.clause('inplace_argument_updates'):
        case.labels.append('inplace_updates')
        if s['backend'] == 'analytic':
            targets = [('L1', fam.L1, twin.L1, s['ll_args'][0]), ('P1', fam.P1, twin.P1, s['ll_args'][0])]
            if hasattr(fam, 'HP') and not mutated:
                targets.append(('HP', fam.HP, twin.HP, s['hvecs'][0]))
            if not mutated:
                targets.append(('FP', fam.FP, twin.FP, fam.fpx[0]))
        else:
            targets = [('L1', fam.L1, twin.L1, s['args'][0]), ('P1', fam.P1, twin.P1, s['args'][0])]
        for label, obj, tw, x0 in targets:
            buf = np.array(x0, dtype=float)
            for rnd in range(3):
                j = (s['seed'] + rnd) % len(buf)
                got_v = obj(buf)
                case.close(got_v, tw(buf.copy()), rtol=1e-12, what='%s(buffer) after %d in-place updates' % (label, rnd))
                sc, g = obj.evaluateS1(buf)
                sc2, g2 = tw.evaluateS1(buf.copy())
                case.close(sc, sc2, rtol=1e-12, what='%s.evaluateS1 score after %d in-place updates' % (label, rnd))
                case.close(g, g2, rtol=1e-12, what='%s.evaluateS1 gradient after %d in-place updates' % (label, rnd))
                if isinstance(g, np.ndarray):
                    returned.append(('%s.evaluateS1(buffer), round %d' % (label, rnd), [g], [g.copy()]))
                if not core.still_writeable(case, buf, '%s.__call__ / evaluateS1' % label):
                    break
                buf[j] *= 1.013          # in place: the same array object is passed again

    # the first evaluation of a hierarchical likelihood happens at a special point (the standard normal population
    # mu = 0, sigma = 1, where a non-centred Gaussian transformation is the identity; all fluctuations zero; all ones): what an
    # object returns later does not depend on where it was evaluated first
    if s['backend'] == 'analytic':
        with case.clause('first_evaluation_at_special_point'):
            _first_point_clause(case, s['seed'])

    # a filter that is sorted, evaluated, sorted again and evaluated: the evaluation in between changes nothing
    if s['backend'] == 'analytic':
        with case.clause('filter_sort_evaluate_sort'):
            import chi
            obs = np.array([[[1.0 + 0.3 * math.sin(1.0 + 1.7 * i + 0.9 * r + 2.3 * j) for j in range(4)] for r in range(2)]
                            for i in range(3)])
            sims = [np.array([[[1.1 + 0.4 * math.sin(0.5 + 1.3 * q + 0.7 * r + 1.9 * j + 0.37 * v) for j in range(4)]
                               for r in range(2)] for q in range(6)]) for v in range(2)]
            orders = [[2, 0, 3, 1], [1, 3, 0, 2], [3, 2, 1, 0]]
            o1, o2 = orders[s['seed'] % 3], orders[(s['seed'] + 1) % 3]
            makers = [lambda: chi.ComposedPopulationFilter([chi.GaussianFilter(obs[:, :, :2].copy()),
                                                            chi.GaussianFilter(obs[:, :, 2:].copy())]),
                      lambda: chi.ComposedPopulationFilter([chi.LogNormalFilter(obs[:, :, :1].copy()),
                                                            chi.GaussianFilter(obs[:, :, 1:3].copy()),
                                                            chi.GaussianKDEFilter(obs[:, :, 3:].copy())]),
                      lambda: chi.GaussianFilter(obs.copy())]
            for m, mk in enumerate(makers):
                A, B = mk(), mk()
                A.sort_times(np.array(o1))
                if (s['seed'] + m) % 2:
                    A.compute_log_likelihood(sims[0].copy())
                else:
                    A.compute_sensitivities(sims[0].copy())
                A.sort_times(np.array(o2))
                B.sort_times(np.array(o1))
                B.sort_times(np.array(o2))
                what = 'filter %d sorted by %r, evaluated, sorted by %r vs the same filter sorted twice without an evaluation ' \
                       'in between' % (m, o1, o2)
                case.close(A.compute_log_likelihood(sims[1].copy()), B.compute_log_likelihood(sims[1].copy()), rtol=1e-12,
                           what='log-likelihood of ' + what)
                ga, gb = A.compute_sensitivities(sims[1].copy()), B.compute_sensitivities(sims[1].copy())
                case.close(ga[0], gb[0], rtol=1e-12, what='score of ' + what)
                case.close(np.asarray(ga[1], dtype=float), np.asarray(gb[1], dtype=float), rtol=1e-12,
                           what='sensitivities of ' + what)
            case.labels.append('filter_sort_evaluate_sort')

    # the same for a covariate population model: one parameter array and one covariate array updated in place
    if hasattr(fam, 'CP'):
        with case.clause('inplace_argument_updates'):
            th_b = np.array([1.0, 0.5])
            cv_b = np.array([[1.0], [2.0], [3.0]])
            eta_b = np.zeros((3, 1))
            for rnd in range(4):
                got_p = np.asarray(fam.CP.compute_individual_parameters(th_b, eta_b, covariates=cv_b), dtype=float)
                want_p = np.asarray(twin.CP.compute_individual_parameters(th_b.copy(), eta_b.copy(), covariates=cv_b.copy()),
                                    dtype=float)
                case.close(got_p, want_p, rtol=1e-12, what='individual parameters of a covariate model after %d in-place '
                                                           'updates of the parameter / covariate arrays' % rnd)
                case.close(got_p[:, 0], th_b[0] + th_b[1] * cv_b[:, 0], rtol=1e-12,
                           what='theta + beta * covariate after %d in-place updates' % rnd)
                if rnd % 2 == 0:
                    th_b[rnd // 2] *= 1.07
                else:
                    cv_b[rnd // 2, 0] += 0.5

    with case.clause('returned_results_stable'):
        for what, live, copies in returned:
            for a, b in zip(live, copies):
                case.close(a, b, rtol=0, atol=0, what='array returned by %s changed after later calls' % what)

    # objects derived from the user's models report the same parameter names as after their construction
    with case.clause('names_unchanged'):
        for (lab, before), (_, obj) in zip(names_at_start, getattr(fam, 'named', [])):
            case.equal([str(n) for n in obj.get_parameter_names()], before,
                       'parameter names of %s after the program (evaluations only%s)' % (
                           lab, ', user models mutated' if mutated else ''))

    # one posterior predictive model asked for two individuals in turn: the order of the requests does not matter (the
    # pristine twin is asked in the opposite order)
    if hasattr(fam, 'PO') and not mutated:
        with case.clause('sibling_individuals'):
            f_call, t_call = dict(fam.calls)['PO.sample'], dict(twin.calls)['PO.sample']
            got = [_norm(f_call(k)) for k in (0, 1, 2)]
            want = dict((k, _norm(t_call(k))) for k in (1, 0, 2))       # the twin is asked for 'b' first
            for k in (0, 1, 2):
                _same(case, got[k], want[k], 'posterior predictive samples for individual %r (requested in the order a, b, a '
                      'vs b, a, a)' % ['a', 'b', 'a'][k])

    # evaluations do not reconfigure the process (warning filters, numpy error state, print options, directory)
    with case.clause('process_state_unchanged'):
        state1 = _process_state()
        for key in sorted(state0):
            case.true(state1[key] == state0[key], 'the process-wide %s changed during the evaluations: %r -> %r' % (
                key.replace('_', ' '), state0[key] if key != 'warnings_filters' else state0[key][:3],
                state1[key] if key != 'warnings_filters' else state1[key][:3]), kind='global_state')

    with case.clause('inputs_unchanged'):
        for label, obj, cp in fam.inputs:
            case.true(np.array_equal(obj, cp, equal_nan=True), 'input %s was modified' % label)
            core.still_writeable(case, obj, 'an evaluation (input %s)' % label)

    if s['par'] is not None:
        case.labels.append('parallel')
        with case.clause('parallel_equals_sequential'):
            if s['backend'] == 'analytic':
                objs = [fam.L1, fam.P1] + ([fam.HP] if hasattr(fam, 'HP') else [])
                base = [np.array(s['ll_args'][0], dtype=float), np.array(s['ll_args'][0], dtype=float)]
                if hasattr(fam, 'HP'):
                    base.append(np.array(s['hvecs'][0], dtype=float))
            else:
                objs = [fam.L1, fam.P1]
                base = [np.array(s['args'][0], dtype=float)] * 2
            for obj, x0 in zip(objs, base):
                xs = [x0 * (1 + 0.01 * j) for j in range(s['par']['n'])]
                seq = pints.SequentialEvaluator(obj).evaluate(xs)
                par = pints.ParallelEvaluator(obj, n_workers=s['par']['workers']).evaluate(xs)
                case.close(np.array(par, dtype=float), np.array(seq, dtype=float), rtol=1e-12,
                           what='ParallelEvaluator vs SequentialEvaluator (%s)' % type(obj).__name__)
                again = pints.SequentialEvaluator(obj).evaluate(xs)
                case.close(np.array(again, dtype=float), np.array(seq, dtype=float), rtol=1e-12,
                           what='sequential evaluation after a parallel one (%s)' % type(obj).__name__)


RULE += (' Classes and clauses added in later rounds of the seeded-change protocol (DESIGN 9.4) are named in REQUIRED '
         'and in seeded/HISTORY.json; the evidence counts every one of them under classes.')
