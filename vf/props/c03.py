"""C03 - Analytic gradients equal the true derivatives of the evaluated log-pdf."""
import numpy as np
from hypothesis import strategies as st

from vf import gen, ref, popgen, llbuild, hbuild

ID = 'C03'
BUDGET = {'quick': 1500, 'thorough': 40000}
RULE = (
    'Union of the C01 and C02 domains: individual log-likelihoods / log-posteriors (1-4 outputs, four error models, '
    'fixed error parameters, overlapping/tied time grids) and hierarchical log-likelihoods / log-posteriors over the '
    'population grammar (covariates, reduced wrappers, pooled/heterogeneous/non-centred dimensions), evaluated at '
    'in-support points and at points with a non-finite score (non-positive error scale, negative population scale, '
    'prior-rejected value). Oracle: complex-step derivative of the independent reference score. Non-trivial: '
    '(>=2 outputs or hierarchical with a special dimension) at a finite point. Distinct = structural projection.')
RULE += (' ' + 'Added classes: unmeasured outputs in front of measured ones, negative model outputs, every mechanistic parameter of an SBML-backed likelihood fixed (only noise parameters free), far-tail truncated Gaussian parts in hierarchical specs.')
ASSUMPTIONS = [
    'analytic mechanistic model is harness code and returns exact output sensitivities',
    'reference score = vf/ref.py + vf/llbuild.py + vf/hbuild.py; derivative by complex step (exact to rounding)',
    'SBML sub-domain: generated linear PKPD models (dosed, fixed parameters) through the reference integrator vf/simshim.py; '
    'oracle = complex step through the closed-form solution (matrix exponential)']
REQUIRED = ['indiv', 'hier', 'sbml', 'dosed', 'sbml_fixed', 'posterior', 'nonfinite', 'cov', 'red', 'noncentered', 'kind:pooled',
            'kind:hetero', 'unmeasured_output_first', 'negative_outputs', 'sbml_all_mech_fixed', 'sbml_nothing_measured', 'trunc_value_on_boundary',
            'sbml_renamed_parameters:some_mech_fixed', 'unneeded_covariates:bare_noncentered',
            'sbml:s1_first_on_enabled_model']


@st.composite
def _spec(draw):
    kind = draw(st.sampled_from(['hier', 'indiv', 'hier', 'indiv', 'sbml']))
    if kind == 'sbml':
        from vf import sbmlgen
        ms = sbmlgen.draw_model(draw, max_states=3)
        admin = None
        reg = None
        if not gen.chance(draw, 0.25):
            admin = dict(comp=draw(st.integers(0, len(ms['comps']) - 1)), direct=draw(st.booleans()))
            if not gen.chance(draw, 0.2):
                reg = dict(dose=draw(gen.logu(0.5, 5.0)), start=draw(gen.logu(0.05, 1.0)),
                           duration=draw(gen.logu(0.02, 0.3)), period=draw(gen.logu(0.5, 2.0)),
                           num=draw(st.integers(1, 3)))
        names = sbmlgen.published_parameters(ms, admin)
        cands = sbmlgen.state_qnames(ms) + sbmlgen.intermediate_qnames(ms)
        n_out = draw(st.integers(1, min(2, len(cands))))
        outs = list(draw(st.permutations(cands))[:n_out])
        ems = [dict(kind=draw(st.sampled_from(['gauss', 'cm', 'gauss', 'mult', 'lognorm'])), fixed=None)
               for _ in range(n_out)]
        times, mode, tied = llbuild.draw_time_grids(draw, n_out, None, True)
        theta = gen.distinct(draw(gen.vec(gen.logu(0.1, 1.5), len(names))))
        # conditioning: exp(-rate*t) >= 3e-4 (outputs far above any solver tolerance)
        R = sbmlgen.max_out_rate(ms, theta, admin)
        tmax = max(t for ts in times for t in ts)
        f = min(1.0, 8.0 / max(R * tmax, 1e-9))
        times = [[gen.r6(t * f) for t in ts] for ts in times]
        if gen.chance(draw, 0.1):
            # outputs without any measurement; now and then no measurement at all (the likelihood the problem
            # controller builds for an individual whose measurements are all missing)
            for o in (range(n_out) if gen.chance(draw, 0.5) else [draw(st.integers(0, n_out - 1))]):
                times[o] = []
        obs = [draw(gen.vec(gen.logu(0.05, 5.0), len(t))) for t in times]
        ll = dict(n_out=n_out, n_par=len(names), ems=ems, times=times, obs=obs, tmode=mode, tied=tied)
        params = theta + draw(gen.vec(gen.logu(0.1, 2.0), sum(llbuild.ll_n_sigma(ll))))
        fixed = None
        if len(names) >= 2 and gen.chance(draw, 0.3):
            # (also every mechanistic parameter fixed: only the noise parameters stay free)
            idx = list(range(len(names))) if gen.chance(draw, 0.2) else \
                draw(gen.subset(len(names), min_size=1, max_size=len(names) - 1))
            fixed = {str(i): theta[i] for i in idx}
        prior = llbuild.draw_prior(draw, len(params) - (len(fixed) if fixed else 0),
                                   [v for i, v in enumerate(params) if not (fixed and str(i) in fixed)]) \
            if draw(st.booleans()) else None
        return dict(kind='sbml', ms=ms, admin=admin, reg=reg, outputs=outs, ll=ll, params=params, fixed=fixed,
                    prior=prior, bad=None)
    if kind == 'indiv':
        ll = llbuild.draw_ll(draw, allow_empty=True)
        params = llbuild.draw_ll_params(draw, ll)
        signed = False
        if gen.chance(draw, 0.2):
            sp = llbuild.draw_signed_params(draw, ll, params)
            if sp is not None:
                params, signed = sp, True
        prior = llbuild.draw_prior(draw, llbuild.ll_n_parameters(ll), params) if draw(st.booleans()) else None
        bad = None
        # (a non-positive scale is placed on a measured output: for an unmeasured one the outcome is not stated)
        cand, pos = [], 0
        for o, k in enumerate(llbuild.ll_n_sigma(ll)):
            if ll['times'][o]:
                cand += list(range(pos, pos + k))
            pos += k
        if cand and not signed and gen.chance(draw, 0.12):
            bad = draw(st.sampled_from(cand))
            params[ll['n_par'] + bad] = draw(st.sampled_from([0.0, -0.5]))
        return dict(kind='indiv', ll=ll, params=params, prior=prior, bad=bad, signed=signed)
    h = hbuild.draw_hier(draw, with_prior=True)
    if not draw(st.booleans()):
        h['prior'] = None
    bad = None
    if gen.chance(draw, 0.12):
        # negative scale of a centred Gaussian / log-normal / truncated Gaussian part, if there is a free one
        cands = _scale_positions(h['pop'], h['n_ids'])
        if cands:
            nb = ref.hier_layout(h['pop'], h['n_ids'])[0]
            bad = draw(st.sampled_from(cands))
            h['vec'][nb + bad] = -abs(h['vec'][nb + bad]) - 0.1
    h['kind'] = 'hier'
    h['bad'] = bad
    return h


def extra_cases(tier):
    return [dict(h, kind='hier', bad=None) for h in hbuild.unneeded_cov_cases()]


def _scale_positions(pop, n_ids, offset=0):
    """Indices (into the free population parameter vector) of scale parameters of centred
    elementary models that are not wrapped (bare or directly in a composite)."""
    k = pop['kind']
    if k in ('gauss', 'lognorm', 'trunc') and pop.get('centered', True):
        return [offset + pop['n_dim'] + d for d in range(pop['n_dim'])]
    if k == 'comp':
        out = []
        for p in pop['parts']:
            out += _scale_positions(p, n_ids, offset)
            offset += ref.pop_n_par(p, n_ids)
        return out
    return []


def strategy(tier):
    return _spec()


def classify(spec):
    labs = [spec['kind']]
    if spec['prior'] is not None:
        labs.append('posterior')
    if spec['bad'] is not None:
        labs.append('nonfinite')
    if spec['kind'] == 'hier':
        labs += hbuild.classify(spec)
    elif spec['kind'] == 'sbml':
        if spec['reg'] is not None:
            labs.append('dosed')
        if spec['fixed']:
            labs.append('sbml_fixed')
            if len(spec['fixed']) == spec['ll']['n_par']:
                labs.append('sbml_all_mech_fixed')
        if not any(spec['ll']['times']):
            labs.append('sbml_nothing_measured')
        if _renamed(spec):
            labs.append('sbml_renamed_parameters')
            if spec['fixed'] and any(int(k) < spec['ll']['n_par'] for k in spec['fixed']) and \
                    sum(1 for k in spec['fixed'] if int(k) < spec['ll']['n_par']) < spec['ll']['n_par']:
                labs.append('sbml_renamed_parameters:some_mech_fixed')
    else:
        if spec['ll']['n_out'] > 1:
            labs.append('multi_output')
        if spec['ll']['tied']:
            labs.append('tied')
        tl = spec['ll']['times']
        if not any(tl):
            labs.append('nothing_measured')
        elif any(len(t) == 0 for t in tl) and min(o for o in range(len(tl)) if tl[o]) > 0:
            labs.append('unmeasured_output_first')
        if spec.get('signed'):
            labs.append('negative_outputs')
    return sorted(set(labs))


def _renamed(spec):
    """SBML kind: the mechanistic parameters carry display names (set before the likelihood is built) in about half of
    the cases (a rule over the drawn spec, so that stored replay files keep their meaning)."""
    return spec['kind'] == 'sbml' and (len(spec['params']) + len(spec['outputs']) + len(spec['ll']['times'][0])) % 2 == 0


def nontrivial(spec):
    if spec['bad'] is not None:
        return False
    if spec['kind'] == 'indiv':
        return spec['ll']['n_out'] >= 2
    if spec['kind'] == 'sbml':
        return spec['reg'] is not None or spec['ll']['n_out'] >= 2
    return any(lab in hbuild.classify(spec) for lab in (
        'kind:pooled', 'kind:hetero', 'noncentered', 'cov', 'kind:trunc')) and spec['n_ids'] >= 2


def structure(spec):
    if spec['kind'] == 'indiv':
        return ['indiv', llbuild.ll_structure(spec['ll']), spec['prior'] is not None, spec['bad'] is not None]
    if spec['kind'] == 'sbml':
        from vf import sbmlgen
        return ['sbml', sbmlgen.structure(spec['ms']), spec['admin'], spec['reg'] is not None, spec['outputs'],
                llbuild.ll_structure(spec['ll']), sorted(spec['fixed']) if spec['fixed'] else None,
                spec['prior'] is not None]
    return ['hier', hbuild.structure(spec), spec['prior'] is not None, spec['bad'] is not None]


def check(case):
    import chi
    s = case.spec
    with case.clause('construct'):
        if s['kind'] == 'sbml':
            from vf import sbmlgen, simshim
            simshim.install()
            ms, admin = s['ms'], s['admin']
            M = sbmlgen.build(ms, chi.PKPDModel)
            if admin is not None:
                comp = ms['comps'][admin['comp']]
                M.set_administration(comp['id'], amount_var='%s_amount' % comp['sid'], direct=admin['direct'])
            M.set_outputs(list(s['outputs']))
            if _renamed(s):
                # display names for the mechanistic parameters: everything downstream addresses them by these names
                M.set_parameter_names({n: 'Parameter %d (%s)' % (k + 1, n.split('.')[-1])
                                       for k, n in enumerate(M.parameters())})
            if s['reg'] is not None:
                r = s['reg']
                M.set_dosing_regimen(dose=r['dose'], start=r['start'], duration=r['duration'], period=r['period'],
                                     num=r['num'])
            ll = s['ll']
            obj = chi.LogLikelihood(M, llbuild.build_error_models(ll), [np.array(o) for o in ll['obs']],
                                    [np.array(t) for t in ll['times']])
            full = np.array(s['params'], dtype=float)
            fixed = {int(k): v for k, v in (s['fixed'] or {}).items()}
            if fixed:
                names = obj.get_parameter_names()
                obj.fix_parameters({names[i]: float(v) for i, v in fixed.items()})
            free = [i for i in range(len(full)) if i not in fixed]
            x = full[free]
            tmax = max([t for ts in ll['times'] for t in ts] + [1.0])
            ev = []
            if s['reg'] is not None:
                r = s['reg']
                ev = sbmlgen.regimen_events(r['dose'], r['start'], r['duration'], r['period'], r['num'], tmax + 1.0)

            def f(v):
                z = np.array(full, dtype=complex if np.iscomplexobj(v) else float)
                for k_, i_ in enumerate(free):
                    z[i_] = v[k_]
                psi = z[:ll['n_par']]
                sigs = llbuild.split_sigmas(ll, z)
                val = 0.0
                for o, e in enumerate(ll['ems']):
                    t = np.array(ll['times'][o], dtype=float)
                    ybar = sbmlgen.ref_simulate(ms, psi, t, [s['outputs'][o]], admin, ev)[0]
                    val = val + ref.em_loglik(e['kind'], sigs[o], ybar, np.array(ll['obs'][o], dtype=float))
                if s['prior'] is not None:
                    val = val + llbuild.ref_prior(s['prior'], v)
                return val
            if s['prior'] is not None:
                obj = chi.LogPosterior(obj, llbuild.build_prior(s['prior']))
            # the user switched the model's sensitivities on before handing it over, and the first evaluation of the
            # likelihood built from it is the one with sensitivities (a gradient-based sampler)
            M.enable_sensitivities(True)
            obj_s = chi.LogLikelihood(M, llbuild.build_error_models(ll), [np.array(o) for o in ll['obs']],
                                      [np.array(t) for t in ll['times']])
            if fixed:
                obj_s.fix_parameters({names[i]: float(v) for i, v in fixed.items()})
            if s['prior'] is not None:
                obj_s = chi.LogPosterior(obj_s, llbuild.build_prior(s['prior']))
        elif s['kind'] == 'indiv':
            obj = llbuild.build_ll(s['ll'])
            x = np.array(s['params'], dtype=float)
            n_top0 = 0

            def f(v):
                val = llbuild.ref_ll(s['ll'], v)
                if s['prior'] is not None:
                    val = val + llbuild.ref_prior(s['prior'], v)
                return val
            if s['prior'] is not None:
                obj = chi.LogPosterior(obj, llbuild.build_prior(s['prior']))
        else:
            obj = hbuild.build_hier(s)
            x = np.array(s['vec'], dtype=float)
            nb = ref.hier_layout(s['pop'], s['n_ids'])[0]

            def f(v):
                val = hbuild.ref_hier(s, v)
                if s['prior'] is not None:
                    val = val + llbuild.ref_prior(s['prior'], v[nb:])
                return val
            if s['prior'] is not None:
                obj = chi.HierarchicalLogPosterior(obj, llbuild.build_prior(s['prior']))
    if case.fails:
        return

    want = float(np.real(f(x)))
    plain = None
    with case.clause('value'):
        plain = obj(x.copy())
        if np.isfinite(want):
            case.close(plain, want, rtol=1e-6 if s['kind'] == 'sbml' else 1e-8, atol=1e-8 if s['kind'] == 'sbml' else 0.0,
                       what='score of plain evaluation')
        else:
            case.true(not np.isfinite(plain), 'plain evaluation is finite (%r) where the reference is %r' % (plain, want))
    if plain is None:
        return

    if np.isfinite(plain) and s['kind'] in ('indiv', 'hier'):
        # a second, newly built object whose FIRST evaluation is the one with sensitivities
        with case.clause('s1_first_on_new_object'):
            if s['kind'] == 'indiv':
                o2 = llbuild.build_ll(s['ll'])
                if s['prior'] is not None:
                    o2 = chi.LogPosterior(o2, llbuild.build_prior(s['prior']))
            else:
                o2 = hbuild.build_hier(s)
                if s['prior'] is not None:
                    o2 = chi.HierarchicalLogPosterior(o2, llbuild.build_prior(s['prior']))
            sc2, g2 = o2.evaluateS1(x.copy())
            case.close(sc2, plain, rtol=1e-10, what='score of evaluateS1 as the first evaluation of a new object vs plain '
                                                    'evaluation of another')
            case.close(o2(x.copy()), plain, rtol=1e-12, what='plain evaluation after a first evaluation with sensitivities')

    if np.isfinite(plain) and s['kind'] == 'sbml':
        with case.clause('s1_first_on_enabled_model'):
            sc_s, g_s = obj_s.evaluateS1(x.copy())
            case.close(sc_s, plain, rtol=1e-9, atol=1e-10, what='score of evaluateS1 as the FIRST evaluation of a likelihood '
                       'built from a model with sensitivities enabled')
            case.close(obj_s(x.copy()), plain, rtol=1e-9, atol=1e-10, what='plain evaluation afterwards')
            case.labels.append('sbml:s1_first_on_enabled_model')

    if np.isfinite(plain):
        with case.clause('s1_succeeds'):
            sc, g = obj.evaluateS1(x.copy())
        if 's1_succeeds' not in case.checked:
            return
        with case.clause('s1_score'):
            case.close(sc, plain, rtol=1e-10, what='score returned with the sensitivities vs plain evaluation')
            case.close(obj(x.copy()), plain, rtol=1e-12, atol=1e-12 if s['kind'] == 'sbml' else 0.0,
                       what='plain evaluation repeated after an evaluation with sensitivities')
        # the same point evaluated again (and again): same score, same gradient, and the arrays returned earlier keep
        # their values
        with case.clause('s1_repeat'):
            g_first = np.array(g, dtype=float, copy=True)
            for rep in (2, 3):
                sc_r, g_r = obj.evaluateS1(x.copy())
                case.close(sc_r, sc, rtol=0, atol=0, what='score of evaluateS1, call %d at the same point' % rep)
                case.close(np.asarray(g_r, dtype=float), g_first, rtol=1e-13,
                           what='gradient of evaluateS1, call %d at the same point' % rep)
            case.close(np.asarray(g, dtype=float), g_first, rtol=0, atol=0,
                       what='gradient array returned by the first call after two more calls')
        with case.clause('s1_length'):
            g = np.asarray(g, dtype=float)
            case.equal(g.shape, (obj.n_parameters(),), 'gradient shape', kind='shape')
            case.equal(len(g), len(x), 'gradient length vs vector length', kind='shape')
        if 's1_length' in case.checked:
            with case.clause('s1_gradient'):
                gw = ref.cgrad(f, x)
                err = np.abs(g - gw)
                rt = 1e-5 if s['kind'] == 'sbml' else 1e-7      # ODE solution: solver tolerance 1e-10
                tol = rt * np.maximum(1.0, np.maximum(np.abs(g), np.abs(gw)))
                if s['kind'] == 'sbml':
                    tol = tol + 1e-7 * np.max(np.abs(gw))
                if np.any(~(err <= tol)):
                    k = int(np.argmax(np.where(np.isfinite(err), err / tol, np.inf)))
                    names = obj.get_parameter_names()
                    case.fail('mismatch', 'd/d[%d] (%s): got %r expected %r' % (
                        k, names[k] if k < len(names) else '?', g[k], gw[k]))
        if s['kind'] in ('indiv', 'sbml') and s['prior'] is None and not s.get('fixed') and len(x) >= 2:
            # gradient after a fix / release history on the same object (sensitivity bookkeeping of
            # the reduced wrappers must follow the free set)
            with case.clause('gradient_after_fix_release'):
                names = obj.get_parameter_names()
                k0 = len(x) // 2 if s['kind'] == 'indiv' else 0
                k0 = min(k0, (s['ll']['n_par'] if 'll' in s else len(x)) - 1)
                obj.fix_parameters({names[k0]: float(x[k0])})
                keep = [i for i in range(len(x)) if i != k0]
                sc_f, g_f = obj.evaluateS1(x[keep].copy())
                gw_all = ref.cgrad(f, x)
                rt = 1e-5 if s['kind'] == 'sbml' else 1e-7
                case.close(sc_f, plain, rtol=1e-9 if s['kind'] == 'indiv' else 1e-7, what='score with one parameter fixed at its value')
                case.close(g_f, gw_all[keep], rtol=rt, atol=1e-7 * float(np.max(np.abs(gw_all))) if s['kind'] == 'sbml' else 0.0,
                           what='gradient restricted to the free parameters')
                # swap which parameter is fixed in ONE call (same count), then release everything
                k1 = (k0 + 1) % max(1, (s['ll']['n_par'] if 'll' in s else len(x)))
                if k1 != k0:
                    obj.fix_parameters({names[k0]: None, names[k1]: float(x[k1])})
                    keep1 = [i for i in range(len(x)) if i != k1]
                    sc_s, g_s = obj.evaluateS1(x[keep1].copy())
                    case.close(g_s, gw_all[keep1], rtol=rt,
                               atol=1e-7 * float(np.max(np.abs(gw_all))) if s['kind'] == 'sbml' else 0.0,
                               what='gradient after swapping the fixed parameter in one call')
                    obj.fix_parameters({names[k1]: None})
                else:
                    obj.fix_parameters({names[k0]: None})
                sc_r, g_r = obj.evaluateS1(x.copy())
                case.close(g_r, gw_all, rtol=rt, atol=1e-7 * float(np.max(np.abs(gw_all))) if s['kind'] == 'sbml' else 0.0,
                           what='gradient after releasing every parameter again')
        with case.clause('order_independence'):
            again = obj(x.copy())
            case.close(again, plain, rtol=0, atol=0, what='value after a gradient evaluation')
            sc2, g2 = obj.evaluateS1(x.copy())
            case.close(sc2, sc, rtol=0, atol=0, what='repeated evaluateS1 score')
            case.close(g2, g, rtol=0, atol=0, what='repeated evaluateS1 gradient')
    else:
        with case.clause('s1_nonfinite'):
            sc, g = obj.evaluateS1(x.copy())
            case.true(not np.isfinite(sc), 'evaluateS1 reports the finite score %r where plain evaluation gives %r' % (
                sc, plain))


RULE += (' Classes and clauses added in later rounds of the seeded-change protocol (DESIGN 9.4) are named in REQUIRED '
         'and in seeded/HISTORY.json; the evidence counts every one of them under classes.')
