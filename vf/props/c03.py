"""C03 - Analytic gradients equal the true derivatives of the evaluated log-pdf."""
import numpy as np
from hypothesis import strategies as st

from vf import gen, ref, popgen, llbuild, hbuild

ID = 'C03'
BUDGET = {'quick': 1400, 'thorough': 40000}
RULE = (
    'Union of the C01 and C02 domains: individual log-likelihoods / log-posteriors (1-4 outputs, four error models, '
    'fixed error parameters, overlapping/tied time grids) and hierarchical log-likelihoods / log-posteriors over the '
    'population grammar (covariates, reduced wrappers, pooled/heterogeneous/non-centred dimensions), evaluated at '
    'in-support points and at points with a non-finite score (non-positive error scale, negative population scale, '
    'prior-rejected value). Oracle: complex-step derivative of the independent reference score. Non-trivial: '
    '(>=2 outputs or hierarchical with a special dimension) at a finite point. Distinct = structural projection.')
ASSUMPTIONS = [
    'analytic mechanistic model is harness code and returns exact output sensitivities',
    'reference score = vf/ref.py + vf/llbuild.py + vf/hbuild.py; derivative by complex step (exact to rounding)',
    'SBML-backed models are covered by C09 (simulation sensitivities) rather than here']
REQUIRED = ['indiv', 'hier', 'posterior', 'nonfinite', 'cov', 'red', 'noncentered', 'kind:pooled', 'kind:hetero']


@st.composite
def _spec(draw):
    kind = draw(st.sampled_from(['hier', 'indiv']))
    if kind == 'indiv':
        ll = llbuild.draw_ll(draw)
        params = llbuild.draw_ll_params(draw, ll)
        prior = llbuild.draw_prior(draw, llbuild.ll_n_parameters(ll), params) if draw(st.booleans()) else None
        bad = None
        nsig = sum(llbuild.ll_n_sigma(ll))
        if nsig > 0 and gen.chance(draw, 0.12):
            bad = draw(st.integers(0, nsig - 1))
            params[ll['n_par'] + bad] = draw(st.sampled_from([0.0, -0.5]))
        return dict(kind='indiv', ll=ll, params=params, prior=prior, bad=bad)
    h = hbuild.draw_hier(draw, with_prior=True)
    if not draw(st.booleans()):
        h['prior'] = None
    bad = None
    if gen.chance(draw, 0.12):
        # negative scale of a centred Gaussian / log-normal / truncated Gaussian part, if there is a free one
        cands = _scale_positions(h['pop'], h['n_ids'])
        if cands:
            nb = ref.hier_layout(h['pop'], h['n_ids'])[0]
            bad = draw(st.sampled_from(cands))
            h['vec'][nb + bad] = -abs(h['vec'][nb + bad]) - 0.1
    h['kind'] = 'hier'
    h['bad'] = bad
    return h


def _scale_positions(pop, n_ids, offset=0):
    """Indices (into the free population parameter vector) of scale parameters of centred
    elementary models that are not wrapped (bare or directly in a composite)."""
    k = pop['kind']
    if k in ('gauss', 'lognorm', 'trunc') and pop.get('centered', True):
        return [offset + pop['n_dim'] + d for d in range(pop['n_dim'])]
    if k == 'comp':
        out = []
        for p in pop['parts']:
            out += _scale_positions(p, n_ids, offset)
            offset += ref.pop_n_par(p, n_ids)
        return out
    return []


def strategy(tier):
    return _spec()


def classify(spec):
    labs = [spec['kind']]
    if spec['prior'] is not None:
        labs.append('posterior')
    if spec['bad'] is not None:
        labs.append('nonfinite')
    if spec['kind'] == 'hier':
        labs += hbuild.classify(spec)
    else:
        if spec['ll']['n_out'] > 1:
            labs.append('multi_output')
        if spec['ll']['tied']:
            labs.append('tied')
    return sorted(set(labs))


def nontrivial(spec):
    if spec['bad'] is not None:
        return False
    if spec['kind'] == 'indiv':
        return spec['ll']['n_out'] >= 2
    return any(lab in hbuild.classify(spec) for lab in (
        'kind:pooled', 'kind:hetero', 'noncentered', 'cov', 'kind:trunc')) and spec['n_ids'] >= 2


def structure(spec):
    if spec['kind'] == 'indiv':
        return ['indiv', llbuild.ll_structure(spec['ll']), spec['prior'] is not None, spec['bad'] is not None]
    return ['hier', hbuild.structure(spec), spec['prior'] is not None, spec['bad'] is not None]


def check(case):
    import chi
    s = case.spec
    with case.clause('construct'):
        if s['kind'] == 'indiv':
            obj = llbuild.build_ll(s['ll'])
            x = np.array(s['params'], dtype=float)
            n_top0 = 0

            def f(v):
                val = llbuild.ref_ll(s['ll'], v)
                if s['prior'] is not None:
                    val = val + llbuild.ref_prior(s['prior'], v)
                return val
            if s['prior'] is not None:
                obj = chi.LogPosterior(obj, llbuild.build_prior(s['prior']))
        else:
            obj = hbuild.build_hier(s)
            x = np.array(s['vec'], dtype=float)
            nb = ref.hier_layout(s['pop'], s['n_ids'])[0]

            def f(v):
                val = hbuild.ref_hier(s, v)
                if s['prior'] is not None:
                    val = val + llbuild.ref_prior(s['prior'], v[nb:])
                return val
            if s['prior'] is not None:
                obj = chi.HierarchicalLogPosterior(obj, llbuild.build_prior(s['prior']))
    if case.fails:
        return

    want = float(np.real(f(x)))
    plain = None
    with case.clause('value'):
        plain = obj(x.copy())
        if np.isfinite(want):
            case.close(plain, want, rtol=1e-8, what='score of plain evaluation')
        else:
            case.true(not np.isfinite(plain), 'plain evaluation is finite (%r) where the reference is %r' % (plain, want))
    if plain is None:
        return

    if np.isfinite(plain):
        with case.clause('s1_succeeds'):
            sc, g = obj.evaluateS1(x.copy())
        if 's1_succeeds' not in case.checked:
            return
        with case.clause('s1_score'):
            case.close(sc, plain, rtol=1e-10, what='score returned with the sensitivities vs plain evaluation')
        with case.clause('s1_length'):
            g = np.asarray(g, dtype=float)
            case.equal(g.shape, (obj.n_parameters(),), 'gradient shape', kind='shape')
            case.equal(len(g), len(x), 'gradient length vs vector length', kind='shape')
        if 's1_length' in case.checked:
            with case.clause('s1_gradient'):
                gw = ref.cgrad(f, x)
                err = np.abs(g - gw)
                tol = 1e-7 * np.maximum(1.0, np.maximum(np.abs(g), np.abs(gw)))
                if np.any(~(err <= tol)):
                    k = int(np.argmax(np.where(np.isfinite(err), err / tol, np.inf)))
                    names = obj.get_parameter_names()
                    case.fail('mismatch', 'd/d[%d] (%s): got %r expected %r' % (
                        k, names[k] if k < len(names) else '?', g[k], gw[k]))
        with case.clause('order_independence'):
            again = obj(x.copy())
            case.close(again, plain, rtol=0, atol=0, what='value after a gradient evaluation')
            sc2, g2 = obj.evaluateS1(x.copy())
            case.close(sc2, sc, rtol=0, atol=0, what='repeated evaluateS1 score')
            case.close(g2, g, rtol=0, atol=0, what='repeated evaluateS1 gradient')
    else:
        with case.clause('s1_nonfinite'):
            sc, g = obj.evaluateS1(x.copy())
            case.true(not np.isfinite(sc), 'evaluateS1 reports the finite score %r where plain evaluation gives %r' % (
                sc, plain))
