"""C02 - Hierarchical log-likelihood = individual likelihoods + population density."""
import numpy as np
from hypothesis import strategies as st

from vf import core, gen, ref, popgen, llbuild, hbuild

ID = 'C02'
BUDGET = {'quick': 1500, 'thorough': 60000}
RULE = (
    'Hypothesis draws a population composition (Gaussian / log-normal centred or not / truncated Gaussian / pooled / '
    'heterogeneous, n_dim 1-3 each, optional covariate wrapper with default or explicit selection, 1-4 parts, bare '
    'models, rarely a nested composite, optional reduced wrapper), n_ids 1-5, structurally identical individual '
    'likelihoods over the analytic model (own time grids and data per individual, parameter count = population '
    'dimension), covariates, an in-support flat vector (individual values positive) and a prior on the population '
    'parameters. Non-trivial: >=2 sub-model dimensions with a special (pooled/heterogeneous/non-centred/covariate/'
    'truncated) dimension not in last position and n_ids >= 2. Distinct = structural projection of composition, '
    'n_ids, likelihood structure, id style.')
RULE += (' ' + 'Added: one vector object updated in place between evaluations and restored (every value must follow the current content); far-tail truncated Gaussian parts (mu/sigma in [-8,-4]).')
ASSUMPTIONS = [
    'analytic mechanistic model is harness code; reference densities and the layout model are written from the '
    'docstrings of HierarchicalLogLikelihood.__call__/get_parameter_names and of the population models',
    'population dimension names are set to the likelihood parameter names (as ProblemModellingController does)',
    'individual parameter values are positive (support of the multiplicative / log-normal error models)']
REQUIRED = ['kind:gauss', 'kind:lognorm', 'kind:trunc', 'kind:pooled', 'kind:hetero', 'cov', 'comp', 'red', 'bare',
            'noncentered', 'mixed_special', 'special_not_last', 'n_ids=1', 'noncentered_zero_scale', 'reduced_part:all_fixed', 'hetero_last_explicit',
            'unneeded_covariates:bare_noncentered']


@st.composite
def _spec(draw):
    return hbuild.draw_hier(draw)


def strategy(tier):
    return _spec()


def extra_cases(tier):
    """In every run: a reduced population model whose parameter was fixed by name while the model was still configured for
    its default single individual, with a heterogeneous part IN FRONT of the fixed parameter (the part grows when the
    hierarchical likelihood sets the number of individuals, so positions shift while names stay)."""
    out = []
    ll = dict(n_out=1, n_par=1, ems=[dict(kind='gauss', fixed=None)], times=[[0.5, 1.0]], obs=[[1.0, 1.4]],
              tmode='single', tied=False)
    for n_ids in (2, 3):
        for second in (dict(kind='gauss', n_dim=1, centered=True), dict(kind='lognorm', n_dim=1, centered=True)):
            base = dict(kind='comp', parts=[dict(kind='hetero', n_dim=1), second])
            pop = dict(kind='red', base=base, fixed=[n_ids + 1], values=[0.4])
            out.append(dict(pop=pop, n_ids=n_ids, lls=[ll] * n_ids, ids=None, cov=None,
                            vec=[0.5 + 0.1 * i for i in range(n_ids)] + [1.0 + 0.2 * i for i in range(n_ids)] + [0.5],
                            prior=[dict(kind='lognormal', a=0.0, b=1.0)] * (n_ids + 1), late=True))
    # two heterogeneous parts of which only the LAST is constructed with the number of individuals
    # (HeterogeneousModel(n_ids=k)); the composed model passes the number on to the first
    ll3 = dict(n_out=1, n_par=2, ems=[dict(kind='gauss', fixed=None)], times=[[0.5, 1.0]], obs=[[1.0, 1.4]],
               tmode='single', tied=False)
    for n_ids in (2, 3):
        for middle in (dict(kind='gauss', n_dim=1, centered=True), dict(kind='pooled', n_dim=1)):
            pop = dict(kind='comp', parts=[dict(kind='hetero', n_dim=1), middle, dict(kind='hetero', n_dim=1)])
            bottom = [1.0 + 0.2 * i for i in range(n_ids)] if middle['kind'] == 'gauss' else []
            top = [0.5 + 0.1 * i for i in range(n_ids)] + ([1.1, 0.4] if middle['kind'] == 'gauss' else [1.2]) + \
                [0.6 + 0.05 * i for i in range(n_ids)]
            out.append(dict(pop=pop, n_ids=n_ids, lls=[ll3] * n_ids, ids=None, cov=None, vec=bottom + top,
                            prior=[dict(kind='lognormal', a=0.0, b=1.0)] * len(top), late=False, explicit_last=True))
    out += hbuild.unneeded_cov_cases()
    return out


def classify(spec):
    return hbuild.classify(spec)


def nontrivial(spec):
    pop = spec['pop']
    if spec['n_ids'] < 2 or ref.pop_n_dim(pop) < 2:
        return False
    flags = []
    for lf in popgen.leaves(pop):
        sp = lf['kind'] in ('pooled', 'hetero', 'trunc') or (
            lf['kind'] in ('gauss', 'lognorm') and not lf.get('centered', True))
        flags += [sp] * lf['n_dim']
    cov_dims = []

    def walk(s):
        if s['kind'] == 'comp':
            for p in s['parts']:
                walk(p)
        elif s['kind'] == 'red':
            walk(s['base'])
        elif s['kind'] == 'cov':
            cov_dims.extend([True] * s['base']['n_dim'])
        else:
            cov_dims.extend([False] * s['n_dim'])
    walk(pop)
    flags = [a or b for a, b in zip(flags, cov_dims)]
    return any(flags[:-1])


def structure(spec):
    return hbuild.structure(spec)


def check(case):
    s = case.spec
    pop, n_ids = s['pop'], s['n_ids']
    vec = np.array(s['vec'], dtype=float)
    cov = None if s['cov'] is None else np.array(s['cov'], dtype=float)
    names_want, ids_want, nb, nt = hbuild.layout(s)

    with case.clause('construct'):
        H = hbuild.build_hier(s)
    if case.fails:
        return
    pm = H.get_population_model()

    # Special dimensions require bit-wise equality inside chi; they are not part of the flat
    # vector, so nothing has to be aligned here.
    want = float(np.real(hbuild.ref_hier(s, vec)))

    with case.clause('counts'):
        case.equal(H.n_parameters(), nb + nt, 'n_parameters')
        case.equal(H.n_parameters(exclude_bottom_level=True), nt, 'n_parameters(exclude_bottom_level)')
        case.equal(len(H.get_parameter_names()), nb + nt, 'len(names)')
        case.equal(len(H.get_parameter_names(exclude_bottom_level=True)), nt, 'len(top names)')
        case.equal(len(H.get_id()), nb + nt, 'len(get_id())')
        case.equal(H.n_log_likelihoods(), n_ids, 'n_log_likelihoods')
        case.equal([int(v) for v in H.n_observations()],
                   [sum(len(t) for t in ll['times']) for ll in s['lls']], 'n_observations')

    with case.clause('value'):
        got = H(vec.copy())
        case.close(got, want, rtol=1e-8, what='hierarchical log-likelihood')

    # The caller re-uses ONE vector and updates it in place between evaluations (samplers and optimisers do): every
    # value must follow the array's current content, also when the previous content is evaluated again.
    if np.isfinite(want):
        with case.clause('inplace_buffer'):
            buf = vec.copy()
            for rnd in range(4):
                got = H(buf)
                case.close(got, float(np.real(hbuild.ref_hier(s, buf))), rtol=1e-8,
                           what='hierarchical log-likelihood at a re-used vector after %d in-place updates' % rnd)
                if not core.still_writeable(case, buf, 'HierarchicalLogLikelihood.__call__'):
                    break
                j = (rnd * 5 + 1) % len(buf)
                if rnd < 2:
                    buf[j] *= 1.003
                else:
                    buf[:] = vec           # back to the first content, still the same array object
            case.close(H(vec.copy()), want, rtol=1e-8, what='value at a fresh copy of the first vector afterwards')

    # a vector of whole numbers typed as integers (int array, list / tuple of Python ints) is the same vector
    if np.isfinite(want):
        with case.clause('array_forms'):
            from vf.core import array_forms
            for label, arg in array_forms(vec):
                case.close(H(arg), want, rtol=1e-8, what='hierarchical log-likelihood for the vector given as %s' % label)
                sc_a, g_a = H.evaluateS1(arg)
                case.close(sc_a, want, rtol=1e-8, what='evaluateS1 score for the vector given as %s' % label)

    # (not with covariates: whole-number coefficients can leave the support)
    if cov is None:
        with case.clause('integer_vector'):
            v_i = np.maximum(1, np.round(np.abs(vec))).astype(int)
            v_f = v_i.astype(float)
            want_i = float(np.real(hbuild.ref_hier(s, v_f)))
            got_f = H(v_f.copy())
            case.close(got_f, want_i, rtol=1e-8, what='hierarchical log-likelihood at a whole-number vector (floats)')
            for label, arg in (('an int array', v_i), ('a list of Python ints', v_i.tolist()),
                               ('a tuple of Python ints', tuple(v_i.tolist()))):
                case.close(H(arg), got_f, rtol=1e-12, what='hierarchical log-likelihood for whole numbers given as %s '
                                                           'vs as floats' % label)

    with case.clause('names'):
        case.equal(H.get_parameter_names(), names_want, 'parameter names')
        case.equal(H.get_id(), ids_want, 'ids')
        case.equal(H.get_id(unique=True), hbuild.expected_ids(s), 'unique ids')
        incl = [(i + ' ' + n) if i else n for n, i in zip(names_want, ids_want)]
        case.equal(H.get_parameter_names(include_ids=True), incl, 'names with ids')
        case.equal(H.get_parameter_names(exclude_bottom_level=True), names_want[nb:], 'top-level names')

    # Behavioural naming check, through chi only: perturbing entry k moves only what its
    # published name / id designates.
    with case.clause('naming_behaviour'):
        lnames = hbuild.ll_param_names(s)
        pub_names = H.get_parameter_names()
        pub_ids = H.get_id()
        uid = H.get_id(unique=True)
        case.true(len(pub_names) == len(vec) and len(pub_ids) == len(vec),
                  'published names/ids (%d/%d) do not match the vector length %d' % (
                      len(pub_names), len(pub_ids), len(vec)), kind='shape')
        for k in sorted({0, len(vec) - 1, nb - 1 if nb else 0, nb, (7 * len(vec)) // 11}):
            if k >= len(vec) or k < 0:
                continue
            v2 = vec.copy()
            # tiny perturbation: stays inside the support (a scale pushed below zero makes chi return
            # NaN for every dimension, which says nothing about naming)
            v2[k] = v2[k] * (1 + 1e-3) + 1e-6

            def psi_of(v):
                top = v[nb:]
                eta = pm.compute_individual_parameters(
                    parameters=top, eta=v[:nb], covariates=cov, return_eta=True)
                return np.asarray(pm.compute_individual_parameters(top, eta, cov), dtype=float)
            pa, pb = psi_of(v2), psi_of(vec)
            if not (np.all(np.isfinite(pa)) and np.all(np.isfinite(pb))):
                continue
            d_psi = pa != pb
            rows = set(np.nonzero(d_psi.any(axis=1))[0].tolist())
            cols = set(np.nonzero(d_psi.any(axis=0))[0].tolist())
            if pub_ids[k] is not None:
                if pub_ids[k] not in uid or pub_names[k] not in lnames:
                    case.fail('mismatch', 'entry %d is published as individual-level (%r, id %r), but no such individual / '
                              'individual-level parameter exists (ids %r, names %r)' % (k, pub_names[k], pub_ids[k], uid,
                                                                                        lnames))
                    break
                i = uid.index(pub_ids[k])
                case.true(rows <= {i}, 'entry %d (%s, id %s) changed individuals %s' % (
                    k, pub_names[k], pub_ids[k], sorted(rows)))
                case.true(cols <= {lnames.index(pub_names[k])},
                          'entry %d named %r changed dimensions %s' % (k, pub_names[k], sorted(cols)))
            else:
                dims = {d for d, ln in enumerate(lnames) if (' ' + ln) in pub_names[k]}
                case.true(cols <= dims, 'population entry %d named %r changed dimensions %s' % (
                    k, pub_names[k], [lnames[c] for c in sorted(cols)]))

    if s['prior'] is not None:
        with case.clause('posterior'):
            import chi
            P = chi.HierarchicalLogPosterior(H, llbuild.build_prior(s['prior']))
            lp = float(np.real(llbuild.ref_prior(s['prior'], vec[nb:])))
            case.close(P(vec.copy()), lp + want if np.isfinite(lp) else -np.inf, rtol=1e-8,
                       what='hierarchical log-posterior')
            case.equal(P.n_parameters(), nb + nt, 'posterior n_parameters')
            case.equal(P.get_parameter_names(), names_want, 'posterior names')
            case.equal(P.get_id(), ids_want, 'posterior ids')


RULE += (' Classes and clauses added in later rounds of the seeded-change protocol (DESIGN 9.4) are named in REQUIRED '
         'and in seeded/HISTORY.json; the evidence counts every one of them under classes.')
