"""C18 - Inference I/O keeps parameters, individuals and draws aligned.

Oracle = the independent layout model of the flat vector (vf/hbuild.layout for hierarchical
posteriors, vf/props/c13.names_ids for filter posteriors, vf/llbuild.ll_names for individual
posteriors): position k of the flat vector <-> (name_k, id_k). Everything chi reports about draws,
estimates and initial points is compared, entry by entry, with the raw array at the layout's position.

  initial points     sample_initial_parameters(n, seed): shape, seed determinism, finite prior density of
                     the top-level block, finite population density of (bottom | top) -- with chi's own
                     population model and with the reference --, and (two-stage, vf/stats.py) the
                     probability-integral transform of every top-level entry under its prior, of every
                     individual-level entry under the population model at the sampled top-level values
                     and of the noise realisations of a filter posterior under N(0, 1).
  chain formatting   SamplingController._format_chains(raw) with watermarked raw arrays
                     (raw[c, d, k] = 1000 c + 10 d + (k + 1) / 1000): variables = names exactly once, dims,
                     coordinates, every entry = raw entry at the layout's position (a bijection).
  end to end         SamplingController.run / OptimisationController.run (sequential evaluation, 3-5
                     iterations) with pints.MCMCController.run / pints.OptimisationController.run wrapped in the
                     harness: the dataset / table chi returns is compared with what pints returned; the chains
                     start at sample_initial_parameters(n_runs, seed of the controller).
  downstream         PosteriorPredictiveModel (individual and population predictive model; the parameters handed
                     to the predictive model are recorded by a harness subclass, and the sampled values are
                     decoded: error scales are watermarked 1e-7) and compute_pointwise_loglikelihood on such
                     datasets pick the matching columns.
"""
import math

import numpy as np
from hypothesis import strategies as st
from scipy import special

import chi
import pints

from vf import gen, ref, popgen, llbuild, hbuild, stats
from vf.analytic_model import AnalyticModel, ref_outputs
from vf.core import Inconclusive
from vf.props import c13

ID = 'C18'
BUDGET = {'quick': 500, 'thorough': 20000}
RULE = (
    'Hypothesis draws a posterior: (a) chi.LogPosterior over an individual likelihood (1-4 outputs, four error '
    'models, optional ID), (b) chi.HierarchicalLogPosterior over the C02 grammar (Gaussian / log-normal centred or '
    'not / truncated Gaussian / pooled / heterogeneous sub-models, covariate wrappers also around pooled and '
    'heterogeneous models, reduced wrappers, nested composites; 1-5 individuals with default, sorted or unsorted '
    'explicit IDs), (c) chi.PopulationFilterLogPosterior (C13 composition, optionally reduced, sigma fixed or free, '
    '2-6 simulated individuals). Priors: per top-level entry by role -- scales get positive support (log-normal, '
    'half-Cauchy, uniform), scales and slopes reached by a covariate model and everything inside a covariate-wrapped '
    'truncated Gaussian a +-2 % uniform prior around an in-support value, locations of log-normal models and their '
    'covariate slopes bounded priors (|log-mean| stays far from the overflow of exp), the rest any of log-normal / '
    'Gaussian / uniform / half-Cauchy; mode "tight" (half of the cases) uses +-2 % everywhere so that the controllers '
    'start at finite scores (end-to-end sampling runs only from finite starting points; otherwise it is skipped). Further: n_samples 1-4 and three seeds for the initial points, chain shape 1-4 x 1-6 for the '
    'watermarked raw array, n_runs 1-3 and 3-5 iterations for the end-to-end runs (sampler Haario-Bardenet / '
    'Metropolis, optimiser CMA-ES / Nelder-Mead / XNES), the individual, times, number of samples and seed of the '
    'downstream calls; a statistical case in ~1/4 of the cases (>=1000 individual-level values). Non-trivial: '
    'hierarchical or filter posterior with >=2 individuals and a pooled/heterogeneous dimension. Distinct = structural '
    'projection (kind, composition, n_ids, likelihood structure, ID style, shapes).')
RULE += (' ' + 'Added: param_map that swaps the dataset names of two model parameters; likelihood names after dataset pointwise evaluation.')
ASSUMPTIONS = [
    'layout models (vf/hbuild.layout, c13.names_ids, llbuild.ll_names) are written from the docstrings and validated '
    'against scores by C02 / C13 / C01',
    'pints is trusted: what pints.MCMCController.run / pints.OptimisationController.run return is the raw result; '
    'the Haario-Bardenet and Metropolis samplers report the starting point as the first draw',
    'population reference densities vf/ref.py; prior reference densities / CDFs written from the pints docstrings',
    'two-stage statistical rule of vf/stats.py (1e-4 then 1e-9 on 4x fresh draws)',
    'an individual posterior has no individual dimension in the dataset (pinned by the repository tests); its rows '
    'of the optimisation table all carry the likelihood ID',
    'downstream: the parameters a PosteriorPredictiveModel hands to PredictiveModel.sample(parameters, ...) are '
    'observed through a recording subclass of the predictive model (public interface)']
REQUIRED = ['indiv', 'hier', 'filter', 'kind:gauss', 'kind:lognorm', 'kind:trunc', 'kind:pooled', 'kind:hetero',
            'noncentered', 'cov', 'cov_pooled', 'red', 'comp', 'bare', 'ids:unsorted', 'ids:default', 'stat',
            'tight', 'wide', 'chains=1', 'draws=1', 'n_ids=1', 'param_map_swap', 'second_individual',
            'e2e:optimisation:broken_run', 'n_runs>default:two_steps', 'one_parameter', 'ids:numeric_strings', 'n_runs=default_untouched',
            'pointwise:sub_selected_dataset']

UNSORTED_IDS = ['id-e', 'id-b', 'id-d', 'id-a', 'id-c']
NUMERIC_STRING_IDS = ['007', '010', '1.0', '1e2', '+5']
SAMPLERS = {'haario': 'HaarioBardenetACMC', 'metropolis': 'MetropolisRandomWalkMCMC'}
OPTIMISERS = {'cmaes': 'CMAES', 'neldermead': 'NelderMead', 'xnes': 'XNES'}


# =============================================================================================
# priors by role
# =============================================================================================
def roles(pop, n_ids):
    """Role of every free population parameter: 'any', 'pos', 'scale', 'lloc', 'lscale' or 'narrow'."""
    k = pop['kind']
    if k in ref.ELEM:
        d = pop['n_dim']
        if k == 'gauss':
            return ['any'] * d + ['scale'] * d
        if k == 'lognorm':
            return ['lloc'] * d + ['lscale'] * d
        if k == 'trunc':
            return ['pos'] * d + ['scale'] * d
        if k == 'pooled':
            return ['any'] * d
        return ['any'] * (n_ids * d)
    if k == 'cov':
        base = pop['base']
        nd = base['n_dim']
        sel = ref.cov_selection(pop, n_ids)
        r = roles(base, n_ids)
        if base['kind'] == 'trunc':
            return ['narrow'] * (len(r) + len(sel) * pop['n_cov'])
        for (p, d) in sel:
            scale = base['kind'] in ('gauss', 'lognorm') and p == 1
            if scale:
                r[nd + d] = 'narrow'
            r += ['narrow' if scale else ('lloc' if base['kind'] == 'lognorm' else 'any')] * pop['n_cov']
        return r
    if k == 'red':
        full = roles(pop['base'], n_ids)
        return [x for j, x in enumerate(full) if j not in pop['fixed']]
    out = []
    for part in pop['parts']:
        out += roles(part, n_ids)
    return out


def _narrow(v):
    if v > 0:
        return dict(kind='uniform', a=gen.r6(0.98 * v), b=gen.r6(1.02 * v))
    if v < 0:
        return dict(kind='uniform', a=gen.r6(1.02 * v), b=gen.r6(0.98 * v))
    return dict(kind='uniform', a=0.0, b=1e-06)


def draw_prior(draw, rls, values, tight):
    out = []
    for r, v in zip(rls, values):
        if tight or r == 'narrow':
            out.append(_narrow(float(v)))
            continue
        if r == 'lloc':
            # location (and its covariate slopes) of a log-normal model: bounded, so that exp() neither overflows
            # nor underflows for any covariate value
            k = draw(st.sampled_from(['gaussian', 'uniform', 'lognormal']))
            if k == 'gaussian':
                out.append(dict(kind=k, a=draw(gen.real(-2, 3)), b=draw(gen.logu(0.2, 3.0))))
            elif k == 'uniform':
                out.append(dict(kind=k, a=0.0, b=draw(gen.logu(0.5, 5.0))))
            else:
                out.append(dict(kind=k, a=draw(gen.real(-1, 0.5)), b=draw(gen.logu(0.2, 0.5))))
            continue
        if r == 'lscale':
            if draw(st.booleans()):
                out.append(dict(kind='lognormal', a=draw(gen.real(-1, 0.5)), b=draw(gen.logu(0.2, 0.5))))
            else:
                out.append(dict(kind='uniform', a=0.0, b=draw(gen.logu(0.5, 3.0))))
            continue
        kinds = ['lognormal', 'uniform', 'halfcauchy'] + (['gaussian'] if r == 'any' else [])
        k = draw(st.sampled_from(kinds))
        if k == 'lognormal':
            out.append(dict(kind=k, a=draw(gen.real(-1, 1)), b=draw(gen.logu(0.2, 1.5))))
        elif k == 'gaussian':
            out.append(dict(kind=k, a=draw(gen.real(-2, 5)), b=draw(gen.logu(0.2, 5.0))))
        elif k == 'uniform':
            out.append(dict(kind=k, a=0.0, b=draw(gen.logu(2.0, 50.0))))
        else:
            out.append(dict(kind=k, a=0.0, b=draw(gen.logu(0.5, 5.0))))
    return out


def prior_cdf(p, x):
    """CDF of one prior (pints docstrings); nan outside the support."""
    a, b = p['a'], p['b']
    if p['kind'] == 'lognormal':
        return float(special.ndtr((math.log(x) - a) / b)) if x > 0 else float('nan')
    if p['kind'] == 'gaussian':
        return float(special.ndtr((x - a) / b))
    if p['kind'] == 'uniform':
        return (x - a) / (b - a) if a <= x < b else float('nan')
    return 2.0 / math.pi * math.atan((x - a) / b) if x > 0 else float('nan')


# =============================================================================================
# generator
# =============================================================================================
def _has_cov_special(pop):
    k = pop['kind']
    if k == 'cov':
        return pop['base']['kind'] in ('pooled', 'hetero')
    if k == 'red':
        return _has_cov_special(pop['base'])
    if k == 'comp':
        return any(_has_cov_special(p) for p in pop['parts'])
    return False


def _draw_common(draw, spec):
    spec['n_init'] = draw(st.integers(1, 4))
    spec['seeds'] = draw(st.lists(st.integers(0, 99999), min_size=3, max_size=3, unique=True))
    spec['tight'] = draw(st.booleans())
    spec['stat'] = gen.chance(draw, 0.25)
    spec['n_chains'] = draw(st.integers(1, 4))
    spec['n_draws'] = draw(st.integers(1, 6))
    # (controllers start with 5 runs: numbers below and above that default, also reached in two set_n_runs steps)
    spec['n_runs'] = draw(st.integers(6, 8)) if gen.chance(draw, 0.2) else draw(st.integers(1, 3))
    spec['n_runs_first'] = draw(st.sampled_from([None, None, 2, 6, 7]))
    if gen.chance(draw, 0.15):
        # the controller keeps the number of runs it is constructed with (5): set_n_runs is never called
        spec['n_runs'], spec['n_runs_first'] = 5, None
    spec['n_iter'] = draw(st.integers(3, 5))
    spec['sampler'] = draw(st.sampled_from(['haario', 'haario', 'metropolis']))
    spec['optimiser'] = draw(st.sampled_from(['cmaes', 'cmaes', 'neldermead', 'xnes']))
    spec['cseed'] = draw(st.integers(0, 9999))
    spec['pick'] = draw(st.integers(0, 5))
    spec['pp_n'] = draw(st.integers(1, 4))
    spec['pp_seed'] = draw(st.integers(0, 9999))
    spec['pp_swap'] = bool(gen.chance(draw, 0.35))
    spec['fail_runs'] = None
    if spec.get('n_runs', 1) >= 2 and gen.chance(draw, 0.4):
        # some (not the first, not all) optimisation runs break
        spec['fail_runs'] = sorted(draw(gen.subset(spec['n_runs'] - 1, min_size=1, max_size=spec['n_runs'] - 1)))
        spec['fail_runs'] = [j + 1 for j in spec['fail_runs']]
    spec['pp_times'] = gen.distinct(draw(gen.vec(gen.logu(0.05, 20.0), draw(st.integers(1, 3)))))


@st.composite
def _spec(draw):
    kind = draw(st.sampled_from(['hier', 'hier', 'hier', 'indiv', 'filter']))
    spec = dict(kind=kind)
    _draw_common(draw, spec)
    tight = spec['tight']
    if kind == 'indiv':
        ll = llbuild.draw_ll(draw)
        if gen.chance(draw, 0.25):
            # a posterior with exactly ONE free parameter (everything else fixed)
            ll = llbuild.draw_ll(draw, n_out=1, n_par=1)
            e0 = ll['ems'][0]
            e0['fixed'] = {str(j): (e0['fixed'] or {}).get(str(j), 0.5 + 0.25 * j) for j in range(ref.EM_NPAR[e0['kind']])}
        params = llbuild.draw_ll_params(draw, ll)
        rls = ['any'] * ll['n_par'] + ['scale'] * sum(llbuild.ll_n_sigma(ll))
        spec.update(ll=ll, theta0=params, prior=draw_prior(draw, rls, params, tight),
                    ident=draw(st.sampled_from([None, '7', 'mouse b', '007', '1e2'])))
        return spec
    if kind == 'hier':
        h = hbuild.draw_hier(draw, with_prior=False, p_nested=0.15)
        n_ids = h['n_ids']
        style = draw(st.sampled_from(['default', 'sorted', 'unsorted', 'unsorted', 'numeric_strings']))
        if style == 'default':
            h['ids'] = None
        elif style == 'sorted':
            h['ids'] = [str(10 * (i + 1)) for i in range(n_ids)]
        elif style == 'numeric_strings':
            # labels that look like numbers but are no canonical integers stay what they are
            h['ids'] = list(draw(st.permutations(NUMERIC_STRING_IDS)))[:n_ids]
        else:
            h['ids'] = list(draw(st.permutations(UNSORTED_IDS)))[:n_ids]
        nb = ref.hier_layout(h['pop'], n_ids)[0]
        theta0 = list(h['vec'][nb:])
        spec.update(h)
        spec['id_style'] = style
        spec['theta0'] = theta0
        spec['prior'] = draw_prior(draw, roles(h['pop'], n_ids), theta0, tight)
        return spec
    # ---- filter posterior (composition as in C13, optionally reduced; a plain filter: the filter class is
    # irrelevant for the alignment of names, individuals and draws)
    n_out = draw(st.sampled_from([1, 1, 2, 3]))
    n_par = draw(st.integers(1, 4))
    n_times = draw(st.integers(1, 3))
    n_s = draw(st.sampled_from([2, 2, 3, 4, 5, 6]))
    pop = c13._draw_pop(draw, n_par, n_s)
    cov = popgen.draw_cov_matrix(draw, n_s, ref.pop_n_cov(pop))
    cov_1d = False
    if cov is not None and gen.chance(draw, 0.4):
        cov_1d = True
        cov = [list(cov[0]) for _ in range(n_s)]
    if gen.chance(draw, 0.2):
        pop, theta = popgen.draw_reduced(draw, pop, n_s, cov, positive=True)
    else:
        theta = popgen.draw_theta(draw, pop, n_s, cov, positive=True)
    late = False
    if popgen.has(pop, 'hetero') and not popgen.has(pop, 'red') and not hbuild._cov_hetero(pop):
        late = gen.chance(draw, 0.5)
    sigma = None
    sig_free = draw(gen.vec(gen.logu(0.05, 0.5), n_out))
    if draw(st.booleans()):
        sigma, sig_free = sig_free, []
    times = gen.distinct(draw(gen.vec(gen.logu(0.05, 20.0), n_times)))
    n_data = draw(st.integers(2, 3))
    obs = [[[draw(gen.logu(0.5, 30.0)) for _ in range(n_times)] for _ in range(n_out)] for _ in range(n_data)]
    fkind = draw(st.sampled_from(['gauss', 'gauss', 'gkde', 'lognorm']))
    theta0 = list(theta) + list(sig_free)
    spec.update(n_out=n_out, n_par=n_par, pop=pop, n_samples=n_s, late=late, parts=[dict(kind=fkind, nt=n_times)],
                composed=False, obs=obs, times=times, sigma=sigma, log_scale=draw(st.booleans()), cov=cov,
                cov_1d=cov_1d, theta0=theta0)
    spec['prior'] = draw_prior(draw, roles(pop, n_s) + ['scale'] * len(sig_free), theta0, tight)
    return spec


def strategy(tier):
    return _spec()


# =============================================================================================
# measurement of the generator
# =============================================================================================
def _n_ind(spec):
    return {'indiv': 1, 'hier': spec.get('n_ids'), 'filter': spec.get('n_samples')}[spec['kind']]


def classify(spec):
    labs = {spec['kind'], 'tight' if spec['tight'] else 'wide'}
    if spec['stat']:
        labs.add('stat')
    labs.add('chains=%d' % spec['n_chains'] if spec['n_chains'] == 1 else 'chains>1')
    labs.add('draws=%d' % spec['n_draws'] if spec['n_draws'] == 1 else 'draws>1')
    if spec['kind'] == 'indiv' and llbuild.ll_n_parameters(spec['ll']) == 1:
        labs.add('one_parameter')
    labs.add('sampler:' + spec['sampler'])
    if spec.get('n_runs') == 5 and not spec.get('n_runs_first'):
        labs.add('n_runs=default_untouched')
    if spec.get('n_runs', 1) > 5:
        labs.add('n_runs>default')
        if spec.get('n_runs_first'):
            labs.add('n_runs>default:two_steps')
    labs.add('optimiser:' + spec['optimiser'])
    if spec['kind'] == 'indiv':
        labs.add('ident' if spec['ident'] is not None else 'no_ident')
        if spec['ll']['n_out'] > 1:
            labs.add('multi_output')
        return sorted(labs)
    pop = spec['pop']
    for lf in popgen.leaves(pop):
        labs.add('kind:' + lf['kind'])
        if lf['kind'] in ('gauss', 'lognorm') and not lf.get('centered', True):
            labs.add('noncentered')
    for k in ('cov', 'comp', 'red'):
        if popgen.has(pop, k):
            labs.add(k)
    if pop['kind'] != 'comp':
        labs.add('bare')
    if pop['kind'] == 'red' and pop['base']['kind'] == 'comp':
        labs.add('red(comp)')
    if any(p['kind'] == 'comp' for p in (pop['parts'] if pop['kind'] == 'comp' else [])):
        labs.add('nested')
    if _has_cov_special(pop):
        labs.add('cov_pooled')
    sp = ref.pop_special(pop)
    if any(sp):
        labs.add('special')
    if all(sp):
        labs.add('all_special')
    if any(sp) and not all(sp):
        labs.add('mixed_special')
    if _n_ind(spec) == 1:
        labs.add('n_ids=1')
    if spec.get('late'):
        labs.add('late_n_ids')
    if spec['kind'] == 'hier':
        labs.add('ids:' + spec['id_style'])
    else:
        labs.add('sigma:free' if spec['sigma'] is None else 'sigma:fixed')
    return sorted(labs)


def nontrivial(spec):
    if spec['kind'] == 'indiv':
        return False
    return _n_ind(spec) >= 2 and any(ref.pop_special(spec['pop']))


def structure(spec):
    common = [spec['n_chains'], spec['n_draws'], spec['tight']]
    if spec['kind'] == 'indiv':
        return ['indiv', llbuild.ll_structure(spec['ll'])[:3], spec['ident'] is not None] + common
    if spec['kind'] == 'hier':
        return ['hier', hbuild.structure(spec)[:3], spec['id_style'], bool(spec.get('late'))] + common
    return ['filter', popgen.structure(spec['pop']), spec['n_samples'], spec['n_out'], len(spec['times']),
            spec['sigma'] is None, spec['cov_1d'] if spec['cov'] is not None else None] + common


# =============================================================================================
# layout model and builders
# =============================================================================================
class Lay(object):
    """names[k], ids[k] of every position; top = positions of the top-level block (prior order);
    uid = individual labels in the given order."""


def lay(spec):
    L = Lay()
    kind = spec['kind']
    if kind == 'indiv':
        L.names = llbuild.ll_names(spec['ll'])
        L.ids = [None] * len(L.names)
        L.top = list(range(len(L.names)))
        L.uid = []
        L.bottom, L.eps = [], []
    elif kind == 'hier':
        names, ids, nb, nt = hbuild.layout(spec)
        L.names, L.ids = names, ids
        L.top = list(range(nb, nb + nt))
        L.bottom = list(range(nb))
        L.eps = []
        L.uid = hbuild.expected_ids(spec)
    else:
        L.names, L.ids = c13.names_ids(spec)
        cl = c13.layout(spec)
        L.top = list(range(cl['n_top']))
        L.bottom = list(range(cl['n_top'], cl['end_bottom']))
        L.eps = list(range(cl['end_bottom'], cl['n_total']))
        L.uid = ['Sim. %d' % (k + 1) for k in range(spec['n_samples'])]
    L.n = len(L.names)
    L.pos = {}
    L.dup = False
    for k, key in enumerate(zip(L.names, L.ids)):
        if key in L.pos:
            L.dup = True
        L.pos[key] = k
    return L


def _cov(spec):
    if spec.get('cov') is None:
        return None
    return np.array(spec['cov'], dtype=float)


def build(spec):
    kind = spec['kind']
    prior = llbuild.build_prior(spec['prior'])
    if kind == 'indiv':
        return chi.LogPosterior(llbuild.build_ll(spec['ll'], ident=spec['ident']), prior)
    if kind == 'hier':
        return chi.HierarchicalLogPosterior(hbuild.build_hier(spec), prior)
    return c13.build(spec)


def split(spec, vec):
    """(pop spec, n individuals, theta, x (n, n_dim; special dimensions filled), cov) of one flat vector."""
    if spec['kind'] == 'hier':
        x, theta = ref.hier_split(spec['pop'], spec['n_ids'], vec, _cov(spec))
        return spec['pop'], spec['n_ids'], theta, x, _cov(spec)
    theta, _, x, _ = c13.split(spec, vec)
    return spec['pop'], spec['n_samples'], theta, x, _cov(spec)


def chi_pop_density(spec, P, vec, L):
    pm = P.get_population_model()
    if spec['kind'] == 'hier':
        top = vec[L.top]
        bottom = vec[L.bottom]
    else:
        top = vec[:c13.layout(spec)['n_pop']]
        bottom = vec[L.bottom]
    cov = _cov(spec)
    eta = pm.compute_individual_parameters(parameters=top, eta=bottom, covariates=cov, return_eta=True)
    return float(pm.compute_log_likelihood(top, eta, covariates=cov))


def pit_matrix(pop, n, theta, x, cov):
    """(n, n_dim) probability-integral transform of the individual-level entries under the population model at
    theta (per individual: covariate-shifted parameters); nan for pooled / heterogeneous dimensions."""
    def fn(e, Pm, xi, i):
        out = []
        k = e['kind']
        for d in range(e['n_dim']):
            v = float(np.real(xi[d]))
            if k in ('pooled', 'hetero'):
                out.append(float('nan'))
            elif k in ('gauss', 'lognorm') and not e.get('centered', True):
                out.append(float(special.ndtr(v)))
            elif k == 'gauss':
                out.append(float(special.ndtr((v - Pm[0, d]) / Pm[1, d])))
            elif k == 'lognorm':
                out.append(float(special.ndtr((math.log(v) - Pm[0, d]) / Pm[1, d])) if v > 0 else -1.0)
            else:
                mu, s = float(Pm[0, d]), float(Pm[1, d])
                if v < 0:
                    out.append(-1.0)
                else:
                    out.append(1.0 - math.exp(float(special.log_ndtr(-(v - mu) / s) - special.log_ndtr(mu / s))))
        return out
    leaves = ref._walk(pop, n, np.asarray(theta, dtype=float), np.asarray(x, dtype=float), cov, fn)
    rows = []
    for i in range(n):
        r = []
        for leaf in leaves:
            r += list(leaf[i])
        rows.append(r)
    return np.array(rows, dtype=float)


# =============================================================================================
# watermarks
# =============================================================================================
def watermark(n_chains, n_draws, n_par):
    c = np.arange(n_chains)[:, None, None]
    d = np.arange(n_draws)[None, :, None]
    k = np.arange(n_par)[None, None, :]
    return 1000.0 * c + 10.0 * d + (k + 1) / 1000.0


def decode(v):
    c = int(math.floor(v / 1000.0 + 1e-9))
    d = int(math.floor((v - 1000.0 * c) / 10.0 + 1e-9))
    k = int(round((v - 1000.0 * c - 10.0 * d) * 1000.0)) - 1
    return c, d, k


def valid_watermark(n_chains, n_draws, n_par, tiny):
    """Pairwise distinct positive values usable as model parameters; positions in `tiny` (error scales) are
    multiplied by 1e-7."""
    c = np.arange(n_chains)[:, None, None]
    d = np.arange(n_draws)[None, :, None]
    k = np.arange(n_par)[None, None, :]
    raw = 0.5 + 0.31 * k + 0.01 * (c * n_draws + d)
    raw = np.array(raw, dtype=float)
    for j in tiny:
        raw[:, :, j] *= 1e-7
    return raw


def _what(L, k):
    if k is None or k < 0 or k >= L.n:
        return 'no position'
    return 'position %d (%s%s)' % (k, L.names[k], '' if L.ids[k] is None else ', ' + str(L.ids[k]))


# =============================================================================================
# dataset / table comparison
# =============================================================================================
def expected_vars(L):
    """name -> position (population level) or {id: position} (individual level)."""
    out = {}
    for k, (n, i) in enumerate(zip(L.names, L.ids)):
        if i is None:
            out[n] = k
        else:
            out.setdefault(n, {})[i] = k
    return out


def check_dataset(case, tag, ds, raw, L, marked):
    import xarray as xr
    ev = expected_vars(L)
    n_chains, n_draws, _ = raw.shape
    ok = True
    with case.clause(tag + '_vars'):
        case.true(isinstance(ds, xr.Dataset), 'result is a %s, not an xarray.Dataset' % type(ds).__name__, kind='type')
        got = [str(v) for v in ds.data_vars]
        case.equal(sorted(got), sorted(ev), 'data variables (every parameter name exactly once)')
    if (tag + '_vars') not in case.checked:
        return False
    with case.clause(tag + '_dims'):
        for name, e in ev.items():
            da = ds[name]
            if isinstance(e, dict):
                case.equal(tuple(da.dims), ('chain', 'draw', 'individual'), 'dims of individual-level %r' % name)
                case.equal(tuple(da.shape), (n_chains, n_draws, len(L.uid)), 'shape of %r' % name, kind='shape')
            else:
                case.equal(tuple(da.dims), ('chain', 'draw'), 'dims of population-level %r' % name)
                case.equal(tuple(da.shape), (n_chains, n_draws), 'shape of %r' % name, kind='shape')
            case.equal([int(v) for v in da.coords['chain'].values], list(range(n_chains)), 'chain coordinate of %r' % name)
            case.equal([int(v) for v in da.coords['draw'].values], list(range(n_draws)), 'draw coordinate of %r' % name)
    ok = ok and (tag + '_dims') in case.checked
    with case.clause(tag + '_ids'):
        for name, e in ev.items():
            if isinstance(e, dict):
                case.equal([str(v) for v in ds[name].coords['individual'].values], [str(u) for u in L.uid],
                           'individual coordinate of %r (IDs in the given order)' % name)
    if not ok:
        return False
    with case.clause(tag + '_values'):
        n_entries = 0
        for name, e in ev.items():
            if isinstance(e, dict):
                labels = [str(v) for v in ds[name].coords['individual'].values]
                vals = np.asarray(ds[name].values, dtype=float)
                for i, k in e.items():
                    case.true(labels.count(str(i)) == 1, 'ID %r occurs %d times in the individual coordinate of %r' % (
                        i, labels.count(str(i)), name))
                    _cmp_entries(case, vals[:, :, labels.index(str(i))], raw, k, L, marked)
                    n_entries += n_chains * n_draws
            else:
                _cmp_entries(case, np.asarray(ds[name].values, dtype=float), raw, e, L, marked)
                n_entries += n_chains * n_draws
        case.equal(n_entries, int(raw.size), 'number of dataset entries vs raw entries (bijection)')
    return (tag + '_values') in case.checked


def _cmp_entries(case, got, raw, k, L, marked):
    want = raw[:, :, k]
    if got.shape != want.shape:
        case.fail('shape', '%s: shape %s expected %s' % (_what(L, k), got.shape, want.shape))
    bad = ~((got == want) | (np.isnan(got) & np.isnan(want)))
    if np.any(bad):
        c, d = [int(v) for v in np.argwhere(bad)[0]]
        msg = 'entry (chain %d, draw %d) of %s holds %r, raw chain has %r' % (c, d, _what(L, k), got[c, d], want[c, d])
        if marked and np.isfinite(got[c, d]):
            c2, d2, k2 = decode(float(got[c, d]))
            msg += ': that is the raw entry of chain %d, draw %d, %s' % (c2, d2, _what(L, k2))
        case.fail('mismatch', msg)


def _norm_id(v):
    if v is None:
        return None
    if isinstance(v, float) and v != v:
        return None
    return str(v)


def _norm_num(v):
    v = float(v)
    return 'nan' if v != v else v


# =============================================================================================
# recording predictive models (downstream)
# =============================================================================================
class RecordingPredictiveModel(chi.PredictiveModel):
    def sample(self, parameters, *args, **kwargs):
        self.__dict__.setdefault('seen', []).append(np.array(parameters, dtype=float))
        return super(RecordingPredictiveModel, self).sample(parameters, *args, **kwargs)


class RecordingPopulationPredictiveModel(chi.PopulationPredictiveModel):
    """Records the population parameters it is asked to sample at; returns zeros (the population parameters
    are watermarks, not a meaningful population)."""
    def sample(self, parameters, times, n_samples=None, *args, **kwargs):
        self.__dict__.setdefault('seen', []).append(np.array(parameters, dtype=float))
        n = 1 if not n_samples else int(n_samples)
        return np.zeros((self.get_n_outputs(), len(times), n))


# =============================================================================================
# check
# =============================================================================================
def cause_tag(spec):
    """Structural label appended to the bucket of an exception raised by sample_initial_parameters, so that
    different root causes (covariate model around a point-mass dimension, reduced wrapper, nested composite) are
    shrunk and reported separately."""
    if spec['kind'] == 'indiv':
        return 'indiv'
    pop = spec['pop']
    tags = []
    if _has_cov_special(pop):
        tags.append('cov_special')
    if popgen.has(pop, 'red') and any(ref.pop_special(pop)):
        tags.append('red_special')
    if any(p['kind'] == 'comp' for p in (pop['parts'] if pop['kind'] == 'comp' else [])) and any(ref.pop_special(pop)):
        tags.append('nested_special')
    return spec['kind'] + ':' + ('+'.join(tags) if tags else 'other')


def tagged(case, spec, fn):
    """Run fn(); an exception raised inside chi is recorded under '<kind of the exception>:<cause_tag>'."""
    from vf.core import exc_kind
    try:
        return fn()
    except (KeyboardInterrupt, SystemExit, MemoryError):
        raise
    except Exception as e:  # noqa
        kind = exc_kind(e)
        if kind is None:
            raise
        case.fail(kind + ':' + cause_tag(spec), '%s: %s' % (type(e).__name__, e))


def check(case):
    s = case.spec
    kind = s['kind']
    L = lay(s)
    if L.dup:
        with case.clause('layout'):
            raise Inconclusive()
        return

    with case.clause('construct'):
        P = build(s)
    if case.fails:
        return

    with case.clause('dimension'):
        case.equal(int(P.n_parameters()), L.n, 'n_parameters() vs layout model')
        case.equal([str(n) for n in P.get_parameter_names()], L.names, 'parameter names vs layout model')

    _check_initial(case, s, P, L)
    _check_inference(case, s, P, L)


# ---------------------------------------------------------------------------------------------
def _check_initial(case, s, P, L):
    kind = s['kind']
    n, (seed, seed_b, seed_c) = s['n_init'], s['seeds']
    X = None
    with case.clause('init_shape'):
        X = np.asarray(tagged(case, s, lambda: P.sample_initial_parameters(n_samples=n, seed=seed)), dtype=float)
        case.equal(tuple(X.shape), (n, L.n), 'shape of sample_initial_parameters(%d)' % n, kind='shape')
    if 'init_shape' not in case.checked:
        return
    with case.clause('init_seed'):
        again = np.asarray(P.sample_initial_parameters(n_samples=n, seed=seed), dtype=float)
        case.true(np.array_equal(X, again), 'two calls with seed %d differ' % seed)
        others = [np.asarray(P.sample_initial_parameters(n_samples=n, seed=sd), dtype=float) for sd in (seed_b, seed_c)]
        case.true(not all(np.array_equal(X, o) for o in others),
                  'seeds %d, %d and %d give identical initial points' % (seed, seed_b, seed_c))
    with case.clause('init_prior_finite'):
        lp = P.get_log_prior()
        for r, row in enumerate(X):
            case.true(bool(np.all(np.isfinite(row))), 'row %d contains non-finite entries: %r' % (r, row.tolist()),
                      kind='nonfinite')
            w = float(np.real(llbuild.ref_prior(s['prior'], row[L.top])))
            case.true(np.isfinite(w), 'row %d: reference prior log-density of the top-level block %r is %r' % (
                r, row[L.top].tolist(), w), kind='nonfinite')
            g = float(lp(row[L.top]))
            case.true(np.isfinite(g), 'row %d: prior log-density of the top-level block is %r' % (r, g), kind='nonfinite')
    if kind == 'indiv':
        if s['stat']:
            _check_distribution(case, s, P, L)
        return
    with case.clause('init_population_finite'):
        for r, row in enumerate(X):
            g = chi_pop_density(s, P, row, L)
            case.true(np.isfinite(g), 'row %d: population log-density of (bottom | top) is %r; top %r bottom %r' % (
                r, g, row[L.top].tolist(), row[L.bottom].tolist()), kind='nonfinite')
    with case.clause('init_population_finite_ref'):
        for r, row in enumerate(X):
            pop, n_i, theta, x, cov = split(s, row)
            w = float(np.real(ref.pop_loglik(pop, n_i, theta, x, cov)))
            case.true(np.isfinite(w), 'row %d: reference population log-density of (bottom | top) is %r; top %r '
                      'bottom %r' % (r, w, row[L.top].tolist(), row[L.bottom].tolist()), kind='nonfinite')
    if s['stat']:
        _check_distribution(case, s, P, L)


def _check_distribution(case, s, P, L):
    kind = s['kind']
    n_i = _n_ind(s)
    n1 = max(250, int(math.ceil(1000.0 / n_i)))
    hd = [d for d, sp in enumerate(ref.pop_special(s['pop'])) if sp is None] if kind != 'indiv' else []

    def draw(n, seed):
        return np.asarray(P.sample_initial_parameters(n_samples=n, seed=seed), dtype=float)

    def tests(X):
        out = {}
        if X.ndim != 2 or X.shape[1] != L.n:
            return {('init_distribution', 'shape'): (0.0, 'shape', 'shape %s' % (X.shape,))}
        top_u = []
        for j, k in enumerate(L.top):
            u = np.array([prior_cdf(s['prior'][j], float(v)) for v in X[:, k]])
            top_u.append(u)
            p, det = stats.ks_uniform(u)
            out[('init_distribution', 'top', j)] = (p, 'KS prior', '%s ~ %r: %s' % (L.names[k], s['prior'][j], det))
        if kind == 'indiv':
            return out
        U = []
        for row in X:
            pop, n_ind, theta, x, cov = split(s, row)
            try:
                U.append(pit_matrix(pop, n_ind, theta, x, cov))
            except (ValueError, ZeroDivisionError, FloatingPointError):
                U.append(np.full((n_ind, len(ref.pop_special(pop))), -1.0))
        U = np.array(U)                                   # (rows, n_ind, n_dim)
        dim_names = hbuild.ll_param_names(s) if kind == 'hier' else c13.PAR_NAMES[:s['n_par']]
        for d in hd:
            u = U[:, :, d].ravel()
            p, det = stats.ks_uniform(u)
            out[('init_distribution', 'bottom', d)] = (p, 'KS population', 'individual entries of %s: %s' % (
                dim_names[d], det))
            if np.all((u > 0) & (u < 1)):
                z = special.ndtri(u)
                p, det = stats.z_mean(z)
                out[('init_distribution', 'bottom_mean', d)] = (p, 'z mean', 'standardised individual entries of %s: %s' % (
                    dim_names[d], det))
                p, det = stats.z_var(z)
                out[('init_distribution', 'bottom_var', d)] = (p, 'z var', 'standardised individual entries of %s: %s' % (
                    dim_names[d], det))
                zz = special.ndtri(U[:, :, d])
                if U.shape[1] >= 2:
                    # individuals are drawn independently: first vs last individual of the same initial point
                    p, det = stats.corr_pearson(zz[:, 0], zz[:, -1])
                    out[('init_distribution', 'bottom_indep', d)] = (p, 'corr', 'first vs last individual, %s: %s' % (
                        dim_names[d], det))
                # given the top-level values the individual entries are independent of them (separate streams for
                # the prior and the population model): standardised entry of the first individual vs prior PIT
                for j in range(min(3, len(L.top))):
                    ut = top_u[j]
                    if np.all((ut > 0) & (ut < 1)):
                        p, det = stats.corr_pearson(zz[:, 0], special.ndtri(ut))
                        out[('init_distribution', 'bottom_vs_top', d, j)] = (
                            p, 'corr', 'standardised %s of the first individual vs %s: %s' % (
                                dim_names[d], L.names[L.top[j]], det))
        if L.eps:
            e = X[:, L.eps].ravel()
            p, det = stats.ks_uniform(special.ndtr(e))
            out[('init_distribution', 'eps')] = (p, 'KS N(0,1)', 'noise realisations: %s' % det)
            p, det = stats.z_mean(e)
            out[('init_distribution', 'eps_mean')] = (p, 'z mean', 'noise realisations: %s' % det)
        return out

    with case.clause('init_distribution'):
        res = stats.two_stage(draw, tests, s['seeds'][0], n1)
        if not res.evaluated:
            raise Inconclusive()
        if res.findings:
            f = res.findings[0]
            case.fail('distribution:' + str(f.key[1]), f.text()[:560])


# ---------------------------------------------------------------------------------------------
def _check_inference(case, s, P, L):
    kind = s['kind']
    ctrl = None
    with case.clause('controller'):
        ctrl = chi.SamplingController(P, seed=s['cseed'])
        if s.get('n_runs_first'):
            ctrl.set_n_runs(s['n_runs_first'])
        if s['n_runs'] != 5 or s.get('n_runs_first'):
            ctrl.set_n_runs(s['n_runs'])
        ctrl.set_parallel_evaluation(False)
        ctrl.set_sampler(getattr(pints, SAMPLERS[s['sampler']]))
    if 'controller' not in case.checked:
        return

    # ---- formatting of watermarked raw chains
    raw = watermark(s['n_chains'], s['n_draws'], L.n)
    ds = None
    with case.clause('format_call'):
        ds = ctrl._format_chains(raw.copy(), None)
    if ds is not None:
        check_dataset(case, 'format', ds, raw, L, True)

    # ---- end to end
    x0 = None
    finite = False
    with case.clause('start_points'):
        x0 = np.asarray(P.sample_initial_parameters(n_samples=s['n_runs'], seed=s['cseed']), dtype=float)
        finite = all(np.isfinite(float(P(row.copy()))) for row in x0)
    if x0 is not None and finite:
        _run_sampling(case, s, ctrl, L, x0)
    if x0 is not None:
        _run_optimisation(case, s, P, L)

    # ---- downstream
    if ds is not None and ('format_values' in case.checked):
        _check_downstream(case, s, P, L, ctrl)


def _run_sampling(case, s, ctrl, L, x0):
    captured = []
    orig = pints.MCMCController.run

    def wrapped(self, *a, **k):
        out = orig(self, *a, **k)
        captured.append(np.array(out, dtype=float, copy=True))
        return out
    ds = None
    pints.MCMCController.run = wrapped
    try:
        with case.clause('run_sampling'):
            ds = ctrl.run(n_iterations=s['n_iter'])
            case.equal(len(captured), 1, 'number of pints.MCMCController.run calls')
            case.equal(tuple(captured[0].shape), (s['n_runs'], s['n_iter'], L.n), 'raw chains of pints', kind='shape')
    finally:
        pints.MCMCController.run = orig
    if ds is None or 'run_sampling' not in case.checked:
        return
    case.labels.append('e2e:sampling')
    with case.clause('run_start'):
        # single-chain samplers of pints report the starting point as the first draw: the chains start at the
        # initial points of the controller's seed
        case.close(captured[0][:, 0, :], x0, rtol=0, atol=0,
                   what='first draw of every chain vs sample_initial_parameters(n_runs, seed of the controller)')
    check_dataset(case, 'run', ds, captured[0], L, False)
    # the controller is run a second time (e.g. with another number of iterations): it starts from the same initial points
    # of its seed again, not from where the first run ended
    captured2 = []

    def wrapped2(self, *a, **k):
        out = orig(self, *a, **k)
        captured2.append(np.array(out, dtype=float, copy=True))
        return out
    pints.MCMCController.run = wrapped2
    try:
        with case.clause('run_start_second_run'):
            ctrl.run(n_iterations=2)
            case.equal(len(captured2), 1, 'number of pints.MCMCController.run calls of the second run')
            case.close(captured2[0][:, 0, :], x0, rtol=0, atol=0,
                       what='first draw of every chain of a SECOND run vs sample_initial_parameters(n_runs, seed)')
    finally:
        pints.MCMCController.run = orig


def _run_optimisation(case, s, P, L):
    captured = []
    orig = pints.OptimisationController.run

    def wrapped(self, *a, **k):
        if len(captured) in (s.get('fail_runs') or []):
            # fault injection: this optimisation run breaks (chi documents NaN estimates and score for such a run)
            captured.append(None)
            raise RuntimeError('injected failure of optimisation run %d' % len(captured))
        try:
            x, f = orig(self, *a, **k)
        except Exception:
            captured.append(None)
            raise
        captured.append((np.array(x, dtype=float, copy=True), float(f)))
        return x, f
    table = None
    pints.OptimisationController.run = wrapped
    try:
        with case.clause('run_optimisation'):
            oc = chi.OptimisationController(P, seed=s['cseed'])
            if s.get('n_runs_first'):
                oc.set_n_runs(s['n_runs_first'])
            if s['n_runs'] != 5 or s.get('n_runs_first'):
                oc.set_n_runs(s['n_runs'])
            oc.set_parallel_evaluation(False)
            opt = s['optimiser']
            if L.n < 2 and opt == 'cmaes':
                opt = 'xnes'            # pints: CMA-ES does not support one-dimensional problems
            oc.set_optimiser(getattr(pints, OPTIMISERS[opt]))
            table = oc.run(n_max_iterations=s['n_iter'])
            case.equal(len(captured), s['n_runs'], 'number of pints.OptimisationController.run calls')
    finally:
        pints.OptimisationController.run = orig
    if table is None or 'run_optimisation' not in case.checked:
        return
    if any(c is not None for c in captured):
        case.labels.append('e2e:optimisation')
    if any(c is None for c in captured) and any(c is not None for c in captured):
        case.labels.append('e2e:optimisation:broken_run')
    with case.clause('table'):
        case.equal([str(c) for c in table.columns], ['ID', 'Parameter', 'Estimate', 'Score', 'Run'], 'columns')
        case.equal(len(table), s['n_runs'] * L.n, 'number of rows', kind='shape')
        ids = L.ids
        if s['kind'] == 'indiv':
            ids = [s['ident']] * L.n
        want = {}
        for r, cap in enumerate(captured):
            for k in range(L.n):
                est = float('nan') if cap is None else float(cap[0][k])
                sc = float('nan') if cap is None else cap[1]
                key = (_norm_id(ids[k]), L.names[k], _norm_num(est), _norm_num(sc), r + 1)
                want[key] = want.get(key, 0) + 1
        got = {}
        for row in table.itertuples(index=False):
            key = (_norm_id(row[0]), str(row[1]), _norm_num(row[2]), _norm_num(row[3]), int(row[4]))
            got[key] = got.get(key, 0) + 1
        if got != want:
            missing = sorted([k for k in want if got.get(k, 0) < want[k]], key=repr)
            extra = sorted([k for k in got if want.get(k, 0) < got[k]], key=repr)
            case.fail('mismatch', 'rows (ID, Parameter, Estimate, Score, Run): expected but absent %r; present but '
                      'unexpected %r' % (missing[:2], extra[:2]))


# ---------------------------------------------------------------------------------------------
def _downstream_plan(s, L):
    """What the downstream consumers are given and must select: the individual model (likelihood-like spec `ll`,
    builders), the individual's label, param_map, the parameters to fix (absent from the dataset), the kept model
    parameter names in model order and, for each, the position of the raw chain it must be read from."""
    kind = s['kind']
    if kind == 'indiv':
        ll = s['ll']
        names = llbuild.ll_names(ll)
        return dict(ll=ll, ident=s['ident'], label=None, pmap={}, fix={}, names=names, full_names=names,
                    out_names=llbuild.out_names(ll), cols=[L.pos[(n, None)] for n in names],
                    models=lambda: (llbuild.build_model(ll), llbuild.build_error_models(ll)),
                    lik=lambda: llbuild.build_ll(ll, ident=s['ident']))
    sp = ref.pop_special(s['pop'])
    if kind == 'hier':
        i = s['pick'] % s['n_ids']
        ll = s['lls'][i]
        full = llbuild.ll_names(ll)
        mech = full
        out_names = llbuild.out_names(ll)
        sigma_names = []
    else:
        i = s['pick'] % s['n_samples']
        n_par, n_out = s['n_par'], s['n_out']
        mech = c13.PAR_NAMES[:n_par]
        out_names = c13.OUT_NAMES[:n_out]
        sigma_names = ['Sigma' if n_out == 1 else '%s Sigma' % o for o in out_names]
        full = mech + sigma_names
        ll = dict(n_out=n_out, n_par=n_par, ems=[dict(kind='gauss', fixed=None) for _ in range(n_out)],
                  times=[list(s['pp_times'])] * n_out, obs=[[1.0] * len(s['pp_times'])] * n_out)
    label = L.uid[i]
    pmap, fix, keep, cols = {}, {}, [], []
    for d, n in enumerate(mech):
        if sp[d] is None:
            keep.append(n)
            cols.append(L.pos[(n, label)])
            continue
        target = ('Pooled %s' % n) if sp[d] == 'pooled' else ('ID %d %s' % (i + 1, n))
        if (target, None) in L.pos:
            pmap[n] = target
            keep.append(n)
            cols.append(L.pos[(target, None)])
        else:
            # fixed by a reduced wrapper: not in the dataset (error scales tiny, like their watermarks)
            fix[n] = 1.0 if d < ll['n_par'] else 1e-7
    for o, n in enumerate(sigma_names):
        target = 'Sigma %s' % out_names[o]
        if (target, None) in L.pos:
            pmap[n] = target
            keep.append(n)
            cols.append(L.pos[(target, None)])
        else:
            fix[n] = 1e-7
    plan = dict(ll=ll, ident=label, label=label, pmap=pmap, fix=fix, names=keep, full_names=full, out_names=out_names,
                cols=cols)
    if kind == 'hier':
        plan['models'] = lambda: (llbuild.build_model(ll), llbuild.build_error_models(ll))
        plan['lik'] = lambda: llbuild.build_ll(ll, ident=label)
    else:
        plan['models'] = lambda: (AnalyticModel(s['n_out'], s['n_par'], list(mech), list(out_names)),
                                  [chi.GaussianErrorModel() for _ in out_names])
        plan['lik'] = None
    return plan


def _check_downstream(case, s, P, L, ctrl):
    plan = _downstream_plan(s, L)
    if not plan['names']:
        return
    ll = plan['ll']
    n_mech = ll['n_par']
    full_names = plan['full_names']
    tiny = [c for n, c in zip(plan['names'], plan['cols']) if full_names.index(n) >= n_mech]
    raw = valid_watermark(s['n_chains'], s['n_draws'], L.n, tiny)
    ds = None
    with case.clause('downstream_dataset'):
        ds = ctrl._format_chains(raw.copy(), None)
    if ds is None:
        return
    cols = plan['cols']
    rows = raw[:, :, cols]                                   # (chains, draws, n_model_parameters)
    flat = rows.reshape(-1, len(cols))
    fixed_vals = dict(plan['fix'])
    times = np.array(s['pp_times'], dtype=float)
    kw = {} if plan['label'] is None else {'individual': plan['label']}
    if not L.bottom:
        kw = {}                                               # no individual dimension in the dataset

    # The dataset may store two parameters under each other's MODEL names (the user's param_map says so): variable
    # b holds the draws of model parameter a and vice versa.
    ds_pop = ds
    pmap_before_swap = dict(plan['pmap'])
    own = [n for n in plan['names'] if n not in plan['pmap']]
    if s.get('pp_swap') and len(own) >= 2:
        a, b = own[0], own[-1]
        ds = ds.rename({a: '__tmp__'}).rename({b: a}).rename({'__tmp__': b})
        plan['pmap'] = dict(plan['pmap'])
        plan['pmap'][a] = b
        plan['pmap'][b] = a
        case.labels.append('param_map_swap')

    # ---- posterior predictive model over the individual predictive model
    with case.clause('predictive_individual'):
        pm = RecordingPredictiveModel(*plan['models']())
        if fixed_vals:
            pm.fix_parameters(fixed_vals)
        case.equal([str(n) for n in pm.get_parameter_names()], plan['names'], 'predictive model parameter names')
        ppm = chi.PosteriorPredictiveModel(pm, ds, param_map=dict(plan['pmap']))
        ppm_individual, pm_individual = ppm, pm
        df = ppm.sample(times, n_samples=s['pp_n'], seed=s['pp_seed'], **kw)
        seen = pm.__dict__.get('seen', [])
        case.equal(len(seen), s['pp_n'], 'number of predictive-model evaluations')
        for q, v in enumerate(seen):
            hit = [r for r in range(len(flat)) if v.shape == flat[r].shape and np.array_equal(v, flat[r])]
            if not hit:
                where = []
                for j, val in enumerate(v):
                    m = np.argwhere(raw == val)
                    where.append('%s<-%s' % (plan['names'][j] if j < len(plan['names']) else '?',
                                             ('chain %d draw %d ' % (m[0][0], m[0][1]) + _what(L, int(m[0][2])))
                                             if len(m) else repr(float(val))))
                case.fail('mismatch', 'draw %d handed to the predictive model is no (chain, draw) row of the columns '
                          '%s: %s' % (q, [_what(L, c) for c in cols], '; '.join(where)))
        # decode the sampled values: every sample lies within 12 sd of the noise-free output of a (chain, draw) row
        st_times = np.sort(times)
        for sid in sorted(set(int(v) for v in df['ID'])):
            sub = df[df['ID'] == sid]
            y = []
            for o in plan['out_names']:
                so = sub[sub['Observable'] == o].sort_values('Time')
                case.equal([float(t) for t in so['Time']], [float(t) for t in st_times], 'times of sample %d' % sid)
                y.append(np.asarray(so['Value'], dtype=float))
            y = np.array(y)
            ok = False
            for r in range(len(flat)):
                par = _full_params(plan, flat[r], fixed_vals)
                ybar = np.real(ref_outputs(par[:n_mech], st_times, ll['n_out']))
                sig = llbuild.split_sigmas(ll, par)
                good = True
                for o, e in enumerate(ll['ems']):
                    sg = [float(v) for v in sig[o]]
                    if e['kind'] == 'lognorm':
                        # log y ~ N(log ybar - s^2/2, s^2): compare on the log scale (heavy upper tail)
                        with np.errstate(all='ignore'):
                            dev = np.abs(np.log(y[o]) - (np.log(ybar[o]) - sg[0] ** 2 / 2.0))
                        bad = ~(dev <= 12.0 * abs(sg[0]) + 1e-12)
                    else:
                        _, sd = ref.em_mean_std(e['kind'], sg, ybar[o])
                        bad = ~(np.abs(y[o] - ybar[o]) <= 12.0 * np.abs(sd) + 1e-12)
                    if np.any(bad):
                        good = False
                        break
                if good:
                    ok = True
                    break
            case.true(ok, 'sample %d (%r) is not within 12 sd of the model output of any (chain, draw) row of the '
                      'columns %s' % (sid, y.tolist(), [_what(L, c) for c in cols]))

    # ---- the same posterior predictive model asked for ANOTHER individual afterwards
    if plan['label'] is not None and L.bottom and 'predictive_individual' in case.checked and s['kind'] != 'indiv':
        plan2 = _downstream_plan(dict(s, pick=s['pick'] + 1), L)
        if plan2['label'] != plan['label'] and plan2['names'] == plan['names'] and plan2['pmap'] == pmap_before_swap \
                and plan2['fix'] == plan['fix']:
            with case.clause('predictive_second_individual'):
                case.labels.append('second_individual')
                pm.__dict__['seen'] = []
                ppm.sample(times, n_samples=s['pp_n'], seed=s['pp_seed'] + 1, individual=plan2['label'])
                flat2 = raw[:, :, plan2['cols']].reshape(-1, len(plan2['cols']))
                for q, v in enumerate(pm.__dict__.get('seen', [])):
                    hit = any(v.shape == r.shape and np.array_equal(v, r) for r in flat2)
                    first = any(v.shape == r.shape and np.array_equal(v, r) for r in flat)
                    case.true(hit, 'second call (individual %r after %r on the same model): draw %d handed to the '
                              'predictive model is no (chain, draw) row of that individual%s' % (
                                  plan2['label'], plan['label'], q,
                                  ' (it is a row of the individual requested FIRST)' if first else ''))

    # ---- pointwise log-likelihood of the individual likelihood
    if plan['lik'] is not None:
        with case.clause('pointwise'):
            lik = plan['lik']()
            if fixed_vals:
                lik.fix_parameters(fixed_vals)
            case.equal([str(n) for n in lik.get_parameter_names()], plan['names'], 'likelihood parameter names')
            pw = chi.compute_pointwise_loglikelihood(lik, ds, param_map=dict(plan['pmap']), **kw)
            case.equal([str(n) for n in lik.get_parameter_names()], plan['names'],
                       'likelihood parameter names after compute_pointwise_loglikelihood(param_map=%r)' % plan['pmap'])
            n_obs = int(sum(len(t) for t in ll['times']))
            case.equal(tuple(pw.dims), ('chain', 'draw', 'observation'), 'dims of the pointwise log-likelihood')
            case.equal(tuple(pw.shape), (s['n_chains'], s['n_draws'], n_obs), 'shape of the pointwise log-likelihood',
                       kind='shape')
            vals = np.asarray(pw.values, dtype=float)
            for c in range(s['n_chains']):
                for d in range(s['n_draws']):
                    want = np.asarray(lik.compute_pointwise_ll(rows[c, d].copy()), dtype=float)
                    case.close(vals[c, d], want, rtol=1e-12, what='pointwise log-likelihood of chain %d, draw %d '
                               '(columns %s)' % (c, d, [_what(L, k) for k in cols]))

            # a dataset with warm-up draws discarded and / or a chain removed keeps its chain and draw labels: the
            # entry labelled (chain c, draw d) is the pointwise log-likelihood of the draw labelled (c, d)
            d0 = 1 if s['n_draws'] >= 2 else 0
            keep_c = [c for c in range(s['n_chains']) if c != (s['pick'] % s['n_chains'])] if s['n_chains'] >= 2 \
                else [0]
            if (d0 or len(keep_c) < s['n_chains']) and not case.fails:
                sub = ds.sel(draw=slice(d0, None)).sel(chain=keep_c)
                pw2 = chi.compute_pointwise_loglikelihood(lik, sub, param_map=dict(plan['pmap']), **kw)
                case.equal(tuple(pw2.shape), (len(keep_c), s['n_draws'] - d0, n_obs),
                           'shape of the pointwise log-likelihood of a sub-selected dataset', kind='shape')
                case.equal([int(v) for v in pw2.coords['chain'].values], keep_c,
                           'chain labels of the pointwise log-likelihood of a sub-selected dataset')
                case.equal([int(v) for v in pw2.coords['draw'].values], list(range(d0, s['n_draws'])),
                           'draw labels of the pointwise log-likelihood of a sub-selected dataset')
                if not case.fails:
                    for c in keep_c:
                        for d in range(d0, s['n_draws']):
                            want = np.asarray(lik.compute_pointwise_ll(rows[c, d].copy()), dtype=float)
                            case.close(np.asarray(pw2.sel(chain=c, draw=d).values, dtype=float), want, rtol=1e-12,
                                       what='entry labelled (chain %d, draw %d) of the pointwise log-likelihood of a '
                                       'sub-selected dataset' % (c, d))
                case.labels.append('pointwise:sub_selected_dataset')

    # ---- posterior predictive model over the population predictive model
    if s['kind'] in ('hier', 'filter'):
        with case.clause('predictive_population'):
            pop_cols = L.top if s['kind'] == 'hier' else list(range(c13.layout(s)['n_pop']))
            mech_model, ems = plan['models']()
            base = chi.PredictiveModel(mech_model, ems)
            pm_pop = P.get_population_model()
            if pm_pop.n_dim() != base.n_parameters():
                # filter posterior: the population model covers the mechanistic parameters only
                base.fix_parameters({n: 1e-7 for n in base.get_parameter_names()[pm_pop.n_dim():]})
            pop_pm = RecordingPopulationPredictiveModel(base, pm_pop)
            case.equal([str(n) for n in pop_pm.get_parameter_names()], [L.names[k] for k in pop_cols],
                       'population predictive model parameter names')
            ppm = chi.PosteriorPredictiveModel(pop_pm, ds_pop)
            ppm.sample(times, n_samples=s['pp_n'], seed=s['pp_seed'], covariates=None)
            seen = pop_pm.__dict__.get('seen', [])
            case.equal(len(seen), s['pp_n'], 'number of population-predictive-model evaluations')
            tops = raw[:, :, pop_cols].reshape(-1, len(pop_cols))
            for q, v in enumerate(seen):
                hit = any(v.shape == t.shape and np.array_equal(v, t) for t in tops)
                if not hit:
                    where = []
                    for j, val in enumerate(v):
                        m = np.argwhere(raw == val)
                        where.append('%s<-%s' % (L.names[pop_cols[j]] if j < len(pop_cols) else '?',
                                                 ('chain %d draw %d ' % (m[0][0], m[0][1]) + _what(L, int(m[0][2])))
                                                 if len(m) else repr(float(val))))
                    case.fail('mismatch', 'draw %d handed to the population predictive model is no (chain, draw) row '
                              'of the population-level block: %s' % (q, '; '.join(where)))

        # an averaged model whose FIRST candidate is the population-level model and whose second is the individual-level
        # one, asked for an individual: the individual-level candidate uses that individual's columns
        if s['kind'] == 'hier' and plan['label'] is not None and L.bottom and 'predictive_individual' in case.checked \
                and not case.fails:
            with case.clause('averaged_individual'):
                pam = chi.PAMPredictiveModel([ppm, ppm_individual], [0.3, 0.7])
                pm_individual.__dict__['seen'] = []
                pam.sample(times, n_samples=8, individual=plan['label'], seed=s['pp_seed'] + 2)
                for q, v in enumerate(pm_individual.__dict__.get('seen', [])):
                    hit = any(v.shape == r.shape and np.array_equal(v, r) for r in flat)
                    case.true(hit, 'averaged model asked for individual %r: draw %d handed to the individual-level predictive '
                              'model is no (chain, draw) row of that individual: %r' % (plan['label'], q, v.tolist()[:4]))
                if plan['label'] != L.ids[0] if hasattr(L, 'ids') else False:
                    case.labels.append('averaged_individual:not_first')


def _full_params(plan, row, fixed_vals):
    """Parameter vector of the full individual model (mechanistic then error parameters) from a row of the kept
    ones and the fixed values."""
    vals = dict(zip(plan['names'], row))
    vals.update(fixed_vals)
    return np.array([float(vals[n]) for n in plan['full_names']], dtype=float)


RULE += (' Classes and clauses added in later rounds of the seeded-change protocol (DESIGN 9.4) are named in REQUIRED '
         'and in seeded/HISTORY.json; the evidence counts every one of them under classes.')
