"""C20 - Figures faithfully render the supplied data and prediction bands.

A spec holds the caller's data frames *explicitly* (column keys, column order, index labels and every
row), so that check() rebuilds the very same pandas frames and the oracle can be computed from the
plain rows without touching chi or pandas. The figure is inspected through the plotly trace objects
(`fig._fig.data`): only the traces added by the call under inspection are looked at.

Interpretation decisions (demand only what the property / docstrings state):
* NaN rows: no docstring says whether a measurement with a NaN time or value is kept; both accepted.
* Individuals without a row of the chosen observable (also when they have dose rows): absent or empty.
* Band limits: validity predicate only. A mutant that widens a band (lower limit = smallest sample) is
  admissible under the property and survives by design (tools/mut_c20.py M12).
* Order of the sample times inside the polygon, order/colour of the bands, duplicated bulk probabilities:
  not stated by the property, not demanded (chi draws a self-crossing polygon for unsorted sample times,
  a polygon with 4T y-values for a repeated probability, and orders bands by the *string* of p).
* PKPredictivePlot.add_prediction(bulk_probs=None): the sample scatter has to sit in the panel whose y-axis
  is titled with the observable key (own clause `pk_pred.pred_scatter_panel`, so it buckets separately).
Corrected errors of this harness (false alarms): bulk probabilities nudged out of (0,1) by gen.distinct;
an empty prediction frame for ResidualPlot when every measurement of the observable had a NaN time.
"""
import math
import random
from collections import Counter

import numpy as np
import pandas as pd
from hypothesis import strategies as st

from vf import gen

ID = 'C20'
BUDGET = {'quick': 1500, 'thorough': 40000}
RULE = (
    'Hypothesis draws a figure class (PDTimeSeriesPlot, PKTimeSeriesPlot, PDPredictivePlot, PKPredictivePlot, '
    'ResidualPlot) and its frames. Measurement frame: 1-6 individuals (integer IDs; int or str for the PK '
    'figures), 1-3 observables, 0-4 unbalanced (also repeated) times per (individual, observable), NaN values, '
    'rarely NaN times, integer- or float-typed value/time columns, dose rows with NaN observable (dose + duration '
    'columns for PK figures), custom column keys, an unrelated extra column, permuted column order, shuffled rows, '
    'range/permuted/duplicated index labels, str- or object-typed observable column, observable passed explicitly '
    'or defaulted. Sample frame: chosen observable with 1-5 times x 1-200 samples on a K-level grid (K in '
    '1..1000: ties), optionally unequal counts per time, rows time-major / sample-major / shuffled, a second '
    'observable, dose rows; 1-7 pairwise distinct bulk probabilities in (0,1) or None (scatter). Residual '
    'figure: prediction frame covering every measured time of the observable with 1-4 positive samples per '
    'time, optional individual, both flags. Non-trivial: >=2 individuals and >=2 observables with a NaN, or '
    '>=2 bulk probabilities with >=10 samples per time. Distinct = distinct structural projection (figure, '
    'numbers of individuals/observables/rows, flags, times, samples per time, number of probabilities).')
RULE += (' ' + 'Added classes: more than ten individuals; time axes on which distinct time points are close (large offsets, sub-1e-8 spacings).')
ASSUMPTIONS = [
    'plotly trace objects (x, y, text, name, mode, xaxis/yaxis, layout axis titles) are what is rendered',
    'a trace is attributed to an individual through its legend name "ID: <id>", a band to its bulk probability '
    'through its hover text "<p> Bulk", a panel through its y-axis title (the dose / observable column key)',
    'rows with a NaN time or value may be kept or dropped by a figure (unspecified): traces are compared as '
    'multisets of the finite pairs, and every kept non-finite pair must still stem from a row of the individual',
    'individuals without a row of the chosen observable may be absent from the figure or have empty traces',
    'band limits: only the validity predicate of the property is demanded (limits are sample values of that '
    'time, closed interval holds >= p*n samples whenever both limits exist, nesting where both limits exist)',
    'bulk probabilities are pairwise distinct; sample values and sample times are finite']
REQUIRED = ['plot:pd_ts', 'plot:pk_ts', 'plot:pd_pred', 'plot:pk_pred', 'plot:resid', 'ids:str', 'nan:value',
            'nan:time', 'nanobs', 'idx:perm', 'idx:dup', 'keys:custom', 'obs:explicit', 'ties', 'n>=50',
            'probs>=2', 'probs=7', 'intvalues', 'scatter', 'resid:indiv', 'resid:rel', 'resid:nores',
            'band:both', 'obsdtype:object', 'resid:intvalues', 'nanobs:first-default:pd_pred',
            'nanobs:first-default:pd_ts', 'dose:unshown-individual', 'times:unsorted', 'times:close', 'ids>10', 'dose:zero_amount', 'simulation_before_data',
            'individual_with_>2000_measurements']

PLOTS = ['pd_ts', 'pk_ts', 'pd_pred', 'pk_pred', 'resid']
KEYPOOL = {
    'id': ['ID', '#ID', 'Subject'],
    'time': ['Time', 'TIME in h', 't'],
    'obs': ['Observable', 'Biomarker', 'obs type'],
    'value': ['Value', 'Measurement', 'y'],
    'dose': ['Dose', 'Amount', 'dose in mg'],
    'dur': ['Duration', 'Infusion time', 'dur'],
}
OBSPOOL = ['a', 'B', 'Conc 1', 'central.drug', 'x']
TGRID = [0.0, 0.5, 1.0, 2.0, 3.5, 7.0, 24.0]
NUMERIC = ('time', 'value', 'dose', 'dur')


# ---------------------------------------------------------------------------------------------
# generator
# ---------------------------------------------------------------------------------------------
def _keys(draw, roles, custom):
    out = {}
    for r in roles:
        out[r] = draw(st.sampled_from(KEYPOOL[r][1:])) if custom else KEYPOOL[r][0]
    return out


TIME_MAPS = [(86400.0, 1e-3), (1e6, 1.0), (0.0, 1e-9), (3.6e5, 0.5)]


def _time(draw, integer):
    if integer:
        return draw(st.integers(0, 12))
    if gen.chance(draw, 0.7):
        return draw(st.sampled_from(TGRID))
    return abs(draw(gen.real(0, 50)))


def _value(draw, integer):
    if integer:
        return draw(st.integers(-20, 20))
    return draw(gen.real(-50, 50))


def _layout(draw, fr, allow_dup=True):
    """Column order, extra column, index labels, dtype of the observable column."""
    fields = list(fr['fields'])
    if gen.chance(draw, 0.3):
        fields.append('extra')
    fr['order'] = list(draw(st.permutations(fields))) if gen.chance(draw, 0.4) else fields
    n = len(fr['rows'])
    mode = draw(st.sampled_from(['range', 'range', 'perm', 'dup'] if allow_dup else ['range', 'perm']))
    if mode == 'perm':
        seed = draw(st.integers(0, 10 ** 6))
        idx = list(range(3, n + 3))
        random.Random(seed).shuffle(idx)
        fr['index'] = idx
    elif mode == 'dup':
        k = draw(st.integers(1, 3))
        fr['index'] = [i % k for i in range(n)]
    else:
        fr['index'] = None
    fr['obs_object'] = bool(gen.chance(draw, 0.3))
    return fr


@st.composite
def _meas_frame(draw, kind, int_ids_only):
    """Measurement frame. kind 'pd' (no dose columns) or 'pk' (dose + duration columns)."""
    many = gen.chance(draw, 0.12)          # more individuals than any colour cycle has entries
    n_ids = draw(st.integers(11, 26)) if many else draw(st.integers(1, 6))
    n_obs = draw(st.integers(1, 3))
    str_ids = (not int_ids_only) and gen.chance(draw, 0.4)
    raw = draw(st.lists(st.integers(0, 60), min_size=n_ids, max_size=n_ids, unique=True))
    ids = [('p%d' % v if v % 3 else str(v)) for v in raw] if str_ids else raw
    obs = list(draw(st.permutations(OBSPOOL)))[:n_obs]
    int_values = gen.chance(draw, 0.15)
    int_times = gen.chance(draw, 0.15)
    p_nan = draw(st.sampled_from([0.0, 0.0, 0.15, 0.4]))
    if int_values:
        p_nan = 0.0
    p_nant = 0.1 if (gen.chance(draw, 0.15) and not int_times) else 0.0
    fields = ['id', 'time', 'obs', 'value'] + (['dose', 'dur'] if kind == 'pk' else [])
    pad = [None, None] if kind == 'pk' else []
    rows = []
    for i in ids:
        for k, o in enumerate(obs):
            n_t = draw(st.integers(0, 2 if many else 4))
            if k > 0 and gen.chance(draw, 0.25):
                n_t = 0
            for _ in range(n_t):
                t = None if (p_nant and gen.chance(draw, p_nant)) else _time(draw, int_times)
                v = None if (p_nan and gen.chance(draw, p_nan)) else _value(draw, int_values)
                row = [i, t, o, v] + pad
                if kind == 'pk' and gen.chance(draw, 0.05):
                    row[4] = draw(gen.logu(0.1, 100))
                    row[5] = draw(gen.logu(0.01, 1))
                rows.append(row)
    if not any(r[2] is not None for r in rows):
        rows.append([ids[0], _time(draw, int_times), obs[0], _value(draw, int_values)] + pad)
    # dose rows: observable and value missing
    if kind == 'pk':
        for i in ids:
            # (a placebo / control individual: dose rows with an amount of exactly 0 are dose rows, too)
            placebo = gen.chance(draw, 0.12)
            for _ in range(draw(st.integers(1 if placebo else 0, 1 if many else 3))):
                dur = None if gen.chance(draw, 0.15) else draw(gen.logu(0.01, 1))
                rows.append([i, _time(draw, int_times), None, None, 0.0 if placebo else draw(gen.logu(0.1, 100)), dur])
    elif gen.chance(draw, 0.5) and not int_values:
        for _ in range(draw(st.integers(1, 3))):
            rows.append([draw(st.sampled_from(ids)), _time(draw, int_times), None, None])
    mode = draw(st.sampled_from(['asis', 'shuffle', 'shuffle', 'nanfirst', 'nanfirst']))
    if mode != 'asis':
        rows = list(draw(st.permutations(rows)))
    if mode == 'nanfirst':
        rows = [r for r in rows if r[2] is None] + [r for r in rows if r[2] is not None]
    custom = gen.chance(draw, 0.4)
    fr = dict(fields=fields, keys=_keys(draw, fields, custom), rows=rows)
    return _layout(draw, fr)


def _obs_present(fr):
    j = fr['fields'].index('obs')
    out = []
    for r in fr['rows']:
        if r[j] is not None and r[j] not in out:
            out.append(r[j])
    return out


@st.composite
def _pred_frame(draw, kind, obs_names):
    """Sample frame of a predictive model: chosen observable = obs_names[0]."""
    T = draw(st.integers(1, 5))
    int_times = gen.chance(draw, 0.15)
    times = []
    while len(times) < T:
        t = _time(draw, int_times)
        if t not in times:
            times.append(t)
        else:
            t2 = (max(times) + 1) if int_times else gen.r6(max(times) + 0.25)
            times.append(t2)
    if gen.chance(draw, 0.7):
        times = sorted(times)
    n = draw(st.sampled_from([1, 2, 3, 4, 5, 6, 8, 12, 20, 40, 100, 200]))
    ns = [n] * T
    if gen.chance(draw, 0.2):
        ns = [draw(st.integers(1, max(1, n))) for _ in range(T)]
    K = draw(st.sampled_from([1, 2, 3, 5, 20, 1000]))
    int_values = gen.chance(draw, 0.15)
    scale = 1 if int_values else draw(gen.logu(1e-2, 1e2))
    offset = draw(st.integers(-5, 5)) if int_values else draw(gen.real(-5, 5))
    seed = draw(st.integers(0, 10 ** 6))
    rng = random.Random(seed)
    fields = ['time', 'obs', 'value'] + (['dose', 'dur'] if kind == 'pk' else [])
    pad = [None, None] if kind == 'pk' else []
    per_time = []
    for k in range(T):
        if ns[k] <= 6:
            ks = draw(st.lists(st.integers(0, K - 1), min_size=ns[k], max_size=ns[k]))
        else:
            ks = [rng.randrange(K) for _ in range(ns[k])]
        per_time.append([(offset + kk) if int_values else gen.r6(offset + scale * kk) for kk in ks])
    order = draw(st.sampled_from(['time', 'sample', 'shuffle']))
    rows = []
    if order == 'sample':
        for s in range(max(ns)):
            for k in range(T):
                if s < ns[k]:
                    rows.append([times[k], obs_names[0], per_time[k][s]] + pad)
    else:
        for k in range(T):
            for v in per_time[k]:
                rows.append([times[k], obs_names[0], v] + pad)
    other = []
    for o in obs_names[1:]:
        for _ in range(draw(st.integers(1, 6))):
            other.append([draw(st.sampled_from(times)), o, _value(draw, int_values)] + pad)
    if kind == 'pk':
        for _ in range(draw(st.integers(0, 3))):
            dur = None if gen.chance(draw, 0.15) else draw(gen.logu(0.01, 1))
            other.append([_time(draw, int_times), None, None, draw(gen.logu(0.1, 100)), dur])
    elif gen.chance(draw, 0.2) and not int_values:
        other.append([_time(draw, int_times), None, None])
    where = draw(st.sampled_from(['after', 'before', 'mixed']))
    rows = rows + other if where != 'before' else other + rows
    if order == 'shuffle' or where == 'mixed':
        rng.shuffle(rows)
    custom = gen.chance(draw, 0.4)
    fr = dict(fields=fields, keys=_keys(draw, fields, custom), rows=rows)
    return _layout(draw, fr)


def _probs(draw):
    m = draw(st.sampled_from([1, 1, 2, 3, 4, 5, 7, 7]))
    out = []
    for _ in range(m):
        if gen.chance(draw, 0.5):
            p = draw(st.sampled_from([0.9, 0.5, 0.3, 0.6, 0.95, 0.99, 0.1, 0.8, 0.2, 0.7]))
        else:
            p = gen.r6(min(0.999999, max(1e-6, draw(st.floats(1e-6, 0.999999)))))
        while p in out:
            # keep the list pairwise distinct without leaving (0, 1)
            p = gen.r6(p * 0.917)
        out.append(p)
    return out


@st.composite
def _spec(draw):
    plot = draw(st.sampled_from(PLOTS))
    spec = dict(plot=plot, updatemenu=bool(gen.chance(draw, 0.5)))
    kind = 'pk' if plot.startswith('pk') else 'pd'
    data = draw(_meas_frame(kind, int_ids_only=(kind == 'pd')))
    present = _obs_present(data)
    spec['data'] = data
    spec['observable'] = draw(st.sampled_from(present)) if gen.chance(draw, 0.5) else None
    if plot == 'pd_ts':
        n = draw(st.integers(1, 12))
        rows = [[_time(draw, False), None if gen.chance(draw, 0.1) else _value(draw, False)] for _ in range(n)]
        if gen.chance(draw, 0.7):
            rows.sort(key=lambda r: r[0])
        fr = dict(fields=['time', 'value'], rows=rows,
                  keys=_keys(draw, ['time', 'value'], gen.chance(draw, 0.4)))
        spec['sim'] = _layout(draw, fr)
    elif plot in ('pd_pred', 'pk_pred'):
        spec['with_data'] = bool(gen.chance(draw, 0.7))
        names = list(draw(st.permutations(OBSPOOL)))[:draw(st.integers(1, 2))]
        spec['pred'] = draw(_pred_frame(kind, names))
        spec['pred_observable'] = names[0] if gen.chance(draw, 0.5) else None
        if spec['pred_observable'] is None:
            # default = first observable of the frame: make that the chosen one by construction
            fr = spec['pred']
            j = fr['fields'].index('obs')
            first = next(r[j] for r in fr['rows'] if r[j] is not None)
            if first != names[0]:
                spec['pred_observable'] = names[0]
        spec['probs'] = None if gen.chance(draw, 0.1) else _probs(draw)
    elif plot == 'resid':
        j_o, j_t = data['fields'].index('obs'), data['fields'].index('time')
        sub = [o for o in present if gen.chance(draw, 0.6)] or [present[0]]
        sub = list(draw(st.permutations(sub)))
        rows = []
        for o in sub:
            times = []
            for r in data['rows']:
                if r[j_o] == o and r[j_t] is not None and r[j_t] not in times:
                    times.append(r[j_t])
            for _ in range(draw(st.integers(0, 2))):
                t = _time(draw, False)
                if t not in times:
                    times.append(t)
            if not times:
                # every measurement of the observable has a NaN time: still predict something
                times.append(_time(draw, False))
            for t in times:
                for _ in range(draw(st.integers(1, 4))):
                    rows.append([t, o, draw(gen.logu(0.1, 100))])
        if gen.chance(draw, 0.5):
            head = [r for r in rows if r[1] == sub[0]]
            rest = [r for r in rows if r[1] != sub[0]]
            rows = head[:1] + list(draw(st.permutations(head[1:] + rest)))
        fr = dict(fields=['time', 'obs', 'value'], rows=rows,
                  keys=_keys(draw, ['time', 'obs', 'value'], gen.chance(draw, 0.4)))
        spec['pred'] = _layout(draw, fr)
        spec['pred_observable'] = draw(st.sampled_from(sub)) if gen.chance(draw, 0.5) else None
        ids = []
        for r in data['rows']:
            if r[0] not in ids:
                ids.append(r[0])
        spec['individual'] = draw(st.sampled_from(ids)) if gen.chance(draw, 0.3) else None
        spec['show_residuals'] = not gen.chance(draw, 0.25)
        spec['show_relative'] = bool(gen.chance(draw, 0.3))
        spec['observable'] = None
    if gen.chance(draw, 0.12):
        # time axes on which distinct time points are 'close' (relative to their magnitude, or absolutely): a study
        # clock in seconds one day after the start, large offsets, sub-1e-8 spacings. Distinct stays distinct.
        off, scale = draw(st.sampled_from(TIME_MAPS))
        spec['time_map'] = [off, scale]
        for key in ('data', 'sim', 'pred'):
            fr = spec.get(key)
            if fr is None:
                continue
            j = fr['fields'].index('time')
            for r in fr['rows']:
                if r[j] is not None:
                    r[j] = float(off + scale * r[j])
    return spec


def strategy(tier):
    return _spec()


def extra_cases(tier):
    """Densely sampled individuals (continuous monitoring): every plot that takes measurements, one individual with
    2500 / 4003 measurements of the chosen observable next to sparsely sampled ones."""
    out = []
    for plot, n_dense in (('pd_ts', 2500), ('pk_ts', 4003), ('pd_pred', 2881), ('pk_pred', 2500)):
        kind = 'pk' if plot.startswith('pk') else 'pd'
        fields = ['id', 'time', 'obs', 'value'] + (['dose', 'dur'] if kind == 'pk' else [])
        pad = [None, None] if kind == 'pk' else []
        rows = []
        for i, n in ((3, 4), (7, n_dense), (5, 2000)):
            for k in range(n):
                rows.append([i, gen.r6(0.25 * k), 'a', gen.r6(10.0 + 3.0 * math.sin(0.01 * k * (i + 1)))] + pad)
            rows.append([i, 1.0, 'B', 0.5] + pad)
            if kind == 'pk':
                rows.append([i, 0.0, None, None, 10.0, 0.5])
        data = dict(fields=fields, keys={r: KEYPOOL[r][0] for r in fields}, rows=rows, order=list(fields), index=None,
                    obs_object=False)
        spec = dict(plot=plot, updatemenu=True, data=data, observable='a', dense=True)
        if plot == 'pd_ts':
            spec['sim'] = dict(fields=['time', 'value'], rows=[[0.0, 1.0], [1.0, 2.0]],
                               keys={r: KEYPOOL[r][0] for r in ('time', 'value')}, order=['time', 'value'], index=None,
                               obs_object=False)
        if plot.endswith('pred'):
            pf = ['time', 'obs', 'value'] + (['dose', 'dur'] if kind == 'pk' else [])
            prow = [[float(t), 'a', gen.r6(8.0 + 0.01 * ((37 * k + 11 * t) % 400))] + pad for t in (1, 2, 5)
                    for k in range(40)]
            spec.update(with_data=True, pred_observable='a', probs=[0.3, 0.9],
                        pred=dict(fields=pf, keys={r: KEYPOOL[r][0] for r in pf}, rows=prow, order=list(pf), index=None,
                                  obs_object=False))
        out.append(spec)
    return out


# ---------------------------------------------------------------------------------------------
# measuring the generator
# ---------------------------------------------------------------------------------------------
def _col(fr, role):
    j = fr['fields'].index(role)
    return [r[j] for r in fr['rows']]


def _frames(spec):
    return [spec[k] for k in ('data', 'sim', 'pred') if k in spec]


def _chosen_samples(spec):
    """time -> list of sample values of the chosen observable of the prediction frame (row order)."""
    fr = spec['pred']
    o = spec.get('pred_observable')
    if o is None:
        o = _default_obs(fr)
    out = {}
    for r in _dicts(fr):
        if r['obs'] == o:
            out.setdefault(r['time'], []).append(r['value'])
    return out


def classify(spec):
    labs = ['plot:' + spec['plot']]
    if spec.get('dense'):
        labs.append('individual_with_>2000_measurements')
    data = spec['data']
    ids = _col(data, 'id')
    if any(isinstance(i, str) for i in ids):
        labs.append('ids:str')
    meas = [r for r in _dicts(data) if r['obs'] is not None]
    if any(r['value'] is None for r in meas):
        labs.append('nan:value')
    if any(r['time'] is None for r in meas):
        labs.append('nan:time')
    if any(r['obs'] is None for r in _dicts(data)):
        labs.append('nanobs')
        if data['rows'] and _dicts(data)[0]['obs'] is None:
            labs.append('nanobs:first')
            if spec.get('observable') is None and spec['plot'] != 'resid' and spec.get('with_data', True):
                # the default observable must skip the leading rows without observable
                labs.append('nanobs:first-default:' + spec['plot'])
    for fr in _frames(spec):
        if fr['index'] is not None:
            labs.append('idx:dup' if len(set(fr['index'])) < len(fr['index']) else 'idx:perm')
        if any(fr['keys'][r] != KEYPOOL[r][0] for r in fr['keys']):
            labs.append('keys:custom')
        if 'extra' in fr['order']:
            labs.append('extracol')
        if fr['obs_object'] and 'obs' in fr['fields']:
            labs.append('obsdtype:object')
    if spec.get('observable') is not None or spec.get('pred_observable') is not None:
        labs.append('obs:explicit')
    vals = [v for v in _col(data, 'value') if v is not None]
    if vals and all(isinstance(v, int) for v in vals):
        labs.append('intvalues')
        if spec['plot'] == 'resid':
            labs.append('resid:intvalues')
    if 'dose' in data['fields']:
        if any(r['dose'] is not None and r['obs'] is not None for r in _dicts(data)):
            labs.append('dose:both')
        if any(r['dose'] == 0 for r in _dicts(data) if r['dose'] is not None):
            labs.append('dose:zero_amount')
        shown = set(r['id'] for r in _dicts(data) if r['obs'] == _resolve(spec['observable'], data))
        if any(r['dose'] is not None and r['id'] not in shown for r in _dicts(data)):
            labs.append('dose:unshown-individual')
    if spec['plot'] in ('pd_pred', 'pk_pred'):
        if spec['probs'] is None:
            labs.append('scatter')
        else:
            sm = _chosen_samples(spec)
            if any(len(set(v)) < len(v) for v in sm.values()):
                labs.append('ties')
            if any(len(v) >= 50 for v in sm.values()):
                labs.append('n>=50')
            if any(len(v) == 1 for v in sm.values()):
                labs.append('n=1')
            if len(spec['probs']) >= 2:
                labs.append('probs>=2')
            if len(spec['probs']) == 7:
                labs.append('probs=7')
            ts = list(sm)
            if ts != sorted(ts):
                labs.append('times:unsorted')
        if spec['with_data']:
            labs.append('pred:with_data')
    if spec.get('time_map'):
        labs.append('times:close')
    if len(set(r['id'] for r in _dicts(data))) > 10:
        labs.append('ids>10')
    if spec['plot'] == 'resid':
        if spec['individual'] is not None:
            labs.append('resid:indiv')
        if spec['show_relative']:
            labs.append('resid:rel')
        if not spec['show_residuals']:
            labs.append('resid:nores')
    return sorted(set(labs))


def nontrivial(spec):
    data = spec['data']
    rows = _dicts(data)
    n_ids = len(set(r['id'] for r in rows))
    n_obs = len(set(r['obs'] for r in rows if r['obs'] is not None))
    has_nan = any(r['obs'] is not None and (r['value'] is None or r['time'] is None) for r in rows)
    if n_ids >= 2 and n_obs >= 2 and has_nan:
        return True
    if spec['plot'] in ('pd_pred', 'pk_pred') and spec['probs'] is not None and len(spec['probs']) >= 2:
        sm = _chosen_samples(spec)
        return min(len(v) for v in sm.values()) >= 10
    return False


def structure(spec):
    out = [spec['plot'], spec.get('observable') is None, spec.get('pred_observable') is None]
    for fr in _frames(spec):
        rows = _dicts(fr)
        out.append([
            len(set(r['id'] for r in rows)) if 'id' in fr['fields'] else 0,
            len(set(r['obs'] for r in rows if r.get('obs') is not None)) if 'obs' in fr['fields'] else 0,
            len(rows), fr['index'] is None, fr['order'], sorted(fr['keys'].values()), fr['obs_object'],
            sum(1 for r in rows if r.get('value') is None)])
    if spec['plot'] in ('pd_pred', 'pk_pred'):
        sm = _chosen_samples(spec)
        out.append([len(v) for v in sm.values()])
        out.append(None if spec['probs'] is None else len(spec['probs']))
        out.append(spec['with_data'])
    if spec['plot'] == 'resid':
        out.append([spec['individual'] is None, spec['show_residuals'], spec['show_relative']])
    return out


# ---------------------------------------------------------------------------------------------
# frames and oracles (plain Python on the spec rows; no chi, no pandas)
# ---------------------------------------------------------------------------------------------
def _dicts(fr):
    return [dict(zip(fr['fields'], r)) for r in fr['rows']]


def _default_obs(fr):
    for r in _dicts(fr):
        if r['obs'] is not None:
            return r['obs']
    return None


def _resolve(observable, fr):
    return _default_obs(fr) if observable is None else observable


def build_frame(fr):
    """pandas frame of a frame spec (deterministic)."""
    n = len(fr['rows'])
    cols = {}
    for role in fr['order']:
        if role == 'extra':
            cols['Comment'] = ['row %d' % i for i in range(n)]
            continue
        col = _col(fr, role)
        key = fr['keys'][role]
        if role in NUMERIC:
            if all(isinstance(v, int) for v in col):
                cols[key] = np.array(col, dtype=np.int64)
            else:
                cols[key] = np.array([np.nan if v is None else float(v) for v in col], dtype=float)
        elif role == 'obs':
            if fr['obs_object']:
                cols[key] = pd.Series([np.nan if v is None else v for v in col], dtype=object)
            else:
                cols[key] = list(col)
        else:
            cols[key] = list(col)
    df = pd.DataFrame(cols)
    df = df[[('Comment' if r == 'extra' else fr['keys'][r]) for r in fr['order']]]
    if fr['index'] is not None:
        df.index = pd.Index(list(fr['index']))
    return df


def _second_frame(fr):
    """A second frame over the same individuals and observables: other values, other dose amounts (same layout)."""
    import copy
    fr2 = copy.deepcopy(fr)
    jv = fr2['fields'].index('value') if 'value' in fr2['fields'] else None
    jd = fr2['fields'].index('dose') if 'dose' in fr2['fields'] else None
    for r in fr2['rows']:
        if jv is not None and isinstance(r[jv], (int, float)) and not isinstance(r[jv], bool):
            r[jv] = r[jv] * 2 + 1
        if jd is not None and isinstance(r[jd], (int, float)) and not isinstance(r[jd], bool):
            r[jd] = r[jd] * 3
    return fr2


def _tok(v):
    """Canonical token of a number: float, or 'nan' for a missing / non-finite entry."""
    if v is None:
        return 'nan'
    try:
        f = float(v)
    except (TypeError, ValueError):
        return 'nan'
    return 'nan' if f != f else f


def _arr(a):
    if a is None:
        return []
    return [_tok(v) for v in list(a)]


def _finite(pairs):
    return Counter(p for p in pairs if 'nan' not in p)


def _want_pairs(fr, obs, roles=('time', 'value')):
    """id -> list of token tuples of the rows of observable obs."""
    out = {}
    for r in _dicts(fr):
        if r['obs'] == obs and obs is not None:
            out.setdefault(r['id'], []).append(tuple(_tok(r[k]) for k in roles))
    return out


def _want_doses(fr):
    out = {}
    for r in _dicts(fr):
        if r['dose'] is not None:
            out.setdefault(r.get('id'), []).append((_tok(r['time']), _tok(r['dose']), _tok(r['dur'])))
    return out


def _label_id(name):
    name = '' if name is None else str(name)
    return name.split(':', 1)[1].strip() if ':' in name else name.strip()


def _frame_diff(now, before):
    """None if the two frames are identical (values, dtypes, column order, index), else a reason."""
    if list(now.columns) != list(before.columns):
        return 'columns %r != %r' % (list(now.columns), list(before.columns))
    if [str(d) for d in now.dtypes] != [str(d) for d in before.dtypes]:
        return 'dtypes %r != %r' % ([str(d) for d in now.dtypes], [str(d) for d in before.dtypes])
    if len(now.index) != len(before.index) or list(now.index) != list(before.index) \
            or str(now.index.dtype) != str(before.index.dtype):
        return 'index %r != %r' % (list(now.index)[:20], list(before.index)[:20])
    for j, c in enumerate(now.columns):
        a, b = now.iloc[:, j], before.iloc[:, j]
        if not a.reset_index(drop=True).equals(b.reset_index(drop=True)):
            return 'column %r changed: %r -> %r' % (c, list(b)[:12], list(a)[:12])
    return None


def _panel_of(fig, trace):
    """Title of the y-axis the trace is drawn against."""
    ya = trace.yaxis or 'y'
    name = 'yaxis' + ya[1:]
    try:
        return fig.layout[name].title.text
    except Exception:  # noqa
        return None


def _kw(fr, roles, names):
    return {n: fr['keys'][r] for r, n in zip(roles, names)}


class _Watch(object):
    """Deep copies of the caller's frames, compared after each call."""
    def __init__(self):
        self.items = []

    def add(self, label, df):
        self.items.append((label, df, df.copy(deep=True)))
        return df

    def verify(self, case, clause):
        with case.clause(clause):
            for label, df, before in self.items:
                d = _frame_diff(df, before)
                case.true(d is None, 'caller frame %s was modified: %s' % (label, d), kind='mutated')


# ---------------------------------------------------------------------------------------------
# clause groups
# ---------------------------------------------------------------------------------------------
def _check_data_traces(case, pre, fig, traces, fr, obs, with_dose, name_is_int):
    """Marker traces (and dose traces) added by add_data."""
    want = _want_pairs(fr, obs)
    doses = _want_doses(fr) if with_dose else {}
    dose_title = fr['keys'].get('dose')
    meas, dos = [], []
    for tr in traces:
        if with_dose and _panel_of(fig, tr) == dose_title:
            dos.append(tr)
        else:
            meas.append(tr)

    with case.clause(pre + 'data_traces'):
        got = Counter()
        for tr in meas:
            case.equal(tr.mode, 'markers', 'mode of a measurement trace', kind='mode')
            x, y = _arr(tr.x), _arr(tr.y)
            case.equal(len(x), len(y), 'len(x) vs len(y) of trace %r' % tr.name, kind='shape')
            fin = _finite(zip(x, y))
            if fin or len(x):
                got[tuple(sorted(fin.items()))] += 1
        exp = Counter()
        for i, pairs in want.items():
            exp[tuple(sorted(_finite(pairs).items()))] += 1
        # individuals whose rows are all non-finite may be drawn as an all-NaN trace or not at all
        empty = tuple()
        g2 = Counter({k: v for k, v in got.items() if k != empty})
        e2 = Counter({k: v for k, v in exp.items() if k != empty})
        case.true(g2 == e2, 'marker traces do not partition the (time, value) pairs of observable %r by individual: '
                  'got %r expected %r' % (obs, _brief(g2), _brief(e2)), kind='pairs')
        case.true(got[empty] <= exp[empty] + sum(1 for i in _all_ids(fr) if i not in want),
                  'more empty traces than individuals without finite pairs', kind='pairs')

    with case.clause(pre + 'data_labels'):
        names = [_label_id(tr.name) for tr in meas]
        case.true(len(set(names)) == len(names), 'duplicate trace names %r' % names, kind='label')
        by = dict(zip(names, meas))
        for i, pairs in want.items():
            tr = by.get(str(i))
            if tr is None:
                case.true(not _finite(pairs), 'no trace named for individual %r (names %r)' % (i, names),
                          kind='label')
                continue
            x, y = _arr(tr.x), _arr(tr.y)
            got_all = Counter(zip(x, y))
            case.true(_finite(got_all.elements()) == _finite(pairs),
                      'trace %r: finite pairs %r, individual %r has %r' % (
                          tr.name, _brief(_finite(got_all.elements())), i, _brief(_finite(pairs))), kind='pairs')
            extra = got_all - Counter(pairs)
            case.true(not extra, 'trace %r holds pairs that are no row of individual %r: %r' % (
                tr.name, i, _brief(extra)), kind='pairs')
        for nm, tr in by.items():
            if nm not in [str(i) for i in want]:
                case.true(len(_finite(zip(_arr(tr.x), _arr(tr.y)))) == 0 and nm in [str(i) for i in _all_ids(fr)],
                          'trace %r belongs to no individual with rows of observable %r' % (tr.name, obs),
                          kind='label')

    if with_dose:
        with case.clause(pre + 'dose_traces'):
            names = [_label_id(tr.name) for tr in dos]
            case.true(len(set(names)) == len(names), 'duplicate dose trace names %r' % names, kind='label')
            by = dict(zip(names, dos))
            for i in want:
                exp = doses.get(i, [])
                tr = by.get(str(i))
                if tr is None:
                    case.true(not exp, 'no dose trace for individual %r with %d dose rows (dose traces: %r)' % (
                        i, len(exp), names), kind='dose')
                    continue
                _cmp_dose(case, tr, exp, 'individual %r' % (i,))
            for nm, tr in by.items():
                if nm in [str(i) for i in want]:
                    continue
                owner = [i for i in _all_ids(fr) if str(i) == nm]
                case.true(len(owner) == 1, 'dose trace %r belongs to no individual' % tr.name, kind='dose')
                _cmp_dose(case, tr, doses.get(owner[0], []), 'individual %r' % (owner[0],))
            # measurement traces must not sit in the dose panel and vice versa
            for tr in meas:
                case.true(_panel_of(fig, tr) == fr['keys']['obs'],
                          'measurement trace %r is drawn in panel %r' % (tr.name, _panel_of(fig, tr)),
                          kind='panel')


def _cmp_dose(case, tr, exp, who):
    case.equal(tr.mode, 'markers', 'mode of a dose trace', kind='mode')
    x, y = _arr(tr.x), _arr(tr.y)
    case.equal(len(x), len(y), 'len(x) vs len(y) of dose trace %r' % tr.name, kind='shape')
    got = Counter(zip(x, y))
    want = Counter((t, d) for t, d, _ in exp)
    case.true(_finite(got.elements()) == _finite(want.elements()) and not (got - want),
              'dose trace %r holds %r, dose rows of %s are %r' % (tr.name, _brief(got), who, _brief(want)),
              kind='dose')
    txt = list(tr.text) if isinstance(tr.text, (list, tuple, np.ndarray)) else None
    if txt is not None and len(txt) == len(x):
        durs = []
        for s in txt:
            try:
                durs.append(_tok(float(str(s).split()[-1])))
            except (ValueError, IndexError):
                durs = None
                break
        if durs is not None:
            got3 = Counter(zip(x, y, durs))
            want3 = Counter(exp)
            case.true(got3 == want3, 'dose trace %r (time, dose, duration) %r, dose rows of %s are %r' % (
                tr.name, _brief(got3), who, _brief(want3)), kind='dose')


def _all_ids(fr):
    out = []
    for r in _dicts(fr):
        if r['id'] not in out:
            out.append(r['id'])
    return out


def _brief(c, n=12):
    items = sorted(c.items(), key=repr) if isinstance(c, Counter) else list(c)
    s = repr(items[:n])
    return s if len(items) <= n else s + '... (%d)' % len(items)


def _check_bands(case, pre, fig, traces, samples, probs, obs_title=None):
    """Validity predicate of the property for the band traces."""
    times = list(samples)
    T = len(times)
    bands = {}
    ok = False
    with case.clause(pre + 'band_polygon'):
        case.equal(len(traces), len(probs), 'number of band traces vs bulk probabilities', kind='count')
        for tr in traces:
            try:
                p = float(str(tr.text).split()[0])
            except (ValueError, IndexError):
                case.fail('label', 'band trace text %r does not name a bulk probability' % (tr.text,))
            case.true(p in probs and p not in bands, 'band labelled %r; requested %r' % (tr.text, probs),
                      kind='label')
            x, y = _arr(tr.x), _arr(tr.y)
            case.true(len(x) == 2 * T and len(y) == 2 * T,
                      'band %r: len(x)=%d len(y)=%d for %d time points' % (p, len(x), len(y), T), kind='shape')
            fwd, back = x[:T], x[T:]
            case.true(sorted(fwd, key=repr) == sorted([_tok(t) for t in times], key=repr),
                      'band %r: first half of x %r is not the set of sample times %r' % (p, fwd, times),
                      kind='polygon')
            case.true(back == fwd[::-1], 'band %r: second half of x %r is not the reversed first half %r' % (
                p, back, fwd), kind='polygon')
            if obs_title is not None:
                case.true(_panel_of(fig, tr) == obs_title, 'band %r drawn in panel %r' % (p, _panel_of(fig, tr)),
                          kind='panel')
            upper = dict(zip(fwd, y[:T]))
            lower = dict(zip(fwd, y[T:][::-1]))
            bands[p] = (upper, lower)
        ok = True
    if not ok:
        return

    both = [0]
    with case.clause(pre + 'band_member'):
        for p, (upper, lower) in bands.items():
            for t in times:
                vals = set(float(v) for v in samples[t])
                for nm, lim in (('upper', upper[_tok(t)]), ('lower', lower[_tok(t)])):
                    case.true(lim == 'nan' or lim in vals, 'p=%r t=%r: %s limit %r is not a sample value at that '
                              'time (samples %r)' % (p, t, nm, lim, _brief(sorted(vals))), kind='member')

    with case.clause(pre + 'band_cover'):
        for p, (upper, lower) in bands.items():
            for t in times:
                U, L = upper[_tok(t)], lower[_tok(t)]
                if U == 'nan' or L == 'nan':
                    continue
                both[0] += 1
                vals = [float(v) for v in samples[t]]
                cnt = sum(1 for v in vals if L <= v <= U)
                case.true(cnt >= p * len(vals) - 1e-9,
                          'p=%r t=%r: [%r, %r] holds %d of %d samples (< %r)' % (p, t, L, U, cnt, len(vals), p),
                          kind='coverage')
    if both[0]:
        case.labels.append('band:both')

    with case.clause(pre + 'band_nested'):
        ps = sorted(bands)
        for a, b in zip(ps[:-1], ps[1:]):
            for t in times:
                Ua, La = bands[a][0][_tok(t)], bands[a][1][_tok(t)]
                Ub, Lb = bands[b][0][_tok(t)], bands[b][1][_tok(t)]
                if Ua != 'nan' and Ub != 'nan':
                    case.true(Ub >= Ua, 't=%r: upper limit %r of p=%r below upper limit %r of p=%r' % (
                        t, Ub, b, Ua, a), kind='nested')
                if La != 'nan' and Lb != 'nan':
                    case.true(Lb <= La, 't=%r: lower limit %r of p=%r above lower limit %r of p=%r' % (
                        t, Lb, b, La, a), kind='nested')


def _match(got, want, rtol=1e-9):
    """Greedy matching of two lists of float pairs within tolerance; returns unmatched (got, want)."""
    rest = list(got)
    miss = []
    for w in want:
        hit = None
        for k, g in enumerate(rest):
            if all(abs(a - b) <= rtol * max(1.0, abs(a), abs(b)) for a, b in zip(g, w)):
                hit = k
                break
        if hit is None:
            miss.append(w)
        else:
            rest.pop(hit)
    return rest, miss


# ---------------------------------------------------------------------------------------------
# the check
# ---------------------------------------------------------------------------------------------
def check(case):
    from chi import plots
    s = case.spec
    plot = s['plot']
    pre = plot + '.'
    data = s['data']
    watch = _Watch()
    df = watch.add('data', build_frame(data))

    if plot in ('pd_ts', 'pk_ts'):
        pk = plot == 'pk_ts'
        fig = None
        with case.clause(pre + 'call:add_data'):
            fig = (plots.PKTimeSeriesPlot if pk else plots.PDTimeSeriesPlot)(updatemenu=s['updatemenu'])
            n0 = len(fig._fig.data)
            # (a new figure shows nothing yet, whatever other figures of this process hold)
            case.equal(n0, 0, 'number of traces of a newly constructed figure', kind='count')
            if not pk and 'sim' in s and len(data['rows']) % 2 == 0:
                # the line of a first guess is drawn BEFORE the data are added (and the fitted model's line afterwards)
                sim0 = s['sim']
                fig.add_simulation(build_frame(sim0), time_key=sim0['keys']['time'], value_key=sim0['keys']['value'])
                n0 = len(fig._fig.data)
                case.equal(n0, 1, 'number of traces after a first add_simulation', kind='count')
                case.labels.append('simulation_before_data')
            if pk:
                kw = _kw(data, ['id', 'time', 'obs', 'value', 'dose', 'dur'],
                         ['id_key', 'time_key', 'obs_key', 'value_key', 'dose_key', 'dose_duration_key'])
            else:
                kw = _kw(data, ['id', 'time', 'obs', 'value'], ['id_key', 'time_key', 'obs_key', 'value_key'])
            fig.add_data(df, observable=s['observable'], **kw)
        watch.verify(case, pre + 'unmodified:add_data')
        if (pre + 'call:add_data') not in case.checked:
            return
        traces = list(fig._fig.data)[n0:]
        _check_data_traces(case, pre, fig._fig, traces, data, _resolve(s['observable'], data), pk, not pk)
        # a second data frame is added to the SAME figure (period 2 of a cross-over study: the same individuals, other
        # values and doses): its traces hold exactly its rows, whatever the figure holds already
        if not case.fails:
            data2 = _second_frame(data)
            df2 = watch.add('second data', build_frame(data2))
            n_first = len(fig._fig.data)
            with case.clause(pre + 'call:add_data_second'):
                fig.add_data(df2, observable=s['observable'], **kw)
            watch.verify(case, pre + 'unmodified:add_data_second')
            if (pre + 'call:add_data_second') in case.checked:
                _check_data_traces(case, pre + 'second:', fig._fig, list(fig._fig.data)[n_first:], data2,
                                   _resolve(s['observable'], data2), pk, not pk)
        if pk:
            with case.clause(pre + 'simulation'):
                try:
                    fig.add_simulation(df, time_key=data['keys']['time'], value_key=data['keys']['value'],
                                       dose_key=data['keys']['dose'])
                except NotImplementedError:
                    pass
                else:
                    case.fail('noraise', 'PKTimeSeriesPlot.add_simulation is documented as not implemented but '
                              'returned')
            watch.verify(case, pre + 'unmodified:add_simulation')
            return
        sim = s['sim']
        sdf = watch.add('simulation', build_frame(sim))
        n1 = len(fig._fig.data)
        with case.clause(pre + 'call:add_simulation'):
            fig.add_simulation(sdf, time_key=sim['keys']['time'], value_key=sim['keys']['value'])
        watch.verify(case, pre + 'unmodified:add_simulation')
        if (pre + 'call:add_simulation') not in case.checked:
            return
        with case.clause(pre + 'simulation'):
            new = list(fig._fig.data)[n1:]
            case.equal(len(new), 1, 'number of traces added by add_simulation', kind='count')
            tr = new[0]
            case.equal(tr.mode, 'lines', 'mode of the simulation trace', kind='mode')
            got = list(zip(_arr(tr.x), _arr(tr.y)))
            want = [(_tok(r['time']), _tok(r['value'])) for r in _dicts(sim)]
            case.true(got == want, 'simulation trace %r, frame rows %r' % (got[:12], want[:12]), kind='pairs')
            case.equal(len(fig._fig.data), n1 + 1, 'total number of traces after add_simulation', kind='count')
            # the traces added before (data of every individual, an earlier simulation line) are still there, unchanged
            _check_data_traces(case, pre + 'after_simulation:', fig._fig, list(fig._fig.data)[n0:n0 + len(traces)], data,
                               _resolve(s['observable'], data), pk, not pk)
        return

    if plot in ('pd_pred', 'pk_pred'):
        pk = plot == 'pk_pred'
        pred = s['pred']
        pdf = watch.add('prediction', build_frame(pred))
        fig = None
        with case.clause(pre + 'construct'):
            fig = (plots.PKPredictivePlot if pk else plots.PDPredictivePlot)(updatemenu=s['updatemenu'])
            case.equal(len(fig._fig.data), 0, 'number of traces of a newly constructed figure', kind='count')
        if fig is None:
            return
        if s['with_data']:
            n0 = len(fig._fig.data)
            with case.clause(pre + 'call:add_data'):
                if pk:
                    kw = _kw(data, ['id', 'time', 'obs', 'value', 'dose', 'dur'],
                             ['id_key', 'time_key', 'obs_key', 'value_key', 'dose_key', 'dose_duration_key'])
                else:
                    kw = _kw(data, ['id', 'time', 'obs', 'value'], ['id_key', 'time_key', 'obs_key', 'value_key'])
                fig.add_data(df, observable=s['observable'], **kw)
            watch.verify(case, pre + 'unmodified:add_data')
            if (pre + 'call:add_data') in case.checked:
                traces = list(fig._fig.data)[n0:]
                _check_data_traces(case, pre, fig._fig, traces, data, _resolve(s['observable'], data), pk, not pk)
        n1 = len(fig._fig.data)
        with case.clause(pre + 'call:add_prediction'):
            if pk:
                kw = _kw(pred, ['time', 'obs', 'value', 'dose', 'dur'],
                         ['time_key', 'obs_key', 'value_key', 'dose_key', 'dose_duration_key'])
            else:
                kw = _kw(pred, ['time', 'obs', 'value'], ['time_key', 'obs_key', 'value_key'])
            probs = None if s['probs'] is None else list(s['probs'])
            fig.add_prediction(pdf, observable=s['pred_observable'], bulk_probs=probs, **kw)
            if probs is not None:
                case.true(probs == list(s['probs']), 'bulk_probs list of the caller was modified', kind='mutated')
        watch.verify(case, pre + 'unmodified:add_prediction')
        if (pre + 'call:add_prediction') not in case.checked:
            return
        new = list(fig._fig.data)[n1:]
        samples = _chosen_samples(s)
        obs_title = pred['keys']['obs'] if pk else None
        if s['probs'] is None:
            with case.clause(pre + 'pred_scatter'):
                case.equal(len(new), 1, 'number of traces added by add_prediction(bulk_probs=None)', kind='count')
                tr = new[0]
                case.equal(tr.mode, 'markers', 'mode of the sample scatter', kind='mode')
                got = Counter(zip(_arr(tr.x), _arr(tr.y)))
                want = Counter((_tok(t), _tok(v)) for t, vs in samples.items() for v in vs)
                case.true(got == want, 'sample scatter %r, samples of the observable %r' % (
                    _brief(got), _brief(want)), kind='pairs')
            if pk:
                with case.clause(pre + 'pred_scatter_panel'):
                    if len(new) == 1:
                        case.true(_panel_of(fig._fig, new[0]) == obs_title,
                                  'samples of the observable are drawn against the y-axis titled %r, not %r' % (
                                      _panel_of(fig._fig, new[0]), obs_title), kind='panel')
            return
        band = [tr for tr in new if tr.fill == 'toself']
        rest = [tr for tr in new if tr.fill != 'toself']
        if pk:
            with case.clause(pre + 'pred_dose'):
                doses = [d for v in _want_doses(pred).values() for d in v]
                dose_title = pred['keys']['dose']
                dt = [tr for tr in rest if _panel_of(fig._fig, tr) == dose_title]
                case.true(len(dt) == len(rest), 'unexpected extra traces %r' % [tr.name for tr in rest],
                          kind='count')
                if doses or dt:
                    case.equal(len(dt), 1, 'number of dose traces of the prediction', kind='count')
                    _cmp_dose(case, dt[0], doses, 'the prediction frame')
        else:
            with case.clause(pre + 'pred_extra'):
                case.equal(len(rest), 0, 'number of non-band traces added by add_prediction', kind='count')
        _check_bands(case, pre, fig._fig, band, samples, list(s['probs']), obs_title)
        return

    if plot == 'resid':
        pred = s['pred']
        pdf = watch.add('prediction', build_frame(pred))
        fig = None
        with case.clause(pre + 'construct'):
            kw = _kw(data, ['id', 'time', 'obs', 'value'], ['id_key', 'time_key', 'obs_key', 'value_key'])
            fig = plots.ResidualPlot(df, updatemenu=s['updatemenu'], **kw)
        watch.verify(case, pre + 'unmodified:construct')
        if fig is None:
            return
        n0 = len(fig._fig.data)
        with case.clause(pre + 'call:add_data'):
            kw = _kw(pred, ['time', 'obs', 'value'], ['time_key', 'obs_key', 'value_key'])
            fig.add_data(pdf, observable=s['pred_observable'], individual=s['individual'],
                         show_residuals=s['show_residuals'], show_relative=s['show_relative'], **kw)
        watch.verify(case, pre + 'unmodified:add_data')
        if (pre + 'call:add_data') not in case.checked:
            return
        with case.clause(pre + 'residuals'):
            obs = _resolve(s['pred_observable'], pred)
            by_t = {}
            for r in _dicts(pred):
                if r['obs'] == obs:
                    by_t.setdefault(r['time'], []).append(float(r['value']))
            want = {}
            for r in _dicts(data):
                if r['obs'] != obs or (s['individual'] is not None and r['id'] != s['individual']):
                    continue
                lst = want.setdefault(r['id'], [])
                if r['time'] is None or r['value'] is None or r['time'] not in by_t:
                    continue
                m = math.fsum(by_t[r['time']]) / len(by_t[r['time']])
                y = float(r['value'])
                if s['show_residuals']:
                    y = y - m
                if s['show_relative']:
                    y = y / m
                lst.append((m, y))
            new = list(fig._fig.data)[n0:]
            names = [_label_id(tr.name) for tr in new]
            case.true(len(set(names)) == len(names), 'duplicate trace names %r' % names, kind='label')
            by = dict(zip(names, new))
            for i, pairs in want.items():
                tr = by.get(str(i))
                if tr is None:
                    case.true(not pairs, 'no trace for individual %r (names %r)' % (i, names), kind='label')
                    continue
                case.equal(tr.mode, 'markers', 'mode of a residual trace', kind='mode')
                x, y = _arr(tr.x), _arr(tr.y)
                case.equal(len(x), len(y), 'len(x) vs len(y)', kind='shape')
                got = [p for p in zip(x, y) if 'nan' not in p]
                rest, miss = _match(got, pairs)
                case.true(not rest and not miss,
                          'individual %r: (mean prediction, %s) pairs: unmatched in figure %r, missing %r' % (
                              i, 'residual' if s['show_residuals'] else 'observation', rest[:6], miss[:6]),
                          kind='pairs')
            for nm, tr in by.items():
                if nm not in [str(i) for i in want]:
                    case.fail('label', 'trace %r belongs to no selected individual with observable %r' % (
                        tr.name, obs))
        return


RULE += (' Classes and clauses added in later rounds of the seeded-change protocol (DESIGN 9.4) are named in REQUIRED '
         'and in seeded/HISTORY.json; the evidence counts every one of them under classes.')
