"""C05 - Population models: documented densities, additive, layout-invariant, exact."""
import numpy as np
from hypothesis import strategies as st

from vf import gen, ref, popgen

ID = 'C05'
BUDGET = {'quick': 4000, 'thorough': 200000}
RULE = (
    'Hypothesis draws a population-model spec (elementary Gaussian/log-normal (centred or not)/truncated '
    'Gaussian/pooled/heterogeneous with n_dim 1-4, optionally wrapped in a covariate model (n_cov 1-3, default or '
    'explicit selection), composed of 1-4 parts, optionally reduced), n_ids 1-6, an in-support parameter vector '
    '(constructed: scales log-uniform [1e-2,1e2], truncated-Gaussian mu/sigma in [-3,5], covariate shifts keep every '
    "individual's scale positive), individual values within 3 sd, covariates in [-2,2], optional upstream "
    'sensitivities, and for elementary models one of the three documented parameter layouts. Non-trivial: n_dim>=2 '
    'or matrix/tensor layout or upstream sensitivities present, n_ids>=2. Distinct = distinct structural projection '
    '(kinds, dims, centred flags, selections, fixed sets, n_ids, layout, upstream flag).')
ASSUMPTIONS = [
    'reference densities written from the class docstrings (vf/ref.py), complex-step derivatives of the reference',
    'set_n_ids(n_ids) is called before direct evaluation, as every chi caller does',
    'sensitivities of point-mass (pooled/heterogeneous) dimensions are only required to be consistent between the '
    'separate and the hierarchical return form and to equal the hierarchical derivative in the reduced form']
REQUIRED = ['kind:gauss', 'kind:lognorm', 'kind:trunc', 'kind:pooled', 'kind:hetero', 'cov', 'comp', 'red',
            'layout:matrix', 'layout:tensor', 'upstream', 'noncentered', 'oos', 'noncentered_zero_scale', 'reduced_part:all_fixed', 'trunc_value_on_boundary',
            'reduced_wrapper_resized:hetero']


@st.composite
def _spec(draw):
    n_ids = draw(st.integers(1, 6))
    mode = draw(st.sampled_from(['elem', 'elem', 'pop']))
    if mode == 'elem':
        pop = popgen.draw_elem(draw, max_dim=4)
        layout = draw(st.sampled_from(['flat', 'matrix', 'tensor']))
    else:
        pop = popgen.draw_pop(draw, n_ids, max_dim=3, p_red=0)
        layout = 'flat'
    n_cov = ref.pop_n_cov(pop)
    cov = popgen.draw_cov_matrix(draw, n_ids, n_cov)
    if mode == 'pop' and gen.chance(draw, 0.2):
        pop, theta = popgen.draw_reduced(draw, pop, n_ids, cov)
    else:
        theta = popgen.draw_theta(draw, pop, n_ids, cov)
    zero = False
    if pop['kind'] != 'red':
        theta, zero = popgen.zero_scale(draw, pop, n_ids, theta, p=0.3)
    nested_red = None
    if pop['kind'] == 'comp':
        pop, theta, nested_red = popgen.nest_reduced(draw, pop, n_ids, theta, p=0.12)
    n_dim = ref.pop_n_dim(pop)
    z = draw(gen.mat(gen.real(-3, 3), n_ids, n_dim))
    U = draw(gen.mat(gen.real(-3, 3), n_ids, n_dim)) if gen.chance(draw, 0.5) else None
    oos = None
    if pop['kind'] in ('gauss', 'lognorm', 'trunc') and pop.get('centered', True) and gen.chance(draw, 0.1):
        oos = draw(st.integers(0, n_dim - 1))
    psi_zero = None
    if popgen.has(pop, 'trunc') and oos is None and gen.chance(draw, 0.15):
        d0_, cands_ = 0, []
        for lf in popgen.leaves(pop):
            if lf['kind'] == 'trunc':
                cands_ += list(range(d0_, d0_ + lf['n_dim']))
            d0_ += lf['n_dim']
        psi_zero = [draw(st.integers(0, n_ids - 1)), cands_[draw(st.integers(0, len(cands_) - 1))]]
    return dict(pop=pop, n_ids=n_ids, theta=theta, z=z, cov=cov, U=U, layout=layout, oos=oos, zero_scale=zero, nested_red=nested_red,
                psi_zero=psi_zero)


def strategy(tier):
    return _spec()


def classify(spec):
    pop = spec['pop']
    labs = ['layout:' + spec['layout']]
    for lf in popgen.leaves(pop):
        labs.append('kind:' + lf['kind'])
        if lf['kind'] in ('gauss', 'lognorm') and not lf.get('centered', True):
            labs.append('noncentered')
    for k in ('cov', 'comp', 'red'):
        if popgen.has(pop, k):
            labs.append(k)
    if spec['U'] is not None:
        labs.append('upstream')
    if spec['oos'] is not None:
        labs.append('oos')
    if spec.get('psi_zero'):
        labs.append('trunc_value_on_boundary')
    if spec.get('zero_scale'):
        labs.append('noncentered_zero_scale')
    if spec.get('nested_red'):
        labs.append('reduced_part')
        if spec['nested_red'] == 'all':
            labs.append('reduced_part:all_fixed')
    return sorted(set(labs))


def nontrivial(spec):
    if spec['oos'] is not None or spec['n_ids'] < 2:
        return False
    return ref.pop_n_dim(spec['pop']) >= 2 or spec['layout'] != 'flat' or spec['U'] is not None


def structure(spec):
    return [popgen.structure(spec['pop']), spec['n_ids'], spec['layout'], spec['U'] is not None]


def _gtol(case, got, want, what, rtol=1e-7):
    case.close(got, want, rtol=rtol, what=what)


def check(case):
    s = case.spec
    pop, n_ids = s['pop'], s['n_ids']
    theta = np.array(s['theta'], dtype=float)
    cov = None if s['cov'] is None else np.array(s['cov'], dtype=float)
    n_dim = ref.pop_n_dim(pop)
    U = None if s['U'] is None else np.array(s['U'], dtype=float)
    special = ref.pop_special(pop)
    nb, nt, hd = ref.hier_layout(pop, n_ids)
    kw = {} if cov is None else {'covariates': cov}

    with case.clause('construct'):
        m = ref.build_pop(pop, None, n_ids)
        m.set_n_ids(n_ids)
    if case.fails:
        return

    if s['oos'] is not None:
        th = theta.copy()
        th[n_dim + s['oos']] = -abs(th[n_dim + s['oos']])
        x = popgen.x_from_z(pop, n_ids, theta, s['z'], cov)
        with case.clause('oos_value'):
            case.close(m.compute_log_likelihood(th, x), -np.inf, what='negative scale')
        with case.clause('oos_sens'):
            out = m.compute_sensitivities(th, x)
            case.close(out[0], -np.inf, what='negative scale (sensitivities)')
        return

    x = popgen.x_from_z(pop, n_ids, theta, s['z'], cov)
    if s.get('psi_zero'):
        # an individual value exactly on the truncation point 0 (inside the support)
        x = np.array(x, dtype=float)
        x[s['psi_zero'][0], s['psi_zero'][1]] = 0.0
    if any(special):
        # Point-mass dimensions demand bit-wise equality with the dictated value; take that value
        # from chi's own transform (as HierarchicalLogLikelihood does) so that summation order in
        # the covariate shift cannot produce a spurious -inf. (Input construction, not an oracle.)
        with case.clause('construct'):
            xc = np.asarray(m.compute_individual_parameters(theta.copy(), x.copy(), **kw), dtype=float)
            case.close(xc, np.real(ref.pop_indiv(pop, n_ids, theta, x, cov)), rtol=1e-12,
                       what='individual parameters of point-mass dimensions')
            for d, sp in enumerate(special):
                if sp:
                    x[:, d] = xc[:, d]
        if case.fails:
            return
    want = float(np.real(ref.pop_loglik(pop, n_ids, theta, x, cov)))

    def lay(th):
        if s['layout'] == 'flat':
            return th.copy()
        npd = ref.pop_per_dim(pop, n_ids)
        M = th.reshape(npd, n_dim)
        if s['layout'] == 'matrix':
            return M.copy()
        return np.broadcast_to(M[np.newaxis], (n_ids, npd, n_dim)).copy()

    with case.clause('counts'):
        case.equal(m.n_parameters(), nt, 'n_parameters')
        case.equal(len(m.get_parameter_names()), nt, 'len(get_parameter_names)')
        case.equal(m.n_dim(), n_dim, 'n_dim')
        case.equal(tuple(int(v) for v in m.n_hierarchical_parameters(n_ids)), (nb, nt),
                   'n_hierarchical_parameters')
        case.equal(m.n_covariates(), ref.pop_n_cov(pop), 'n_covariates')
        if pop['kind'] in ('lognorm', 'trunc'):
            ms = np.asarray(m.get_mean_and_std(theta.copy()))
            case.equal(ms.shape, (2, n_dim), 'get_mean_and_std shape', kind='shape')

    with case.clause('value'):
        got = m.compute_log_likelihood(lay(theta), x.copy(), **kw)
        case.close(got, want, rtol=1e-8, what='log-likelihood (%s layout)' % s['layout'])
        if n_dim == 1 and pop['kind'] in ref.ELEM:
            got1 = m.compute_log_likelihood(lay(theta), x[:, 0].copy(), **kw)
            case.close(got1, want, rtol=1e-8, what='log-likelihood, 1-d observations')

    if pop['kind'] == 'comp':
        with case.clause('additive'):
            tot = 0.0
            t0 = d0 = c0 = 0
            for part in pop['parts']:
                n_t, n_d, n_c = ref.pop_n_par(part, n_ids), ref.pop_n_dim(part), ref.pop_n_cov(part)
                pm = ref.build_pop(part, None, n_ids)
                pm.set_n_ids(n_ids)
                kk = {} if n_c == 0 else {'covariates': cov[:, c0:c0 + n_c]}   # (a view, as the composed model passes it)
                x_p = x[:, d0:d0 + n_d].copy()
                if part['kind'] == 'cov' and part['base']['kind'] in ('pooled', 'hetero'):
                    # point-mass values under a covariate shift: taken from THIS part's own transform of these arrays (the
                    # last bits of theta + beta * chi depend on the alignment of the arrays; section 9.5, log entry 45)
                    x_p = np.asarray(pm.compute_individual_parameters(theta[t0:t0 + n_t].copy(), x_p.copy(), **kk),
                                     dtype=float)
                    case.close(x_p, x[:, d0:d0 + n_d], rtol=1e-12, what='individual values of a covariate-shifted point '
                               'mass: the part on its own vs inside the composition')
                tot += pm.compute_log_likelihood(theta[t0:t0 + n_t].copy(), x_p, **kk)
                t0, d0, c0 = t0 + n_t, d0 + n_d, c0 + n_c
            case.close(m.compute_log_likelihood(theta.copy(), x.copy(), **kw), tot, rtol=1e-9,
                       what='composed value vs sum of parts')

    psi_want = np.real(ref.pop_indiv(pop, n_ids, theta, x, cov))
    with case.clause('indiv'):
        got = m.compute_individual_parameters(lay(theta), x.copy(), **kw)
        case.close(got, psi_want, rtol=1e-9, what='individual parameters (%s layout)' % s['layout'])
        if pop['kind'] not in ('cov',):
            # eta may also be supplied flat, shape (n_ids * n_dim,)
            got = m.compute_individual_parameters(lay(theta), x.flatten(), **kw)
            case.close(got, psi_want, rtol=1e-9, what='individual parameters, flat eta')

    # ---- sensitivities ---------------------------------------------------
    Uz = np.zeros((n_ids, n_dim)) if U is None else U

    def F_h(v):
        xx, th = ref.hier_split(pop, n_ids, v, cov)
        psi = ref.pop_indiv(pop, n_ids, th, xx, cov)
        return ref.pop_loglik(pop, n_ids, th, xx, cov) + np.sum(Uz * psi)

    v0 = np.concatenate([x[:, hd].flatten(), theta])
    with case.clause('sens_reduce'):
        sc, g = m.compute_sensitivities(
            lay(theta), x.copy(), dlogp_dpsi=None if U is None else U.copy(), reduce=True, **kw)
        case.close(sc, want, rtol=1e-8, what='score (reduce=True)')
        g = np.asarray(g, dtype=float)
        case.equal(g.shape, (nb + nt,), 'reduced gradient shape', kind='shape')
        _gtol(case, g, ref.cgrad(F_h, v0), 'reduced gradient')
        # evaluated again at the same point (and after an evaluation in the other form): nothing accumulates
        m.compute_sensitivities(lay(theta), x.copy(), dlogp_dpsi=None if U is None else U.copy(), **kw)
        for rnd in (2, 3):
            sc_r, g_r = m.compute_sensitivities(
                lay(theta), x.copy(), dlogp_dpsi=None if U is None else U.copy(), reduce=True, **kw)
            # (to rounding: numpy's pairwise sums may differ in the last bits with the alignment of a fresh buffer; what
            # the clause looks for - contributions accumulating over calls - is orders of magnitude larger)
            case.close(np.asarray(g_r, dtype=float), g, rtol=1e-13, atol=1e-15 * float(np.max(np.abs(g))) if np.size(g) else 0.0,
                       what='reduced gradient of evaluation %d at the same point vs the first evaluation' % rnd)
            case.close(sc_r, sc, rtol=0, atol=0, what='score of evaluation %d at the same point' % rnd)

    sep = None
    with case.clause('sens_separate'):
        sc, dpsi, dth = m.compute_sensitivities(
            lay(theta), x.copy(), dlogp_dpsi=None if U is None else U.copy(), **kw)
        case.close(sc, want, rtol=1e-8, what='score (separate form)')
        dpsi = np.asarray(dpsi, dtype=float)
        dth = np.asarray(dth, dtype=float)
        case.equal(dpsi.shape, (n_ids, n_dim), 'dpsi shape', kind='shape')
        case.equal(dth.shape, (nt,), 'dtheta shape', kind='shape')
        sep = (dpsi, dth)
        if not any(special):
            # all dimensions regular: separate form == plain derivatives
            def G(v):
                xx = v[:n_ids * n_dim].reshape(n_ids, n_dim)
                th = v[n_ids * n_dim:]
                psi = ref.pop_indiv(pop, n_ids, th, xx, cov)
                return ref.pop_loglik(pop, n_ids, th, xx, cov) + np.sum(Uz * psi)
            gw = ref.cgrad(G, np.concatenate([x.flatten(), theta]))
            _gtol(case, dpsi.flatten(), gw[:n_ids * n_dim], 'dpsi')
            _gtol(case, dth, gw[n_ids * n_dim:], 'dtheta')

    if sep is not None and _special_param_index(pop, n_ids) is not None and 'sens_reduce' in case.checked:
        with case.clause('forms_agree'):
            # hierarchical ordering of the separate form
            dpsi, dth = sep
            bottom = dpsi[:, hd].flatten()
            top = dth.copy()
            names_special = _special_param_index(pop, n_ids)
            for d, info in names_special.items():
                kind, idx = info
                if kind == 'pooled':
                    top[idx] += dpsi[:, d].sum()
                else:
                    for i in range(n_ids):
                        top[idx[i]] += dpsi[i, d]
            sc, g = m.compute_sensitivities(
                theta.copy(), x.copy(), dlogp_dpsi=None if U is None else U.copy(), reduce=True, **kw)
            _gtol(case, g, np.concatenate([bottom, top]), 'reduce=True vs reordered separate form')

    _extra_clauses(case, m, pop, n_ids, theta, x, cov, special, want, kw)

    if pop['kind'] in ref.ELEM:
        with case.clause('unflattened'):
            sc, dpsi2, T = m.compute_sensitivities(
                lay(theta), x.copy(), dlogp_dpsi=None if U is None else U.copy(), flattened=False)
            T = np.asarray(T, dtype=float)
            npd = ref.pop_per_dim(pop, n_ids)
            case.equal(T.shape, (n_ids, npd, n_dim), 'unflattened dtheta shape', kind='shape')
            if sep is not None:
                _gtol(case, T.sum(axis=0).flatten(), sep[1], 'sum over individuals of unflattened dtheta')
                _gtol(case, dpsi2, sep[0], 'dpsi (flattened=False)')
            # "reduce is prioritised over flattened": with both flags the hierarchical form is returned
            r_a = m.compute_sensitivities(lay(theta), x.copy(), dlogp_dpsi=None if U is None else U.copy(), reduce=True)
            r_b = m.compute_sensitivities(lay(theta), x.copy(), dlogp_dpsi=None if U is None else U.copy(), reduce=True,
                                          flattened=False)
            case.equal(len(r_b), len(r_a), 'length of the tuple returned for reduce=True, flattened=False', kind='shape')
            case.equal(np.shape(r_b[1]), np.shape(r_a[1]), 'shape of the gradient for reduce=True, flattened=False vs '
                       'reduce=True', kind='shape')
            case.close(np.asarray(r_b[1], dtype=float), np.asarray(r_a[1], dtype=float), rtol=1e-12,
                       what='gradient for reduce=True, flattened=False vs reduce=True')
            case.close(r_b[0], r_a[0], rtol=1e-12, what='score for reduce=True, flattened=False vs reduce=True')


def _extra_clauses(case, m, pop, n_ids, theta, x, cov, special, want, kw):
    s = case.spec
    n_dim = ref.pop_n_dim(pop)
    # ---- the same model behind a reduced wrapper in which nothing is fixed, parameters in the matrix layout
    # (n_param_per_dim, n_dim) held as a transposed view (not C-ordered): the same numbers, the same results
    if pop['kind'] in ref.ELEM and n_dim >= 2 and np.isfinite(want):
        with case.clause('reduced_wrapper_matrix_layout'):
            import chi
            wrap = chi.ReducedPopulationModel(ref.build_pop(pop, None, n_ids))
            wrap.set_n_ids(n_ids)
            npd = ref.pop_per_dim(pop, n_ids)
            mat_c = theta.reshape(npd, n_dim).copy()
            mat_f = np.asfortranarray(mat_c)                  # same values, column-major memory
            mat_t = np.ascontiguousarray(mat_c.T).T           # a transposed view
            for label, th_m in (('C-ordered', mat_c), ('Fortran-ordered', mat_f), ('a transposed view', mat_t)):
                case.close(wrap.compute_log_likelihood(th_m, x.copy()), want, rtol=1e-9,
                           what='log-likelihood of the reduced wrapper, parameter matrix %s' % label)
                out_w = wrap.compute_sensitivities(th_m, x.copy(), reduce=True)
                out_m = m.compute_sensitivities(theta.copy(), x.copy(), reduce=True)
                case.close(np.asarray(out_w[1], dtype=float), np.asarray(out_m[1], dtype=float), rtol=1e-12,
                           what='reduced sensitivities of the reduced wrapper, parameter matrix %s' % label)

    # ---- a reduced wrapper that is built and has a parameter fixed (by name) while the model still has its default
    # number of individuals, and is resized afterwards (what a hierarchical log-likelihood does with the population
    # model it is given): the fixed parameter stays the one that was named
    names_n = [str(v) for v in m.get_parameter_names()]
    cand = [j for j, nm in enumerate(names_n) if not nm.startswith('ID ')]
    if cand and len(names_n) >= 2 and np.isfinite(want) and s['layout'] == 'flat' and not popgen.has(pop, 'red') \
            and not popgen.has(pop, 'cov'):
        with case.clause('reduced_wrapper_resized'):
            import chi
            j = cand[-1] if len(theta) % 2 else cand[0]
            wrap = chi.ReducedPopulationModel(ref.build_pop(pop, None, None))
            if names_n[j] in [str(v) for v in wrap.get_parameter_names()]:
                wrap.fix_parameters({names_n[j]: float(theta[j])})
                wrap.set_n_ids(n_ids)
                free = [k for k in range(len(theta)) if k != j]
                case.equal([str(v) for v in wrap.get_parameter_names()], [names_n[k] for k in free],
                           'free names of a wrapper resized to %d individuals after %r was fixed' % (n_ids, names_n[j]))
                case.close(wrap.compute_log_likelihood(theta[free].copy(), x.copy(), **kw), want, rtol=1e-9,
                           what='log-likelihood of a wrapper resized to %d individuals after %r was fixed' % (
                               n_ids, names_n[j]))
                out_w = wrap.compute_sensitivities(theta[free].copy(), x.copy(), reduce=True, **kw)
                out_m = m.compute_sensitivities(theta.copy(), x.copy(), reduce=True, **kw)
                g_m = np.asarray(out_m[1], dtype=float)
                keep = [k for k in range(len(g_m)) if k != len(g_m) - len(theta) + j]
                case.close(np.asarray(out_w[1], dtype=float), g_m[keep], rtol=1e-12,
                           what='reduced sensitivities of a wrapper resized to %d individuals after %r was fixed' % (
                               n_ids, names_n[j]))
                case.labels.append('reduced_wrapper_resized' + (':hetero' if len(cand) < len(names_n) and n_ids >= 2
                                                                else ''))

    # ---- the point mass has no width -------------------------------------------------------
    if any(special) and cov is None and np.isfinite(want):
        with case.clause('point_mass_strict'):
            d = [k for k, sp in enumerate(special) if sp][0]
            for label, f in (('one unit in the last place', lambda v: np.nextafter(v, np.inf)),
                             ('a relative 1e-9', lambda v: v * (1.0 + 1e-9)), ('an absolute 1e-9', lambda v: v + 1e-9)):
                x2 = x.copy()
                x2[0, d] = f(x2[0, d])
                if x2[0, d] == x[0, d]:
                    continue
                v = m.compute_log_likelihood(theta.copy(), x2, **kw)
                case.close(v, -np.inf, what='log-likelihood with the value of individual 0 in point-mass dimension %d off '
                                            'by %s' % (d, label))
                sc = m.compute_sensitivities(theta.copy(), x2.copy(), **kw)[0]
                case.close(sc, -np.inf, what='score of compute_sensitivities with the value of individual 0 in point-mass '
                                             'dimension %d off by %s' % (d, label))
    # ---- other array forms -----------------------------------------------------------------
    if np.isfinite(want) and s['layout'] == 'flat':
        with case.clause('array_forms'):
            from vf.core import array_forms
            for (lt, a_th) in array_forms(theta):
                x_f = x
                if cov is not None and any(special):
                    # point-mass values under a covariate shift are the sum theta + beta * chi to the last bit; a strided
                    # parameter array is summed in another order inside numpy, so the values are taken from chi's own
                    # transform of THIS array form (section 9.5; found by the thorough tier at VERIF_SEED 4)
                    xc_ = np.asarray(m.compute_individual_parameters(a_th, x.copy(), **kw), dtype=float)
                    x_f = x.copy()
                    for d_, sp_ in enumerate(special):
                        if sp_:
                            x_f[:, d_] = xc_[:, d_]
                for (lx, a_x) in array_forms(x_f):
                    v = m.compute_log_likelihood(a_th, a_x, **kw)
                    case.close(v, want, rtol=1e-8, what='log-likelihood for parameters given as %s and values as %s' % (lt, lx))
                    sc_a = m.compute_sensitivities(a_th, a_x, reduce=True, **kw)
                    sc_b = m.compute_sensitivities(theta.copy(), x.copy(), reduce=True, **kw)
                    case.close(np.asarray(sc_a[1], dtype=float), np.asarray(sc_b[1], dtype=float), rtol=1e-12,
                               atol=1e-13 * float(np.max(np.abs(np.asarray(sc_b[1], dtype=float)))) if np.size(sc_b[1]) else 0.0,
                               what='reduced sensitivities for parameters given as %s and values as %s' % (lt, lx))
    # ---- whole numbers typed as integers ---------------------------------------------------
    if cov is None and s['layout'] == 'flat':
        with case.clause('integer_inputs'):
            th_i = np.maximum(1, np.round(np.abs(theta))).astype(int)
            x_i = np.maximum(1, np.round(np.abs(x))).astype(int)
            th_f = th_i.astype(float)
            if any(special):
                xc = np.asarray(m.compute_individual_parameters(th_f.copy(), x_i.astype(float)), dtype=float)
                for d, sp in enumerate(special):
                    if sp:
                        x_i[:, d] = np.round(xc[:, d]).astype(int)
            x_f = x_i.astype(float)
            v_f = m.compute_log_likelihood(th_f.copy(), x_f.copy())
            ref_v = float(np.real(ref.pop_loglik(pop, n_ids, th_f, x_f, None)))
            case.close(v_f, ref_v, rtol=1e-8, what='log-likelihood at whole numbers (floats) vs reference')
            # (arrays are the documented argument type; lists are not demanded)
            for label, ct, cx in (('int arrays', th_i, x_i), ('a float parameter array and an int observation array',
                                                               th_f.copy(), x_i)):
                case.close(m.compute_log_likelihood(ct, cx), v_f, rtol=1e-12,
                           what='log-likelihood for whole numbers given as %s vs as floats' % label)
                ia = np.asarray(m.compute_individual_parameters(ct, cx), dtype=float)
                ib = np.asarray(m.compute_individual_parameters(th_f.copy(), x_f.copy()), dtype=float)
                case.close(ia, ib, rtol=1e-12, what='individual parameters for whole numbers given as %s vs as floats' % label)
                if np.isfinite(v_f):
                    for red in (False, True):
                        a = m.compute_sensitivities(ct, cx, reduce=red)
                        b = m.compute_sensitivities(th_f.copy(), x_f.copy(), reduce=red)
                        for u, v in zip(a, b):
                            case.close(np.asarray(u, dtype=float), np.asarray(v, dtype=float), rtol=1e-12,
                                       what='compute_sensitivities(reduce=%s) for whole numbers given as %s vs as floats'
                                            % (red, label))


def _special_param_index(pop, n_ids):
    """dimension -> ('pooled', top index) or ('hetero', [top index per individual]) for
    compositions of elementary models (no wrappers)."""
    out = {}
    if pop['kind'] not in ref.ELEM + ('comp',):
        return None
    parts = pop['parts'] if pop['kind'] == 'comp' else [pop]
    flat = []
    for p in parts:
        flat += p['parts'] if p['kind'] == 'comp' else [p]
    t0 = d0 = 0
    for p in flat:
        if p['kind'] not in ref.ELEM:
            return None
        nd = p['n_dim']
        if p['kind'] == 'pooled':
            for d in range(nd):
                out[d0 + d] = ('pooled', t0 + d)
        elif p['kind'] == 'hetero':
            for d in range(nd):
                out[d0 + d] = ('hetero', [t0 + i * nd + d for i in range(n_ids)])
        t0 += ref.pop_n_par(p, n_ids)
        d0 += nd
    return out


RULE += (' Classes and clauses added in later rounds of the seeded-change protocol (DESIGN 9.4) are named in REQUIRED '
         'and in seeded/HISTORY.json; the evidence counts every one of them under classes.')
