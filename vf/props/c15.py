"""C15 - Predictive models sample the stated generative process, correctly labelled.

Oracle by WATERMARKING: the error models get a tiny scale (sigma = 1e-9 * s, s part of the parameter row), so
every sampled value equals the mechanistic output of the parameter row that generated it up to ~1e-8 relative.
Which row (posterior draw, prior table row, model of a PAM, heterogeneous row, pooled value) generated the values
of a sample ID is then decided by exact membership checks against the reference outputs; continuous individual
parameters (Gaussian / log-normal / truncated dimensions of a population model) are decoded by a batched
Levenberg-Marquardt inversion of the analytic model whose result is *verified* against `ref_outputs`.
"""
import itertools
import math

import numpy as np
from hypothesis import strategies as st
from scipy import special as sp_special

from vf import gen, ref, popgen, stats
from vf.analytic_model import AnalyticModel, ref_outputs, weight
from vf.core import Inconclusive

ID = 'C15'
BUDGET = {'quick': 1500, 'thorough': 15000}
MODES = ['pred', 'poppred', 'prior', 'post', 'pam']
RULE = (
    'Hypothesis draws one of the five predictive models. Mechanistic model: vf.analytic_model.AnalyticModel (1-2 '
    'outputs, optionally a re-ordered / partial output selection through `outputs=`, 1-3 parameters) or (about 25%) the '
    'library one-compartment PK model through the reference integrator with a dosing regimen (single / periodic '
    'finite / indefinite; dosed sub-domain of the include_regimen clause); one of the four error models per output; '
    '1-5 well separated times in arbitrary (unsorted) order, sometimes including 0; n_samples None or 1-6; integer '
    'seeds; return_df / include_regimen flags. PredictiveModel: a parameter vector. PopulationPredictiveModel: a '
    'population model of matching dimension from the grammar of vf/ref.py (Gaussian / log-normal centred or not, '
    'truncated Gaussian, pooled, heterogeneous with 1-4 individuals, at most one covariate-wrapped part with 1-2 '
    'covariates and default or explicit selection, composed, optionally reduced), covariates 1-D, (n_samples, '
    'n_cov), (1, n_cov) or ignored, and a configuration history: never configured, set_n_ids(k) or used in a '
    'HierarchicalLogLikelihood with k individuals, k equal to or different from n_samples. PriorPredictiveModel: a '
    'joint table prior (pints.LogPrior subclass whose support is 2-6 complete parameter rows) or a composed '
    'continuous pints prior, over a PredictiveModel or a PopulationPredictiveModel. PosteriorPredictiveModel: an '
    'xarray dataset with 1-3 chains, 2-10 draws, 0-4 individuals, individual-level and population-level variables, '
    'param_map, unrelated variables, shuffled variable order, individual None or one of the ids; over a '
    'PredictiveModel or (population-level parameters) a PopulationPredictiveModel. PAMPredictiveModel: 2-3 posterior '
    'predictive models (own parameter count, error models and dataset each) and weights. Watermark: all error '
    'scales are 1e-9 * s so that the generating parameter row is decodable from the values. Statistical '
    'sub-domains (vf/stats.py two-stage rule): ordinary sigma and n1 = 2000 samples for the error distribution '
    'around the mechanistic output (PredictiveModel; PopulationPredictiveModel with an all-pooled population); '
    'n1 = 1000 individuals for the two-sample Kolmogorov-Smirnov comparison of the sampled values with the reference '
    'process (4 n1 individuals drawn from the documented population distribution at the same covariates, derived '
    'seed, pushed through the reference outputs); n1 = 300 for PAM weights; '
    '40 x rows for the uniform choice of posterior draws / prior table rows. Non-trivial: n_samples >= 2 and '
    '(>= 2 outputs or >= 2 times), and for population models a special / non-centred / covariate dimension. '
    'Distinct = structural projection (mode, model structure, flags, dataset shape, history).')
RULE += (' ' + "Added sub-domains: heterogeneous parts over mechanistic dimensions with 2-4 individuals and 1000 patients (the row each patient received is decoded exactly; uniform and serially independent); param_map cycles in which dataset variables carry the model's names of other parameters.")
ASSUMPTIONS = [
    'reference outputs: vf.analytic_model.ref_outputs; closed-form one-compartment solution for the dosed sub-domain '
    '(reference integrator vf/simshim.py, relative tolerance 1e-6)',
    'watermark tolerance: 12 standard deviations of the (tiny) error scale; decoded continuous parameters are accepted '
    'only if they reproduce every value of the sample ID through ref_outputs (verified pre-image); a case whose '
    'inversion does not converge is inconclusive, never a failure',
    'individual parameters of continuous population dimensions must lie within 9 population standard deviations '
    '(probability of a false alarm 2e-19 per value)',
    'error-model scale parameters are not decodable (they are tiny): which row THEY came from is not checked',
    'the combined error model is exercised with ordinary sigma only where both readings of its variance agree to '
    '0.1% (the discrepancy between its sampler and its density belongs to C06)',
    'identical noise of two outputs with the same error model under an integer seed belongs to C16 and is not judged',
    'PAMPredictiveModel chooses models with the global numpy generator: it is seeded from the spec before the call',
    'dose rows of the averaged models may be attached once (ID NaN) or per sample ID',
    'heterogeneous dimensions: membership in the rows; in the statistical sub-domain (n_samples = 1000 != n_ids) '
    'the rows are chosen uniformly, as HeterogeneousModel.sample documents',
    'the analytic model is not injective everywhere: a failure of a continuous individual parameter is reported only '
    'for a verified pre-image outside the admissible set after a wide search found no admissible pre-image',
    'two-stage statistical rule of vf/stats.py (false-alarm rate ~1e-13 per test)']
REQUIRED = ['mode:' + m for m in MODES] + [
    'mech:pk', 'regimen', 'unsorted', 'out_sel', 'df', 'array', 'wm', 'stat', 'ns=None',
    'kind:gauss', 'kind:lognorm', 'kind:trunc', 'kind:pooled', 'kind:hetero', 'noncentered', 'cov', 'cov:1d', 'cov:2d',
    'red', 'ns=last', 'ns!=last', 'last:hll', 'last:set', 'last:none', 'inner:pop', 'prior:table', 'prior:cont',
    'post:poplevel', 'post:param_map', 'post:individual', 'post:default_individual', 'decoded', 'stat:hetero_rows', 'post:param_map_cycle',
    'user_error_model_reused', 'seed:numpy_int', 'last_time_at_dose', 'fixed_then_regimen:finite', 'post:nan_padded_draws']
TINY = 1e-9
ENV_SD = 9.0
SEEDS = st.integers(0, 2 ** 31 - 2)


# =============================================================================================
# strategy
# =============================================================================================
def _sep(draw, n, lo=0.2, hi=5.0):
    """n pairwise well separated positive values (ratio >= (hi/lo)**(0.4/n)) in arbitrary order."""
    if n == 0:
        return []
    us = draw(gen.vec(st.floats(0.0, 1.0, allow_nan=False), n))
    order = list(draw(st.permutations(list(range(n)))))
    span = math.log(hi / lo)
    return [gen.r6(lo * math.exp(span * (order[i] + 0.6 * us[i]) / n)) for i in range(n)]


def _draw_times(draw, n_min=1):
    n = draw(st.integers(n_min, max(n_min, 5)))
    ts = _sep(draw, n, 0.1, 20.0)
    if gen.chance(draw, 0.1):
        ts[draw(st.integers(0, n - 1))] = 0.0
    return ts


def _draw_mech(draw, pk):
    if pk:
        reg = None
        if not gen.chance(draw, 0.1):
            period = None if gen.chance(draw, 0.3) else draw(gen.logu(0.5, 6.0))
            start = draw(gen.logu(0.05, 8.0))
            if period is not None and gen.chance(draw, 0.35):
                # decimal periods / starts: their multiples are not exactly representable
                period = draw(st.sampled_from([0.5, 0.6, 0.7, 1.1, 1.3]))
                start = draw(st.sampled_from([0.1, 0.2, 0.5, 1.7]))
            num = None if (period is None or gen.chance(draw, 0.4)) else draw(st.integers(1, 4))
            reg = dict(dose=draw(gen.logu(0.2, 5.0)), start=start,
                       duration=draw(gen.logu(0.01, 0.4)), period=period, num=num)
        return dict(kind='pk', regimen=reg, n_par=3, n_tot=1, sel=[0])
    n_tot = draw(st.integers(1, 2))
    sel = list(range(n_tot))
    if n_tot == 2 and gen.chance(draw, 0.3):
        sel = draw(st.sampled_from([[1, 0], [0], [1]]))
    return dict(kind='analytic', n_tot=n_tot, sel=sel, n_par=draw(st.integers(1, 3)))


def _draw_ems(draw, n_out):
    return [draw(st.sampled_from(ref_em_kinds())) for _ in range(n_out)]


def ref_em_kinds():
    return ['gauss', 'mult', 'cm', 'lognorm']


def _n_sig(ems):
    return sum(ref.EM_NPAR[k] for k in ems)


def _draw_tiny_sig(draw, ems):
    return [gen.r6(TINY * v) for v in gen.distinct(draw(gen.vec(gen.logu(0.3, 3.0), _n_sig(ems))))]


def _draw_psi(draw, mech):
    if mech['kind'] == 'pk':
        return [draw(gen.logu(0.3, 3.0)), draw(gen.logu(0.5, 4.0)), draw(gen.logu(0.05, 0.4))]
    return _sep(draw, mech['n_par'], 0.2, 5.0)


def _draw_ordinary_sig(draw, ems, scale):
    out = []
    for k in ems:
        if k == 'gauss':
            out.append(gen.r6(scale * draw(gen.logu(0.02, 0.3))))
        elif k in ('mult', 'lognorm'):
            out.append(draw(gen.logu(0.02, 0.4)))
        else:
            # one of the two terms dominates by 1e3 (see ASSUMPTIONS)
            if draw(st.booleans()):
                b = gen.r6(scale * draw(gen.logu(0.02, 0.3)))
                out += [b, gen.r6(1e-3 * b / (30.0 * scale))]
            else:
                r = draw(gen.logu(0.02, 0.4))
                out += [gen.r6(1e-3 * r * scale / 30.0), r]
    return out


# ---- population models -------------------------------------------------------------------------
def _draw_leaf_theta(draw, e, mags, n_ids_h):
    k, nd = e['kind'], e['n_dim']
    if k in ('gauss', 'trunc'):
        mu = [gen.r6(m * v) for m, v in zip(mags, draw(gen.vec(gen.logu(0.5, 5.0), nd)))]
        f = draw(gen.vec(gen.logu(0.01, 0.07) if k == 'gauss' else gen.logu(0.02, 0.8), nd))
        return mu + [gen.r6(a * b) for a, b in zip(mu, f)]
    if k == 'lognorm':
        return [gen.r6(math.log(m) + v) for m, v in zip(mags, draw(gen.vec(gen.real(-1, 1), nd)))] + \
            draw(gen.vec(gen.logu(0.02, 0.3), nd))
    if k == 'pooled':
        return [gen.r6(m * v) for m, v in zip(mags, draw(gen.vec(gen.logu(0.3, 5.0), nd)))]
    cols = [_sep(draw, n_ids_h, 0.3, 5.0) for _ in range(nd)]
    return [gen.r6(mags[d] * cols[d][i]) for i in range(n_ids_h) for d in range(nd)]


def _draw_theta(draw, pop, mags, n_ids_h, cov):
    """Full (unreduced) parameter vector of a flat composition / bare leaf."""
    parts = pop['parts'] if pop['kind'] == 'comp' else [pop]
    out = []
    d0 = c0 = 0
    for part in parts:
        e = part['base'] if part['kind'] == 'cov' else part
        nd = e['n_dim']
        th0 = _draw_leaf_theta(draw, e, mags[d0:d0 + nd], n_ids_h)
        out += th0
        if part['kind'] == 'cov':
            n_cov = part['n_cov']
            cmax = [max([abs(row[c0 + c]) for row in cov] + [0.05]) for c in range(n_cov)]   # (this part's own columns)
            zero = gen.chance(draw, 0.06)
            for (p, d) in ref.cov_selection(part, n_ids_h):
                for c in range(n_cov):
                    f = 0.0 if zero else draw(gen.real(-0.9, 0.9))
                    if e['kind'] == 'lognorm' and p == 0:
                        b = 0.3 * f / (n_cov * cmax[c])
                    elif e['kind'] in ('gauss', 'lognorm', 'trunc') and p == 1:
                        b = 0.45 * f * th0[nd + d] / (n_cov * cmax[c])
                    else:
                        b = 0.2 * f * th0[p * nd + d] / (n_cov * cmax[c])
                    out.append(gen.r6(b))
            c0 += n_cov
        d0 += nd
    return out


def _draw_pop(draw, mech, ems, n_cov_rows, point_only=False, allow_cov=True):
    """Population spec over (mechanistic parameters, error parameters), covariates, parameter drawer.
    point_only='hetero': the first part is heterogeneous (over mechanistic dimensions), at most two heterogeneous
    parts, everything else pooled, 2-4 individuals."""
    n_par = mech['n_par']
    n_dim = n_par + _n_sig(ems)
    scales = gen.distinct(draw(gen.vec(gen.logu(0.3, 3.0), _n_sig(ems))))
    mags = ([1.0, 1.0, 0.08] if mech['kind'] == 'pk' else [1.0] * n_par) + [TINY * v for v in scales]
    n_ids_h = draw(st.integers(2 if point_only == 'hetero' else 1, 4))
    parts, d, n_cov_parts = [], 0, 0
    while d < n_dim:
        nd = draw(st.integers(1, min(3, n_dim - d)))
        if point_only == 'hetero':
            n_h = sum(1 for q in parts if q['kind'] == 'hetero')
            kinds = ['hetero'] if n_h == 0 else ['pooled', 'hetero'] if (n_h == 1 and d < n_par) else ['pooled']
        elif point_only == 'pooled':
            kinds = ['pooled']
        elif point_only or (mech['kind'] == 'pk' and d < n_par):
            kinds = ['pooled', 'hetero']
        else:
            kinds = popgen.ELEM_KINDS
        e = dict(kind=draw(st.sampled_from(kinds)), n_dim=nd)
        if e['kind'] in ('gauss', 'lognorm'):
            e['centered'] = not gen.chance(draw, 0.45)
        if allow_cov and n_cov_parts < 2 and gen.chance(draw, 0.3 if n_cov_parts == 0 else 0.6):
            e = popgen.draw_cov_wrap(draw, e, n_ids_h, max_cov=2)
            if n_cov_parts == 0 and gen.chance(draw, 0.4):
                e['n_cov'] = 2          # (a first covariate part with two covariates shifts the columns of a second one)
            n_cov_parts += 1
        parts.append(e)
        d += nd
    pop = parts[0] if (len(parts) == 1 and gen.chance(draw, 0.4)) else dict(kind='comp', parts=parts)
    n_cov = ref.pop_n_cov(pop)
    cov, cov_form = None, 'none'
    if n_cov:
        cov_form = draw(st.sampled_from(['1d', '1d', '2d', '2d', '2d1'])) if n_cov_rows > 1 else \
            draw(st.sampled_from(['1d', '2d1']))
        rows = n_cov_rows if cov_form == '2d' else 1
        cov = draw(gen.mat(gen.real(-2, 2), rows, n_cov))
    elif gen.chance(draw, 0.06):
        cov_form, cov = 'ignored', [[0.5]]
    return dict(pop=pop, n_ids_h=n_ids_h, cov=cov, cov_form=cov_form, mags=mags)


def _finish_pop(draw, P, n_rows, allow_red=True):
    """Draw n_rows parameter vectors; optionally wrap the model in a 'red' node (same fixed values in all rows)."""
    pop, n_ids_h = P['pop'], P['n_ids_h']
    cov = P['cov'] if P['cov_form'] not in ('none', 'ignored') else None
    rows = [_draw_theta(draw, pop, P['mags'], n_ids_h, cov) for _ in range(n_rows)]
    if allow_red and len(rows[0]) >= 2 and gen.chance(draw, 0.12):
        n = len(rows[0])
        fixed = draw(gen.subset(n, min_size=1, max_size=n - 1))
        pop = dict(kind='red', base=pop, fixed=fixed, values=[rows[0][j] for j in fixed])
        rows = [[v for j, v in enumerate(r) if j not in fixed] for r in rows]
        # the fixed values come from row 0: another row may leave the support (its covariate coefficients were
        # scaled for its own location / scale values); such a row is replaced by row 0
        cov_rows = np.array(cov, dtype=float) if cov is not None else np.zeros((1, 0))
        rows = [r if _in_support(pop, n_ids_h, r, cov_rows) else list(rows[0]) for r in rows]
    return pop, rows


def _in_support(pop, n_ids_h, theta, cov_rows):
    full = _expand(pop, theta)
    for lf in _leaves(pop, n_ids_h):
        P = _leaf_P(lf, full, n_ids_h, cov_rows)
        k = lf['elem']['kind']
        if k in ('pooled', 'hetero'):
            ok = np.all(P > 0)
        elif k == 'gauss':
            ok = np.all(P[:, 1] > 0) and np.all(P[:, 0] - ENV_SD * P[:, 1] > 0)
        elif k == 'lognorm':
            ok = np.all(P[:, 1] > 0)
        else:
            ok = np.all(P[:, 1] > 0) and np.all(P[:, 0] > 0)
        if not ok:
            return False
    return True


def _draw_history(draw, pop, n_ids_h, ns_eff):
    if popgen.has(pop, 'hetero'):
        return draw(st.sampled_from([None, ['set', n_ids_h], ['hll', n_ids_h]]))
    how = draw(st.sampled_from(['none', 'set', 'set', 'hll', 'hll']))
    if how == 'none':
        return None
    if gen.chance(draw, 0.4):
        k = ns_eff
    else:
        k = draw(st.integers(1, 6))
    return [how, k]


# ---- posterior datasets --------------------------------------------------------------------------
def _draw_dataset(draw, row_fn, max_chain=3, max_draw=10, max_ind=4, poplevel_only=False):
    """row_fn(n_rows) -> list of n_rows complete parameter rows."""
    n_chain = draw(st.integers(1, max_chain))
    n_draw = draw(st.integers(2, max_draw))
    if poplevel_only:
        n_ind = draw(st.integers(0, 2))          # individuals of an unrelated bottom-level variable
    else:
        n_ind = 0 if gen.chance(draw, 0.06) else draw(st.integers(1, max_ind))
    ids = ['ind %d' % (i + 1) if draw(st.booleans()) else 'p%d' % (7 * (i + 1)) for i in range(n_ind)]
    n_cells = n_chain * n_draw * (1 if poplevel_only else max(1, n_ind))
    rows = row_fn(n_cells)
    n_tot = len(rows[0])
    if poplevel_only:
        level = ['pop'] * n_tot
    else:
        level = ['pop' if (n_ind == 0 or gen.chance(draw, 0.25)) else 'indiv' for _ in range(n_tot)]
    stride = 1 if poplevel_only else max(1, n_ind)
    vals = []
    for j in range(n_tot):
        if level[j] == 'pop':
            vals.append([rows[(c * n_draw + d) * stride][j] for c in range(n_chain) for d in range(n_draw)])
        else:
            vals.append([rows[k][j] for k in range(n_cells)])
    pmap = [('var %d' % j) if gen.chance(draw, 0.3) else None for j in range(n_tot)]
    if n_tot >= 2 and gen.chance(draw, 0.2):
        # the dataset stores some parameters under names that are the MODEL's names of other parameters (a cycle,
        # e.g. a swap: model 'a' <- variable 'b', model 'b' <- variable 'a'); '@k' = model name of parameter k
        sub = list(draw(st.permutations(list(range(n_tot))))[:draw(st.integers(2, min(3, n_tot)))])
        for a, b in zip(sub, sub[1:] + sub[:1]):
            pmap[a] = '@%d' % b
    pad = None
    if n_ind >= 2 and not poplevel_only and gen.chance(draw, 0.3):
        # inferences of different length concatenated along `individual`: the trailing draws of some individuals are
        # NaN in every variable (chi drops the draws that are NaN for the requested individual); all parameters are
        # individual-level then
        level = ['indiv'] * n_tot
        vals = [[rows[k][j] for k in range(n_cells)] for j in range(n_tot)]
        pad = [draw(st.integers(0, n_draw - 1)) for _ in range(n_ind)]
        pad[draw(st.integers(0, n_ind - 1))] = 0
        if not any(pad):
            pad[(pad.index(0) + 1) % n_ind] = n_draw - 1
    return dict(n_chain=n_chain, n_draw=n_draw, ids=ids, level=level, vals=vals, map=pmap, pad=pad,
                extra=draw(st.booleans()) and pad is None, order=list(draw(st.permutations(list(range(n_tot + 1))))))


def _row_fn_plain(draw, mech, ems):
    def fn(n):
        if mech['kind'] == 'pk':
            cols = [_sep(draw, n, 0.3, 3.0), _sep(draw, n, 0.5, 4.0), _sep(draw, n, 0.05, 0.4)]
        else:
            cols = [_sep(draw, n, 0.2, 5.0) for _ in range(mech['n_par'])]
        sig = [[gen.r6(TINY * v) for v in draw(gen.vec(gen.logu(0.3, 3.0), n))] for _ in range(_n_sig(ems))]
        return [[c[k] for c in cols] + [s_[k] for s_ in sig] for k in range(n)]
    return fn


MODE_MIX = [('pred', False), ('pred', False), ('pred', True), ('poppred', False), ('poppred', False), ('poppred', False),
            ('poppred', False), ('poppred', True), ('prior', False), ('prior', False), ('prior', False), ('prior', True),
            ('post', False), ('post', False), ('post', False), ('post', True), ('pam', False), ('pam', False),
            ('pam', True)]


@st.composite
def _spec(draw):
    mode, pk = draw(st.sampled_from(MODE_MIX))
    mech = _draw_mech(draw, pk)
    n_out = len(mech['sel'])
    ems = _draw_ems(draw, n_out)
    ns = None if gen.chance(draw, 0.1) else draw(st.integers(1, 6))
    ns_eff = 1 if ns is None else ns
    n_min = 1 if pk else int(math.ceil((mech['n_par'] + 1.0) / n_out))
    s = dict(mode=mode, mech=mech, ems=ems, ns=ns, seed=draw(SEEDS), np_seed=draw(st.integers(0, 2 ** 32 - 1)),
             df=draw(st.booleans()) if not pk else not gen.chance(draw, 0.2),
             regimen_flag=draw(st.booleans()) if not pk else not gen.chance(draw, 0.25),
             wm=True, stat=False, times_as=draw(st.sampled_from(['list', 'array'])))

    if mode == 'pred':
        s['stat'] = (not pk) and gen.chance(draw, 0.4)
        s['wm'] = not s['stat']
        psi = _draw_psi(draw, mech)
        s['params'] = psi + (_draw_tiny_sig(draw, ems) if s['wm'] else _draw_ordinary_sig(draw, ems, sum(psi)))
        # a mechanistic parameter is fixed (the model gets wrapped) BEFORE the dosing regimen is set
        s['fix_first'] = bool(pk and gen.chance(draw, 0.7))
        s['user_em'] = (not s['fix_first']) and bool(gen.chance(draw, 0.5)) and ref.EM_NPAR[ems[0]] == 2

    elif mode == 'poppred':
        noise = (not pk) and gen.chance(draw, 0.12)
        # heterogeneous sub-domain: which individual's row a sampled patient receives is itself random (uniform,
        # independent between patients); decided statistically on 1000 patients
        hstat = (not pk) and (not noise) and gen.chance(draw, 0.12)
        P = _draw_pop(draw, mech, ems, ns_eff, point_only='pooled' if noise else 'hetero' if hstat else False,
                      allow_cov=not (noise or hstat))
        pop, rows = _finish_pop(draw, P, 1, allow_red=not (noise or hstat))
        theta = rows[0]
        if noise:
            # ordinary sigma, every individual has the same known parameters (all dimensions pooled)
            n_par = mech['n_par']
            s['wm'], s['stat'] = False, True
            theta = [gen.r6(v) for v in _sep(draw, n_par, 0.2, 5.0)]
            theta += _draw_ordinary_sig(draw, ems, sum(theta))
        s.update(pop=pop, theta=theta, n_ids_h=P['n_ids_h'], cov=P['cov'], cov_form=P['cov_form'])
        s['last'] = _draw_history(draw, pop, P['n_ids_h'], ns_eff)
        if not noise and not pk and any(_cont_mech_dims(pop, mech['n_par'])) and gen.chance(draw, 0.35):
            s['stat'] = True
        if hstat:
            s['stat'] = s['hstat'] = True

    elif mode == 'prior':
        inner = 'pop' if gen.chance(draw, 0.35) else 'plain'
        kind = draw(st.sampled_from(['table', 'table', 'cont']))
        s['inner'] = inner
        if inner == 'plain':
            if kind == 'table':
                K = draw(st.integers(2, 6))
                s['prior'] = dict(kind='table', rows=_row_fn_plain(draw, mech, ems)(K))
                s['stat'] = (not pk) and gen.chance(draw, 0.2)
            else:
                pri = []
                for j in range(mech['n_par']):
                    if draw(st.booleans()):
                        a = draw(gen.logu(0.2, 2.0))
                        pri.append(dict(kind='uniform', a=a, b=gen.r6(a * draw(gen.logu(1.5, 4.0)))))
                    else:
                        pri.append(dict(kind='lognormal', a=draw(gen.real(-0.5, 1.0)), b=draw(gen.logu(0.1, 0.5))))
                for v in _draw_tiny_sig(draw, ems):
                    pri.append(dict(kind='uniform', a=v, b=gen.r6(2 * v)))
                s['prior'] = dict(kind='cont', pri=pri)
        else:
            P = _draw_pop(draw, mech, ems, ns_eff)
            K = draw(st.integers(2, 4)) if kind == 'table' else 1
            pop, rows = _finish_pop(draw, P, K)
            s.update(pop=pop, n_ids_h=P['n_ids_h'], cov=P['cov'], cov_form=P['cov_form'])
            s['last'] = _draw_history(draw, pop, P['n_ids_h'], ns_eff)
            if kind == 'table':
                s['prior'] = dict(kind='table', rows=rows)
            else:
                s['prior'] = dict(kind='cont', pri=_narrow_prior(rows[0]), center=rows[0])

    elif mode == 'post':
        inner = 'pop' if gen.chance(draw, 0.3) else 'plain'
        s['inner'] = inner
        if inner == 'plain':
            s['ds'] = _draw_dataset(draw, _row_fn_plain(draw, mech, ems))
            ids = s['ds']['ids']
            s['individual'] = draw(st.sampled_from([None] + ids)) if ids else None
        else:
            P = _draw_pop(draw, mech, ems, ns_eff)
            box = {}

            def row_fn(n):
                box['pop'], rows = _finish_pop(draw, P, n)
                return rows
            s['ds'] = _draw_dataset(draw, row_fn, max_chain=2, max_draw=4, poplevel_only=True)
            s.update(pop=box['pop'], n_ids_h=P['n_ids_h'], cov=P['cov'], cov_form=P['cov_form'])
            s['last'] = _draw_history(draw, box['pop'], P['n_ids_h'], ns_eff)
            ids = s['ds']['ids']
            s['individual'] = draw(st.sampled_from([None] + ids)) if ids else None
        R = s['ds']['n_chain'] * s['ds']['n_draw']
        s['stat'] = (not pk) and inner == 'plain' and R <= 8 and gen.chance(draw, 0.3)

    else:
        n_models = draw(st.integers(2, 3))
        n_ind = draw(st.integers(1, 3))
        models = []
        for m in range(n_models):
            mm = dict(mech)
            if mech['kind'] == 'analytic' and gen.chance(draw, 0.5):
                mm['n_par'] = draw(st.integers(1, 3))
            me = ems if gen.chance(draw, 0.5) else _draw_ems(draw, n_out)
            ds = _draw_dataset(draw, _row_fn_plain(draw, mm, me), max_chain=2, max_draw=4, max_ind=n_ind)
            models.append(dict(n_par=mm['n_par'], ems=me, ds=ds))
        for mm in models:
            mm['ds']['ids'] = ['ind %d' % (i + 1) for i in range(len(mm['ds']['ids']))]
        common = [i for i in models[0]['ds']['ids'] if all(i in mm['ds']['ids'] for mm in models)]
        s['models'] = models
        s['weights'] = draw(gen.vec(gen.logu(0.2, 5.0), n_models))
        s['individual'] = draw(st.sampled_from([None] + common)) if all(mm['ds']['ids'] for mm in models) else None
        s['stat'] = (not pk) and gen.chance(draw, 0.5)
        s['ns'] = draw(st.integers(2, 8))
    s['seed_form'] = draw(st.sampled_from(['int', 'int', 'np.int64', 'np.int32']))
    if mode == 'poppred' and s['stat'] and s['wm']:
        n_min = int(math.ceil((mech['n_par'] + 2.0) / n_out))
    s['times'] = _draw_times(draw, n_min)
    reg = mech.get('regimen') if pk else None
    if reg and reg['period'] and gen.chance(draw, 0.6):
        # the last measurement is taken exactly at a (later) dose time
        k = draw(st.integers(0, 12))
        if reg['num']:
            k = min(k, reg['num'] - 1)
        tf = reg['start'] + k * reg['period']
        s['times'] = [t for t in s['times'] if t < tf][:4] + [tf]
        s['last_at_dose'] = True
    return s


def strategy(tier):
    return _spec()


def _narrow_prior(theta):
    out = []
    for v in theta:
        if v > 0:
            out.append(dict(kind='uniform', a=gen.r6(0.98 * v), b=gen.r6(1.02 * v)))
        elif v < 0:
            out.append(dict(kind='uniform', a=gen.r6(1.02 * v), b=gen.r6(0.98 * v)))
        else:
            out.append(dict(kind='uniform', a=-1e-12, b=1e-12))
    return out


# =============================================================================================
# reference: mechanistic outputs, noise scale, population layout
# =============================================================================================
def _events(reg, t_end):
    """Dose events (start, duration, rate) with start <= t_end (documented semantics of set_dosing_regimen)."""
    if reg is None:
        return []
    out = []
    n = 0
    while True:
        t = reg['start'] + n * reg['period'] if reg['period'] is not None else reg['start']
        if t > t_end:
            break
        out.append((t, reg['duration'], reg['dose'] / reg['duration']))
        n += 1
        if reg['period'] is None or (reg['num'] is not None and n >= reg['num']):
            break
    return out


def _pk_batch(PSI, ts, reg):
    """Closed-form concentration of the one-compartment model (amount A0, volume V, elimination rate k) under
    zero-order infusions; PSI (B, 3) -> (B, 1, T)."""
    PSI = np.asarray(PSI, dtype=float)
    A0, V, k = PSI[:, 0:1], PSI[:, 1:2], PSI[:, 2:3]
    t = np.asarray(ts, dtype=float)[np.newaxis, :]
    A = A0 * np.exp(-k * t)
    for (s0, dur, rate) in _events(reg, float(np.max(ts)) if len(ts) else 0.0):
        dt = t - s0
        on = np.clip(dt, 0.0, dur)
        A = A + np.where(dt > 0, rate / k * (1.0 - np.exp(-k * on)) * np.exp(-k * np.maximum(dt - on, 0.0)), 0.0)
    return (A / V)[:, np.newaxis, :]


def _analytic_batch(PSI, ts, sel):
    """Vectorised twin of ref_outputs (complex-safe), used by the inversion only: every decoded parameter vector is
    verified with ref_outputs itself. PSI (B, P) -> (B, n_sel, T)."""
    B, P = PSI.shape
    t = np.asarray(ts, dtype=float)[np.newaxis, :]
    out = np.zeros((B, len(sel), t.shape[1]), dtype=PSI.dtype)
    for r, o in enumerate(sel):
        for j in range(P):
            k = (j + 1) % P
            pj, pk = PSI[:, j:j + 1], PSI[:, k:k + 1]
            out[:, r, :] += weight(o, j) * pj * (1.0 + t * pk / (1.0 + pk ** 2 + t))
    return out


class _Mech(object):
    def __init__(self, mech, times):
        self.m = mech
        self.ts = np.sort(np.array(times, dtype=float))
        self.pk = mech['kind'] == 'pk'
        self.rel = 1e-6 if self.pk else 1e-11

    def F(self, psi):
        """Reference outputs (n_out, n_times) at the sorted times."""
        psi = np.asarray(psi, dtype=float)
        if self.pk:
            return _pk_batch(psi[np.newaxis, :], self.ts, self.m['regimen'])[0]
        return np.real(ref_outputs(psi, self.ts, self.m['n_tot'], self.m['sel']))

    def Fb(self, PSI):
        if self.pk:
            return _pk_batch(PSI, self.ts, self.m['regimen'])
        return _analytic_batch(PSI, self.ts, self.m['sel'])


def _split_sig(ems, sig):
    out, pos = [], 0
    for k in ems:
        out.append(list(sig[pos:pos + ref.EM_NPAR[k]]))
        pos += ref.EM_NPAR[k]
    return out


def _noise_sd(kind, sig, ybar):
    """Upper bound of the standard deviation of a sample around ybar; sig entries scalar or (B, 1) arrays."""
    a = np.abs(ybar)
    if kind == 'gauss':
        return sig[0] + 0.0 * a
    if kind == 'mult':
        return sig[0] * a
    if kind == 'cm':
        return sig[0] + sig[1] * a
    return 1.001 * sig[0] * a


def _tol(mech, ems, sigs, ybar):
    """Watermark tolerance per value; ybar (n_out, T) or (B, n_out, T), sigs per output."""
    tol = np.empty(ybar.shape)
    for o, k in enumerate(ems):
        tol[..., o, :] = 12.0 * _noise_sd(k, sigs[o], ybar[..., o, :]) + mech.rel * np.abs(ybar[..., o, :]) + 1e-300
        if mech.pk:
            # absolute accuracy of the reference integrator, relative to the largest concentration of the series
            tol[..., o, :] += 1e-8 * np.max(np.abs(ybar[..., o, :]), axis=-1, keepdims=True)
    return tol


def _expand(pop, theta):
    """Full parameter vector of the base of a (top-level) reduced model."""
    if pop['kind'] != 'red':
        return list(theta)
    n = len(theta) + len(pop['fixed'])
    full = [None] * n
    for j, v in zip(pop['fixed'], pop['values']):
        full[j] = v
    it = iter(theta)
    for j in range(n):
        if full[j] is None:
            full[j] = next(it)
    return full


def _base(pop):
    return pop['base'] if pop['kind'] == 'red' else pop


def _leaves(pop, n_ids_h):
    """Leaves of a (reduced) flat composition with their offsets: parameters t0, dimensions d0, covariates c0."""
    pop = _base(pop)
    parts = pop['parts'] if pop['kind'] == 'comp' else [pop]
    out = []
    t0 = d0 = c0 = 0
    for part in parts:
        e = part['base'] if part['kind'] == 'cov' else part
        out.append(dict(elem=e, cov=part if part['kind'] == 'cov' else None, t0=t0, d0=d0, c0=c0))
        t0 += ref.pop_n_par(part, n_ids_h)
        d0 += ref.pop_n_dim(part)
        c0 += ref.pop_n_cov(part)
    return out


def _cont_mech_dims(pop, n_par):
    """Per mechanistic dimension: True if its population distribution is continuous."""
    out = []
    for lf in popgen.leaves(_base(pop)):
        out += [lf['kind'] in ('gauss', 'lognorm', 'trunc')] * lf['n_dim']
    return out[:n_par]


def _leaf_P(lf, full, n_ids_h, cov_rows):
    """Documented sub-population parameters of every sampled individual: (N, n_per_dim, n_dim);
    vartheta = vartheta_0 + sum_c beta_c chi_c for the selected (sorted, unique) pairs, covariate-minor."""
    e = lf['elem']
    npd, nd = ref.pop_per_dim(e, n_ids_h), e['n_dim']
    nb = npd * nd
    P0 = np.array(full[lf['t0']:lf['t0'] + nb], dtype=float).reshape(npd, nd)
    N = len(cov_rows)
    P = np.repeat(P0[np.newaxis], N, axis=0)
    if lf['cov'] is not None:
        n_cov = lf['cov']['n_cov']
        sel = ref.cov_selection(lf['cov'], n_ids_h)
        beta = np.array(full[lf['t0'] + nb:lf['t0'] + nb + len(sel) * n_cov], dtype=float).reshape(len(sel), n_cov)
        C = np.asarray(cov_rows, dtype=float)[:, lf['c0']:lf['c0'] + n_cov]
        for k, (p, d) in enumerate(sel):
            for c in range(n_cov):
                P[:, p, d] = P[:, p, d] + beta[k, c] * C[:, c]
    return P


def _ref_population(pop, n_ids_h, full, cov_rows, rng):
    """Individuals drawn from the documented population distribution, one per row of cov_rows: (N, n_dim).
    Heterogeneous parts: one of the n_ids rows, uniformly."""
    N = len(cov_rows)
    n_dim = ref.pop_n_dim(_base(pop))
    psi = np.empty((N, n_dim))
    for lf in _leaves(pop, n_ids_h):
        e = lf['elem']
        P = _leaf_P(lf, full, n_ids_h, cov_rows)
        nd = e['n_dim']
        sl = slice(lf['d0'], lf['d0'] + nd)
        if e['kind'] == 'pooled':
            psi[:, sl] = P[:, 0, :]
        elif e['kind'] == 'hetero':
            psi[:, sl] = P[np.arange(N), rng.integers(0, n_ids_h, size=N), :]
        elif e['kind'] == 'gauss':
            psi[:, sl] = P[:, 0, :] + P[:, 1, :] * rng.standard_normal((N, nd))
        elif e['kind'] == 'lognorm':
            psi[:, sl] = np.exp(P[:, 0, :] + P[:, 1, :] * rng.standard_normal((N, nd)))
        else:
            lo = sp_special.ndtr(-P[:, 0, :] / P[:, 1, :])
            psi[:, sl] = P[:, 0, :] + P[:, 1, :] * sp_special.ndtri(lo + rng.random((N, nd)) * (1.0 - lo))
    return psi


def _envelope(kind, a, b):
    if kind == 'gauss':
        return a - ENV_SD * b, a + ENV_SD * b, a
    if kind == 'lognorm':
        return np.exp(a - ENV_SD * b), np.exp(a + ENV_SD * b), np.exp(a)
    return np.maximum(a - ENV_SD * b, 0.0), a + ENV_SD * b, np.maximum(a, 0.5 * b)


# =============================================================================================
# inversion of the analytic model (batched Levenberg-Marquardt, complex-step Jacobian)
# =============================================================================================
def _lm(Fb, Y, psi0, U, iters=80):
    """Solve Fb(psi)[b] = Y[b] for the unknown columns U of psi (B, P). Returns psi and the Jacobian
    of the outputs w.r.t. the unknowns at the result, shape (B, E, |U|)."""
    B = psi0.shape[0]
    psi = np.array(psi0, dtype=float)
    S = np.abs(Y).reshape(B, -1) + 1e-300

    def res(p):
        return (np.real(Fb(p)).reshape(B, -1) - Y.reshape(B, -1)) / S

    def jac(p):
        J = np.empty((B, S.shape[1], len(U)))
        for a, u in enumerate(U):
            pc = p.astype(complex)
            pc[:, u] += 1e-30j
            J[:, :, a] = np.imag(Fb(pc)).reshape(B, -1) / 1e-30
        return J
    r = res(psi)
    c = np.sum(r * r, axis=1)
    lam = np.full(B, 1e-3)
    eye = np.eye(len(U))[np.newaxis]
    for _ in range(iters):
        J = jac(psi) / S[:, :, np.newaxis]
        A = np.einsum('bea,bec->bac', J, J)
        g = np.einsum('bea,be->ba', J, r)
        D = np.einsum('baa->ba', A)
        Ad = A + lam[:, np.newaxis, np.newaxis] * eye * D[:, np.newaxis, :] + 1e-300 * eye
        try:
            step = np.linalg.solve(Ad, -g[:, :, np.newaxis])[:, :, 0]
        except np.linalg.LinAlgError:
            break
        step = np.where(np.isfinite(step), step, 0.0)
        trial = psi.copy()
        trial[:, U] += step
        r2 = res(trial)
        c2 = np.sum(r2 * r2, axis=1)
        good = np.isfinite(c2) & (c2 < c)
        psi[good] = trial[good]
        r[good] = r2[good]
        c[good] = c2[good]
        lam = np.where(good, np.maximum(lam / 10.0, 1e-15), np.minimum(lam * 10.0, 1e10))
        small = np.all(np.abs(step) <= 1e-13 * np.abs(psi[:, U]) + 1e-300, axis=1)
        if np.all(small | (c < 1e-30) | (~good & (lam >= 1e10))):
            break
    return psi, jac(psi)


# =============================================================================================
# chi builders
# =============================================================================================
PK_OUT = 'central.drug_concentration'


def _out_names(mech):
    if mech['kind'] == 'pk':
        return [PK_OUT]
    return ['out %d' % (o + 1) for o in mech['sel']]


def _build_mech(mech):
    if mech['kind'] == 'pk':
        import chi.library
        from vf import simshim
        simshim.install()
        m = chi.library.ModelLibrary().one_compartment_pk_model()
        m.set_administration('central', direct=True)
        return m, None
    m = AnalyticModel(mech['n_tot'], mech['n_par'])
    outs = None if mech['sel'] == list(range(mech['n_tot'])) else _out_names(mech)
    return m, outs


def _build_pm(mech, ems):
    import chi
    m, outs = _build_mech(mech)
    return chi.PredictiveModel(m, [ref.em_class(k)() for k in ems], outputs=outs)


def _build_popm(s, pm):
    """Population model with the dimension names of the predictive model, after its configuration history."""
    import chi
    pop, n_ids_h = s['pop'], s['n_ids_h']
    popm = ref.build_pop(pop, pm.get_parameter_names(), n_ids_h if popgen.has(pop, 'hetero') else None)
    ref.name_covariates_uniquely(popm)
    last = s.get('last')
    if last is not None and last[0] == 'set':
        popm.set_n_ids(last[1])
    elif last is not None:
        lls = []
        for i in range(last[1]):
            mm = AnalyticModel(len(s['ems']), s['mech']['n_par'])
            lls.append(chi.LogLikelihood(mm, [ref.em_class(k)() for k in s['ems']],
                                         [np.array([1.0 + i])] * len(s['ems']), [np.array([1.0])] * len(s['ems'])))
        n_cov = ref.pop_n_cov(pop)
        chi.HierarchicalLogLikelihood(lls, popm, covariates=np.zeros((last[1], n_cov)) if n_cov else None)
    return popm


def _current_n_ids(s):
    last = s.get('last')
    if last is not None:
        return last[1]
    return s['n_ids_h'] if popgen.has(s['pop'], 'hetero') else 1


def _set_regimen(model, mech):
    reg = mech.get('regimen')
    if mech['kind'] == 'pk' and reg is not None:
        model.set_dosing_regimen(reg['dose'], start=reg['start'], duration=reg['duration'], period=reg['period'],
                                 num=reg['num'])


def _dataset(ds, names):
    """xarray posterior; returns (dataset, param_map)."""
    import xarray as xr
    n_c, n_d, ids = ds['n_chain'], ds['n_draw'], ds['ids']
    co2 = {'chain': list(range(n_c)), 'draw': list(range(n_d))}
    co3 = dict(co2, individual=list(ids))
    items = []
    pmap = {}
    for j, nm in enumerate(names):
        var = ds['map'][j] if ds['map'][j] is not None else nm
        if var.startswith('@'):
            var = names[int(var[1:])]
        if ds['map'][j] is not None:
            pmap[nm] = var
        if ds['level'][j] == 'pop':
            arr = xr.DataArray(np.array(ds['vals'][j], dtype=float).reshape(n_c, n_d), dims=['chain', 'draw'], coords=co2)
        else:
            a3 = np.array(ds['vals'][j], dtype=float).reshape(n_c, n_d, len(ids))
            if ds.get('pad'):
                for i_, k_ in enumerate(ds['pad']):
                    if k_:
                        a3[:, n_d - k_:, i_] = np.nan
            arr = xr.DataArray(a3, dims=['chain', 'draw', 'individual'], coords=co3)
        items.append((var, arr))
    if ds['extra']:
        if ids:
            ex = xr.DataArray(np.arange(float(n_c * n_d * len(ids))).reshape(n_c, n_d, len(ids)) + 0.5,
                              dims=['chain', 'draw', 'individual'], coords=co3)
        else:
            ex = xr.DataArray(np.arange(float(n_c * n_d)).reshape(n_c, n_d) + 0.5, dims=['chain', 'draw'], coords=co2)
        items.append(('unrelated', ex))
    else:
        items.append(None)
    d = {}
    for k in ds['order']:
        if k < len(items) and items[k] is not None:
            d[items[k][0]] = items[k][1]
    return xr.Dataset(d), (pmap if pmap else None)


def _ds_has_individuals(ds):
    return bool(ds['ids']) and (ds['extra'] or any(lv == 'indiv' for lv in ds['level']))


def _ds_rows(ds, i):
    """Joint posterior draws (chain-major) of individual index i (population-level variables are shared)."""
    n_ind = max(1, len(ds['ids']))
    rows = []
    n_valid = ds['n_draw'] - (ds['pad'][i] if ds.get('pad') else 0)
    for c in range(ds['n_chain']):
        for d in range(n_valid):
            cell = c * ds['n_draw'] + d
            rows.append([ds['vals'][j][cell] if ds['level'][j] == 'pop' else ds['vals'][j][cell * n_ind + i]
                         for j in range(len(ds['vals']))])
    return rows


_TABLE_PRIOR = []


def _table_prior(rows):
    """A joint prior whose support is a finite table of complete parameter rows (uniform weights); samples with the
    global numpy generator like every pints prior."""
    import pints
    if not _TABLE_PRIOR:
        class TablePrior(pints.LogPrior):
            def __init__(self, rows):
                super(TablePrior, self).__init__()
                self._rows = np.array(rows, dtype=float)

            def n_parameters(self):
                return self._rows.shape[1]

            def __call__(self, x):
                hit = np.any(np.all(self._rows == np.asarray(x, dtype=float)[np.newaxis, :], axis=1))
                return -math.log(len(self._rows)) if hit else -np.inf

            def sample(self, n=1):
                return self._rows[np.random.randint(len(self._rows), size=n)].copy()
        _TABLE_PRIOR.append(TablePrior)
    return _TABLE_PRIOR[0](rows)


# =============================================================================================
# tables
# =============================================================================================
def _dose_rows(mech, times):
    reg = mech.get('regimen') if mech['kind'] == 'pk' else None
    return [(t, dur, rate * dur) for (t, dur, rate) in _events(reg, float(np.max(times)))]


def _parse_table(case, df, n, ts, out_names, cov_names=(), cov_mat=None, doses=(), dose_once_ok=False):
    """Checks the labelling clauses of a returned data frame; returns the values as (n_out, n_times, n)."""
    import pandas as pd
    case.true(isinstance(df, pd.DataFrame), 'result is %s, not a pandas.DataFrame' % type(df).__name__, kind='type')
    want_cols = ['ID', 'Time', 'Observable', 'Value'] + (['Duration', 'Dose'] if doses else [])
    case.equal([str(c) for c in df.columns], want_cols, 'columns', kind='columns')
    obs = df['Observable'].to_numpy(dtype=object)
    ids = pd.to_numeric(df['ID'], errors='coerce').to_numpy(dtype=float)
    tt = pd.to_numeric(df['Time'], errors='coerce').to_numpy(dtype=float)
    val = pd.to_numeric(df['Value'], errors='coerce').to_numpy(dtype=float)
    is_str = np.array([isinstance(o, str) for o in obs], dtype=bool)
    used = np.zeros(len(df), dtype=bool)
    n_t = len(ts)
    arr = np.empty((len(out_names), n_t, n))
    want_ids = np.repeat(np.arange(1, n + 1, dtype=float), n_t)
    for o, name in enumerate(out_names):
        idx = np.where(is_str & (obs == name))[0]
        used[idx] = True
        case.equal(len(idx), n * n_t, 'number of rows of observable %r (%d sample ids x %d times)' % (name, n, n_t),
                   kind='rows')
        order = np.argsort(ids[idx], kind='stable')
        io = ids[idx][order]
        case.true(bool(np.array_equal(io, want_ids)),
                  'observable %r: sample ids are not 1..%d once per time: %s' % (name, n, _short(ids[idx])), kind='ids')
        T = tt[idx][order].reshape(n, n_t)
        bad = np.where(~np.all(T == ts[np.newaxis, :], axis=1))[0]
        case.true(len(bad) == 0, 'observable %r, ID %d: times in row order %s, expected ascending %s' % (
            name, int(bad[0]) + 1 if len(bad) else 0, _short(T[bad[0]] if len(bad) else []), _short(ts)), kind='times')
        V = val[idx][order].reshape(n, n_t)
        case.true(bool(np.all(np.isfinite(V))), 'observable %r: non-finite value' % name, kind='nan')
        arr[o] = V.T
    for c, name in enumerate(cov_names):
        idx = np.where(is_str & (obs == name))[0]
        used[idx] = True
        case.equal(len(idx), n, 'number of rows of covariate %r' % name, kind='cov_rows')
        order = np.argsort(ids[idx], kind='stable')
        case.true(bool(np.array_equal(ids[idx][order], np.arange(1, n + 1, dtype=float))),
                  'covariate %r: sample ids %s' % (name, _short(ids[idx])), kind='cov_rows')
        case.true(bool(np.all(np.isnan(tt[idx]))), 'covariate %r: time is not NaN' % name, kind='cov_rows')
        case.close(val[idx][order], np.asarray(cov_mat, dtype=float)[:, c], rtol=0.0,
                   what='covariate %r per sample id' % name, kind='cov_values')
    rest = np.where(~used)[0]
    if not doses:
        case.true(len(rest) == 0, '%d unexpected rows, first: %s' % (len(rest), _short(df.iloc[rest[:1]].values.tolist())),
                  kind='extra_rows')
        return arr
    dur = pd.to_numeric(df['Duration'], errors='coerce').to_numpy(dtype=float)
    amt = pd.to_numeric(df['Dose'], errors='coerce').to_numpy(dtype=float)
    case.true(bool(np.all(np.isnan(dur[used]) & np.isnan(amt[used]))), 'measurement rows carry dose entries',
              kind='dose_rows')
    case.true(bool(np.all(~is_str[rest] & np.isnan(val[rest]))), 'dose rows carry an observable or a value',
              kind='dose_rows')
    want = np.array(sorted(doses), dtype=float).reshape(-1, 3)
    rid = ids[rest]
    if dose_once_ok and np.all(np.isnan(rid)):
        groups = [rest]
    else:
        case.true(bool(np.all(np.isfinite(rid))) and sorted(set(rid.tolist())) == list(range(1, n + 1)),
                  'dose rows: sample ids %s, expected every id 1..%d' % (_short(rid), n), kind='dose_rows')
        groups = [rest[rid == i] for i in range(1, n + 1)]
    for g in groups:
        got = np.array(sorted(zip(tt[g], dur[g], amt[g])), dtype=float).reshape(-1, 3)
        case.equal(got.shape, want.shape, 'number of dose rows per sample id', kind='dose_rows')
        case.close(got, want, rtol=1e-9, what='dose rows (time, duration, dose)', kind='dose_rows')
    return arr


def _short(x, n=160):
    r = repr(np.asarray(x).tolist())
    return r if len(r) <= n else r[:n] + '...'


# =============================================================================================
# membership
# =============================================================================================
class _Cand(object):
    """A complete parameter row (finite candidate) with its reference outputs and watermark tolerance."""
    def __init__(self, label, mech, ems, row):
        self.label = label
        n_par = mech.m['n_par']
        self.psi = np.array(row[:n_par], dtype=float)
        self.sigs = _split_sig(ems, row[n_par:])
        self.ybar = mech.F(self.psi)
        self.tol = _tol(mech, ems, self.sigs, self.ybar)

    def fits(self, Y):
        return bool(np.all(np.abs(Y - self.ybar) <= self.tol))

    def fits_where(self, Y):
        return np.abs(Y - self.ybar) <= self.tol


def _match_ids(vals, cands):
    """vals (n_out, n_t, n) -> per sample id the list of candidates that reproduce all its values."""
    return [[c for c in cands if c.fits(vals[:, :, i])] for i in range(vals.shape[2])]


def _explain(Y, cands):
    """Which candidates explain which single values (for the failure message)."""
    parts = []
    for o in range(Y.shape[0]):
        for t in range(Y.shape[1]):
            labs = [c.label for c in cands if c.fits_where(Y)[o, t]]
            parts.append('[out %d, time %d]: %s' % (o, t, labs[:3] if labs else 'none'))
    return '; '.join(parts[:8])


def _hyp_arrays(leaves, Ps, combo, hl, n_dim, N):
    """Per dimension: point value or median (val), envelope (lo, hi; nan for point dimensions), distribution
    parameters (a, b) and kind of every individual under one choice of heterogeneous rows."""
    val = np.empty((N, n_dim))
    lo = np.full((N, n_dim), np.nan)
    hi = np.full((N, n_dim), np.nan)
    A = np.full((N, n_dim), np.nan)
    Bm = np.full((N, n_dim), np.nan)
    kinds = [None] * n_dim
    for li, lf in enumerate(leaves):
        e, P = lf['elem'], Ps[li]
        for j in range(e['n_dim']):
            d = lf['d0'] + j
            if e['kind'] == 'pooled':
                val[:, d] = P[:, 0, j]
            elif e['kind'] == 'hetero':
                val[:, d] = P[:, combo[hl.index(li)], j]
            else:
                kinds[d] = e['kind']
                A[:, d], Bm[:, d] = P[:, 0, j], P[:, 1, j]
                lo[:, d], hi[:, d], val[:, d] = _envelope(e['kind'], P[:, 0, j], P[:, 1, j])
    return val, lo, hi, A, Bm, kinds


def _decode_pop(mech, ems, pop, n_ids_h, thetas, cov_rows, Y):
    """Y (N, n_out, n_t): values per sample id. For every id find a parameter row k of `thetas` and a choice of
    heterogeneous rows such that the id's values are the reference outputs of individual parameters that equal the
    pooled / heterogeneous values and lie inside the envelope of the continuous dimensions."""
    n_par = mech.m['n_par']
    N = Y.shape[0]
    leaves = _leaves(pop, n_ids_h)
    n_dim = ref.pop_n_dim(_base(pop))
    cont = _cont_mech_dims(pop, n_par)
    U = [j for j in range(n_par) if cont[j]]
    hl = [k for k, lf in enumerate(leaves) if lf['elem']['kind'] == 'hetero']
    combos = list(itertools.product(range(n_ids_h), repeat=len(hl)))
    R = dict(ok=np.zeros(N, dtype=bool), und=np.zeros(N, dtype=bool), label=-np.ones(N, dtype=int),
             psi=np.full((N, n_par), np.nan), A=np.full((N, n_par), np.nan), B=np.full((N, n_par), np.nan),
             tol=np.full(Y.shape, np.nan), kinds=None, U=U, hyps=[], chi2=np.full(N, np.inf),
             combo=-np.ones((N, max(1, len(hl))), dtype=int), hl=hl)
    glo = np.full((N, n_par), np.inf)
    ghi = np.full((N, n_par), -np.inf)
    smax = np.zeros((N, n_dim - n_par))
    for k, th in enumerate(thetas):
        full = _expand(pop, th)
        Ps = [_leaf_P(lf, full, n_ids_h, cov_rows) for lf in leaves]
        for combo in combos:
            val, lo, hi, A, Bm, kinds = _hyp_arrays(leaves, Ps, combo, hl, n_dim, N)
            R['kinds'] = kinds
            R['hyps'].append((k, combo, val, lo, hi))
            plo = np.where(np.isnan(lo[:, :n_par]), val[:, :n_par], lo[:, :n_par])
            phi = np.where(np.isnan(hi[:, :n_par]), val[:, :n_par], hi[:, :n_par])
            glo, ghi = np.minimum(glo, plo), np.maximum(ghi, phi)
            sigub = np.where(np.isnan(hi[:, n_par:]), val[:, n_par:], hi[:, n_par:])
            smax = np.maximum(smax, sigub)
            for frac in ((0.5,) if not U else (0.5, 0.3, 0.7, 0.1, 0.9)):
                # continuous dimensions: every start is tried for every id and the best fit is kept (an approximate
                # second pre-image inside the tolerance must not replace the parameters that were actually used)
                todo = np.where(~R['ok'])[0] if not U else np.arange(N)
                if len(todo) == 0:
                    break
                psi0, Yt = val[todo][:, :n_par].copy(), Y[todo]
                if U and frac != 0.5:
                    # other starting points inside the envelope (fraction of its width; log scale for log-normal)
                    for u in U:
                        l_, h_ = lo[todo][:, u], hi[todo][:, u]
                        if kinds[u] == 'lognorm':
                            psi0[:, u] = np.exp(np.log(l_) + frac * (np.log(h_) - np.log(l_)))
                        else:
                            psi0[:, u] = np.maximum(l_ + frac * (h_ - l_), 1e-3 * h_)
                if U:
                    psi_hat, J = _lm(mech.Fb, Yt, psi0, U)
                else:
                    psi_hat = psi0
                ybar = np.real(mech.Fb(psi_hat))
                sigs = _split_sig(ems, [sigub[todo][:, q:q + 1] for q in range(sigub.shape[1])])
                tol = _tol(mech, ems, sigs, ybar)
                passed = np.all(np.abs(ybar - Yt) <= tol, axis=(1, 2))
                if U:
                    Jw = J / (tol.reshape(len(todo), -1, 1) / 12.0)
                    M = np.einsum('bea,bec->bac', Jw, Jw)
                    try:
                        delta = 12.0 * np.sqrt(np.abs(np.einsum('baa->ba', np.linalg.inv(M))))
                    except np.linalg.LinAlgError:
                        delta = np.full((len(todo), len(U)), np.inf)
                    delta = np.where(np.isfinite(delta), delta, np.inf)
                    l_, h_ = lo[todo][:, U], hi[todo][:, U]
                    inside = np.all((psi_hat[:, U] >= l_ - delta) & (psi_hat[:, U] <= h_ + delta), axis=1)
                    ill = np.any(delta > 0.02 * (h_ - l_), axis=1)
                    R['und'][todo[passed & ill]] = True
                    passed = passed & inside & ~ill
                chi2 = np.sum(((ybar - Yt) / (tol / 12.0)) ** 2, axis=(1, 2))
                passed = passed & (chi2 < R['chi2'][todo])
                idx = todo[passed]
                R['chi2'][idx] = chi2[passed]
                R['ok'][idx] = True
                R['label'][idx] = k
                if hl:
                    R['combo'][idx] = np.array(combo, dtype=int)
                R['psi'][idx] = psi_hat[passed]
                R['A'][idx] = A[idx][:, :n_par]
                R['B'][idx] = Bm[idx][:, :n_par]
                R['tol'][idx] = tol[passed]
    # the twin used by the inversion must agree with the reference outputs (harness self-check)
    for i in np.where(R['ok'])[0][:200]:
        if not np.all(np.abs(mech.F(R['psi'][i]) - Y[i]) <= 1.001 * R['tol'][i] + 1e-12 * np.abs(Y[i])):
            raise AssertionError('C15 harness: decoded parameters are not confirmed by ref_outputs')
    R['range'] = (glo, ghi, smax)
    return R


def _range_violation(mech, ems, R, Y):
    """Hard bound: with all individual parameters positive and inside the union of the envelopes the analytic
    outputs lie in [sum_j w psi_j,lo, sum_j w psi_j,hi (1 + psi_k,hi)]. Returns (id, detail) or None."""
    if mech.pk:
        return None
    glo, ghi, smax = R['range']
    if np.any(glo <= 0):
        return None
    P = glo.shape[1]
    for r, o in enumerate(mech.m['sel']):
        lower = sum(weight(o, j) * glo[:, j] for j in range(P))
        upper = sum(weight(o, j) * ghi[:, j] * (1.0 + ghi[:, (j + 1) % P]) for j in range(P))
        sig = _split_sig(ems, [smax[:, q:q + 1] for q in range(smax.shape[1])])[r]
        slack = 12.0 * _noise_sd(ems[r], sig, upper[:, np.newaxis]) + 1e-9 * upper[:, np.newaxis]
        bad = (Y[:, r, :] < lower[:, np.newaxis] - slack) | (Y[:, r, :] > upper[:, np.newaxis] + slack) | \
            ~np.isfinite(Y[:, r, :])
        if np.any(bad):
            i, t = [int(v) for v in np.argwhere(bad)[0]]
            return i, 'sample id %d, output %d, time index %d: value %r outside [%r, %r], the range of the outputs ' \
                      'over all admissible individual parameters' % (i + 1, r, t, float(Y[i, r, t]), float(lower[i]),
                                                                     float(upper[i]))
    return None


def _wide_search(mech, ems, R, Y, i):
    """Last resort before a failure is reported: many more starting points inside the envelopes of every
    hypothesis. True if an admissible pre-image of the values of id i exists."""
    n_par = mech.m['n_par']
    U = R['U']
    if not U:
        return False
    fr = [0.05, 0.2, 0.35, 0.5, 0.65, 0.8, 0.95]
    grid = list(itertools.product(fr, repeat=len(U)))[:64]
    smax = R['range'][2][i]
    sigs = _split_sig(ems, list(smax))
    for (k, combo, val, lo, hi) in R['hyps'][:24]:
        S0 = np.repeat(val[i:i + 1, :n_par], len(grid), axis=0)
        for a, u in enumerate(U):
            f = np.array([g[a] for g in grid])
            S0[:, u] = np.maximum(lo[i, u] + f * (hi[i, u] - lo[i, u]), 1e-3 * hi[i, u])
        psi, _ = _lm(mech.Fb, np.repeat(Y[i][np.newaxis], len(grid), axis=0), S0, U, iters=150)
        for p in psi:
            if not np.all(np.isfinite(p)):
                continue
            yb = mech.F(p)
            if np.all(np.abs(yb - Y[i]) <= _tol(mech, ems, sigs, yb)) and \
                    all(lo[i, u] <= p[u] <= hi[i, u] for u in U):
                return True
    return False


def _diagnose(mech, ems, R, Y, i):
    """Sample id i has no admissible explanation. Look for ANY parameter vector that reproduces its values (all
    mechanistic parameters free); returns (kind, detail) for a verified pre-image, None if none was found."""
    n_par = mech.m['n_par']
    if mech.pk or Y.shape[1] * Y.shape[2] < n_par + 2:
        return None
    starts = [h[2][i, :n_par] for h in R['hyps']][:40]
    starts += [np.full(n_par, v) for v in (0.1, 0.3, 1.0, 3.0, -1.0)]
    S0 = np.array(starts, dtype=float)
    Yb = np.repeat(Y[i][np.newaxis], len(S0), axis=0)
    psi, _ = _lm(mech.Fb, Yb, S0, list(range(n_par)), iters=150)
    smax = R['range'][2][i]
    sigs = _split_sig(ems, list(smax))
    for p in psi:
        if not np.all(np.isfinite(p)):
            continue
        yb = mech.F(p)
        if np.all(np.abs(yb - Y[i]) <= 0.5 * _tol(mech, ems, sigs, yb)):
            for (k, combo, val, lo, hi) in R['hyps']:
                adm = True
                for d in range(n_par):
                    if np.isnan(lo[i, d]):
                        adm = adm and abs(p[d] - val[i, d]) <= 1e-5 * abs(val[i, d])
                    else:
                        adm = adm and (lo[i, d] <= p[d] <= hi[i, d])
                if adm:
                    return 'admissible', ''       # the hypothesis-wise inversion missed it: undecided
            if _wide_search(mech, ems, R, Y, i):
                return 'admissible', ''
            exp = []
            for (k, combo, val, lo, hi) in R['hyps'][:6]:
                exp.append('row %d%s: %s' % (k, (' hetero rows %s' % (combo,)) if combo else '', ', '.join(
                    ('%.6g' % val[i, d]) if np.isnan(lo[i, d]) else '[%.4g, %.4g]' % (lo[i, d], hi[i, d])
                    for d in range(n_par))))
            return 'not_from_population', 'sample id %d: its values are the outputs of individual parameters %s; ' \
                'admissible (pooled / heterogeneous values, 9-sd envelopes of continuous dimensions): %s' % (
                    i + 1, _short(p), ' | '.join(exp))
    return None


def _judge_pop(case, mech, ems, R, Y, what):
    """Turn a decode result into a clause outcome (fail / inconclusive / pass)."""
    rv = _range_violation(mech, ems, R, Y)
    if rv is not None:
        case.fail('outside_range', '%s: %s' % (what, rv[1]))
    bad = np.where(~R['ok'] & ~R['und'])[0]
    if len(bad) == 0:
        if np.any(~R['ok']):
            raise Inconclusive()       # ill-conditioned inversion
        return
    i = int(bad[0])
    if not R['U']:
        hy = R['hyps'][:4]
        case.fail('not_from_population', '%s: sample id %d (of %d without explanation): values %s are not the outputs '
                  'of any admissible individual parameters, e.g. %s' % (what, i + 1, len(bad), _short(Y[i]), ' | '.join(
                      'row %d%s: %s -> %s' % (k, (' hetero rows %s' % (c,)) if c else '', _short(v[i, :mech.m['n_par']]),
                                              _short(mech.F(v[i, :mech.m['n_par']]))) for (k, c, v, _, _) in hy)))
    dg = _diagnose(mech, ems, R, Y, i)
    if dg is not None and dg[0] != 'admissible':
        case.fail(dg[0], '%s: %s' % (what, dg[1]))
    raise Inconclusive()


def _hetero_tests(mech, ems, s, cov_rows, Y):
    """Heterogeneous sub-domain (no continuous dimensions, distinct outputs for distinct rows): the row of every
    heterogeneous part that a patient received is decoded exactly. Under the documented process ('randomly drawn from
    the n_ids individuals') the rows r_1..r_N are independent and uniform on Z_K, hence so are the consecutive
    differences r_{i+1} - r_i mod K. Returns two-stage entries; {} if a patient could not be decoded uniquely (the
    membership clause reports that)."""
    K = s['n_ids_h']
    R = _decode_pop(mech, ems, s['pop'], K, [s['theta']], cov_rows, Y)
    if R['U'] or not R['hl'] or not np.all(R['ok']):
        return {}
    # uniqueness of the decoding: the candidate outputs of different row choices differ by more than the tolerance
    cand = np.array([np.real(mech.Fb(h[2][:1, :mech.m['n_par']]))[0] for h in R['hyps']])
    tol = np.nanmax(R['tol'])
    for a in range(len(cand)):
        for b in range(a + 1, len(cand)):
            same_mech = np.all(R['hyps'][a][2][0, :mech.m['n_par']] == R['hyps'][b][2][0, :mech.m['n_par']])
            if not same_mech and np.all(np.abs(cand[a] - cand[b]) <= 20 * tol):
                return {}
    out = {}
    n_par = mech.m['n_par']
    leaves = _leaves(s['pop'], K)
    for pos, li in enumerate(R['hl']):
        if leaves[li]['d0'] >= n_par:
            continue                      # a heterogeneous part over error parameters only is not observable here
        r = R['combo'][:, pos]
        counts = [int(np.sum(r == k)) for k in range(K)]
        p, d = stats.chi2_freq(counts)
        out[('hetero_row_freq', pos)] = (p, 'chi2', 'heterogeneous part %d: individuals chosen per patient (uniform '
                                         'expected): %s' % (pos, d))
        diff = (r[1:] - r[:-1]) % K
        counts = [int(np.sum(diff == k)) for k in range(K)]
        p, d = stats.chi2_freq(counts)
        out[('hetero_row_indep', pos)] = (p, 'chi2', 'heterogeneous part %d: (row of patient i+1) - (row of patient '
                                          'i) mod %d, uniform if the patients are independent draws: %s; first rows '
                                          '%s' % (pos, K, d, r[:12].tolist()))
    return out


# =============================================================================================
# the model under test, built from the spec
# =============================================================================================
N1 = {'pred': 2000, 'poppred': 1000, 'pam': 300}


class _Built(object):
    def __init__(self, s):
        import chi
        from vf import llbuild
        self.s = s
        mode = s['mode']
        self.mech = _Mech(s['mech'], s['times'])
        self.ems = s['ems']
        self.out_names = _out_names(s['mech'])
        self.times = list(s['times']) if s['times_as'] == 'list' else np.array(s['times'], dtype=float)
        self.pop_inner = mode == 'poppred' or s.get('inner') == 'pop'
        self.cands = None
        if mode == 'pam':
            self.parts = []
            posts = []
            for mm in s['models']:
                mech = dict(s['mech'], n_par=mm['n_par'])
                pm = _build_pm(mech, mm['ems'])
                ds, pmap = _dataset(mm['ds'], pm.get_parameter_names())
                posts.append(chi.PosteriorPredictiveModel(pm, ds, param_map=pmap))
                self.parts.append((_Mech(mech, s['times']), mm['ems'], mm['ds']))
            self.model = chi.PAMPredictiveModel(posts, list(s['weights']))
            _set_regimen(self.model, s['mech'])
            return
        self.drop = None
        if mode == 'pred' and s.get('user_em') and ref.EM_NPAR[s['ems'][0]] == 2:
            # the user's first error model is a ReducedErrorModel with its last parameter fixed (at the value of the
            # spec); after the predictive model was built the user re-fixes THEIR object for another purpose
            m_, outs_ = _build_mech(s['mech'])
            ems_obj = [ref.em_class(k)() for k in s['ems']]
            idx = s['mech']['n_par'] + 1
            last = ems_obj[0].get_parameter_names()[-1]
            red = chi.ReducedErrorModel(ems_obj[0])
            red.fix_parameters({last: float(s['params'][idx])})
            ems_obj[0] = red
            pm = chi.PredictiveModel(m_, ems_obj, outputs=outs_)
            red.fix_parameters({last: 40.0 * float(s['params'][idx]) + 1.0})
            self.drop = idx
        else:
            pm = _build_pm(s['mech'], s['ems'])
            if mode == 'pred' and s.get('fix_first'):
                pm.fix_parameters({pm.get_parameter_names()[0]: float(s['params'][0])})
                self.drop = 0
        base = pm
        if self.pop_inner:
            self.popm = _build_popm(s, pm)
            base = chi.PopulationPredictiveModel(pm, self.popm)
        if mode in ('pred', 'poppred'):
            self.model = base
        elif mode == 'prior':
            pr = s['prior']
            prior = _table_prior(pr['rows']) if pr['kind'] == 'table' else llbuild.build_prior(pr['pri'])
            self.model = chi.PriorPredictiveModel(base, prior)
        else:
            ds, pmap = _dataset(s['ds'], base.get_parameter_names())
            self.model = chi.PosteriorPredictiveModel(base, ds, param_map=pmap)
        _set_regimen(self.model, s['mech'])

    # -- covariates ------------------------------------------------------------------------
    def cov_arg(self, n):
        s = self.s
        form = s.get('cov_form', 'none')
        if form == 'none':
            return None
        if form == 'ignored':
            return [0.5]
        if form == '1d':
            return list(s['cov'][0])
        if form == '2d1':
            return [list(s['cov'][0])]
        return [list(s['cov'][i % len(s['cov'])]) for i in range(n)]

    def cov_rows(self, n):
        """Covariates of sample id 1..n as the documentation states them: (n_cov,) applies to every id,
        (n_samples, n_cov) row i to id i."""
        s = self.s
        form = s.get('cov_form', 'none')
        if form in ('none', 'ignored'):
            return np.zeros((n, 0))
        if form in ('1d', '2d1'):
            return np.repeat(np.array([s['cov'][0]], dtype=float), n, axis=0)
        return np.array([s['cov'][i % len(s['cov'])] for i in range(n)], dtype=float)

    def cov_names(self):
        if self.s.get('cov_form', 'none') in ('none', 'ignored'):
            return []
        return ['Cov. %d' % (c + 1) for c in range(ref.pop_n_cov(self.s['pop']))]

    # -- the call --------------------------------------------------------------------------
    def call(self, n, seed, df):
        s = self.s
        mode = s['mode']
        np.random.seed(stats.derive_seed(seed, 'global') % (2 ** 32))
        if s.get('seed_form', 'int') != 'int' and isinstance(seed, int):
            seed = getattr(np, s['seed_form'][3:])(seed)       # integer seeds also arrive as numpy integers
        times = self.times.copy() if isinstance(self.times, np.ndarray) else list(self.times)
        kw = {}
        if self.pop_inner and s.get('cov_form', 'none') != 'none':
            kw['covariates'] = self.cov_arg(1 if n is None else n)
        if mode == 'pred':
            params = np.array(s['params'], dtype=float)
            if self.drop is not None:
                params = np.delete(params, self.drop)
            return self.model.sample(params, times, n_samples=n, seed=seed, return_df=df,
                                     include_regimen=s['regimen_flag'])
        if mode == 'poppred':
            return self.model.sample(np.array(s['theta'], dtype=float), times, n_samples=n, seed=seed, return_df=df,
                                     include_regimen=s['regimen_flag'], **kw)
        if mode == 'prior':
            return self.model.sample(times, n_samples=n, seed=seed, include_regimen=s['regimen_flag'], **kw)
        if mode == 'post':
            return self.model.sample(times, n_samples=n, individual=s['individual'], seed=seed,
                                     include_regimen=s['regimen_flag'], **kw)
        return self.model.sample(times, n_samples=n, individual=s['individual'], seed=seed,
                                 include_regimen=s['regimen_flag'])

    def returns_df(self):
        return self.s['df'] or self.s['mode'] in ('prior', 'post', 'pam')

    def values(self, case, res, n, df):
        """Labelling clauses; returns the values as (n_out, n_times, n)."""
        s = self.s
        ts = self.mech.ts
        if not df:
            a = np.asarray(res, dtype=float)
            case.equal(a.shape, (len(self.out_names), len(ts), n), 'shape of the returned array (n_outputs, n_times, '
                                                                  'n_samples)', kind='shape')
            return a
        doses = _dose_rows(s['mech'], ts) if s['regimen_flag'] else []
        cn = self.cov_names() if s['mode'] == 'poppred' else []
        return _parse_table(case, res, n, ts, self.out_names, cn, self.cov_rows(n) if cn else None, doses,
                            dose_once_ok=s['mode'] in ('prior', 'post', 'pam'))


def _ind_index(ds, individual):
    if not ds['ids']:
        return 0
    return 0 if individual is None else ds['ids'].index(individual)


# =============================================================================================
# check
# =============================================================================================
def _n1(s):
    mode = s['mode']
    if mode in N1:
        return N1[mode]
    if mode == 'post':
        return 40 * s['ds']['n_chain'] * s['ds']['n_draw']
    return 40 * len(s['prior']['rows'])


def _report(case, res):
    if res is None:
        return
    if res.stage2:
        case.labels.append('stage2')
    names = []
    for key in res.evaluated:
        if key[0] not in names:
            names.append(key[0])
    for name in names:
        with case.clause(name):
            fs = res.for_prefix(name)
            if fs:
                case.fail(fs[0].stat, fs[0].text() + ('' if len(fs) == 1 else ' (+%d more)' % (len(fs) - 1)))


def _unique_labels(matches):
    """Per sample id the label if exactly one candidate fits, else None."""
    return [m[0].label if len(m) == 1 else None for m in matches]


def _prior_bounds(mech, pri, n_par):
    """Range of the analytic outputs over the support of a composed prior (uniform: [a, b]; others: (0, inf))."""
    lo = [p['a'] if p['kind'] == 'uniform' else 0.0 for p in pri[:n_par]]
    hi = [p['b'] if p['kind'] == 'uniform' else np.inf for p in pri[:n_par]]
    out = []
    for o in mech.m['sel']:
        lower = sum(weight(o, j) * lo[j] for j in range(n_par))
        upper = sum(weight(o, j) * hi[j] * (1.0 + hi[(j + 1) % n_par]) for j in range(n_par))
        out.append((lower, upper))
    return out


def _prior_moves_outputs(s):
    """Prior over a population model: True if a free (not fixed) pooled / heterogeneous value of a mechanistic
    dimension exists, so that two draws from the continuous prior give different outputs."""
    pop, n_par = s['pop'], s['mech']['n_par']
    fixed = set(pop['fixed']) if pop['kind'] == 'red' else set()
    for lf in _leaves(pop, s['n_ids_h']):
        e = lf['elem']
        if e['kind'] not in ('pooled', 'hetero'):
            continue
        for p in range(ref.pop_per_dim(e, s['n_ids_h'])):
            for j in range(e['n_dim']):
                if lf['d0'] + j < n_par and (lf['t0'] + p * e['n_dim'] + j) not in fixed and e['kind'] == 'pooled':
                    return True
    return False


def check(case):
    s = case.spec
    mode = s['mode']
    B = None
    with case.clause('construct'):
        B = _Built(s)
    if B is None:
        return
    if s.get('pop') is not None and popgen.has(s['pop'], 'hetero') and s.get('n_ids_h', 1) >= 2:
        # virtual patients are independent draws from the modelled individuals, also when no more patients are drawn
        # than there are individuals: over 60 seeded calls with n_samples = n_ids some call has one individual twice
        # (each call is a permutation with probability k!/k^k <= 1/2 only), and every patient is a modelled individual
        with case.clause('hetero_joint'):
            import chi
            k = int(s['n_ids_h'])
            rows = np.arange(1.0, k + 1.0)
            hm = chi.HeterogeneousModel(n_dim=1, n_ids=k)
            cm = chi.ComposedPopulationModel([chi.HeterogeneousModel(n_dim=1, n_ids=k), chi.PooledModel(n_dim=1)])
            rep = [0, 0]
            for sd in range(60):
                for j, (m, par) in enumerate(((hm, rows), (cm, np.append(rows, 5.0)))):
                    r = np.asarray(m.sample(par, n_samples=k, seed=int(s['seed']) + sd), dtype=float)
                    case.equal(tuple(r.shape), (k, 1 + j), 'shape of %d heterogeneous samples' % k, kind='shape')
                    case.true(all(float(v) in rows for v in r[:, 0]), 'heterogeneous samples %r are no modelled '
                              'individuals %r' % (r[:, 0].tolist(), rows.tolist()))
                    rep[j] += len(set(r[:, 0].tolist())) < k
            case.true(rep[0] > 0 and rep[1] > 0, 'in 60 seeded calls with n_samples = n_ids = %d no virtual patient ever '
                      'shared the individual of another patient of the same call (calls with a repeat: %r; independent '
                      'draws give a repeat with probability %.3f per call)' % (k, rep, 1 - math.factorial(k) / k ** k),
                      kind='statistic')
            case.labels.append('hetero_joint')
    mech, ems = B.mech, B.ems
    n_par = s['mech']['n_par']
    stat = s['stat']
    n_arg = _n1(s) if stat else s['ns']
    n = 1 if n_arg is None else n_arg
    df = B.returns_df()
    seed = s['seed']
    case.labels.append('df' if df else 'array')

    res = None
    with case.clause('sample_call'):
        res = B.call(n_arg, seed, df)
    if res is None:
        return
    vals = None
    with case.clause('table' if df else 'array_shape'):
        vals = B.values(case, res, n, df)
    if vals is None:
        return

    # ---- data frame and array form carry the same values under the same labels -----------------
    if mode in ('pred', 'poppred') and n <= 50:
        with case.clause('df_vs_array'):
            other = B.call(n_arg, seed, not df)
            ov = None
            try:
                ov = B.values(case, other, n, not df)
            except Exception as e:  # labelling problems of the other form are reported by their own cases
                if type(e).__name__ != 'ClauseFail':
                    raise
            if ov is not None:
                case.close(ov, vals, rtol=0.0, what='values of the data frame vs array[output, time index, id - 1] '
                                                    '(same seed)')

    Y = np.transpose(vals, (2, 0, 1))          # (n, n_out, n_t)

    # ---- membership -----------------------------------------------------------------------
    matches = None
    if mode == 'pred' and s['wm']:
        with case.clause('value'):
            c = _Cand('params', mech, ems, s['params'])
            for i in range(n):
                if not c.fits(Y[i]):
                    w = np.argwhere(~c.fits_where(Y[i]))[0]
                    case.fail('mismatch', 'sample id %d, output %d, time index %d (ascending): value %r, mechanistic '
                              'output at the given parameters %r' % (i + 1, w[0], w[1], float(Y[i][w[0], w[1]]),
                                                                   float(c.ybar[w[0], w[1]])))

    pop_thetas = None
    if mode == 'poppred' and s['wm']:
        pop_thetas = [s['theta']]
    elif mode == 'prior' and s['inner'] == 'pop' and s['prior']['kind'] == 'table':
        pop_thetas = s['prior']['rows']
    elif mode == 'post' and s['inner'] == 'pop':
        pop_thetas = _ds_rows(s['ds'], 0)
    R = None
    if pop_thetas is not None:
        name = {'poppred': 'individual_params', 'prior': 'prior_draw', 'post': 'joint_draw'}[mode]
        with case.clause(name):
            n_dec = min(n, 60)        # (statistical sub-domain: membership is decided on the first 60 ids)
            R = _decode_pop(mech, ems, s['pop'], s['n_ids_h'], pop_thetas, B.cov_rows(n)[:n_dec], Y[:n_dec])
            if R['U'] and np.any(R['ok']):
                case.labels.append('decoded')
            _judge_pop(case, mech, ems, R, Y[:n_dec], {
                'poppred': 'individuals of the population model at the given parameters and covariates',
                'prior': 'individuals of the population model at one row of the prior table',
                'post': 'individuals of the population model at one joint posterior draw'}[mode])

    if mode == 'prior' and s['inner'] == 'plain' and s['prior']['kind'] == 'table':
        with case.clause('prior_draw'):
            cands = [_Cand(k, mech, ems, row) for k, row in enumerate(s['prior']['rows'])]
            matches = _match_ids(vals, cands)
            for i, m in enumerate(matches):
                if not m:
                    case.fail('not_a_prior_draw', 'sample id %d: its values are not the outputs of ONE complete '
                              'parameter row of the prior table; single values: %s' % (i + 1, _explain(Y[i], cands)))

    if mode == 'prior' and s['prior']['kind'] == 'cont' and (s['inner'] == 'plain' or _prior_moves_outputs(s)):
        with case.clause('distinct_ids'):
            for i in range(n):
                for j in range(i + 1, n):
                    # same parameter set <=> values agree up to the (tiny) noise
                    case.true(not np.all(np.abs(Y[i] - Y[j]) <= 1e-6 * np.abs(Y[i])), 'sample ids %d and %d have the '
                              'same values up to the error scale (%s, %s) although the prior is continuous' % (
                                  i + 1, j + 1, _short(Y[i]), _short(Y[j])), kind='identical')
        if s['inner'] == 'plain' and s['mech']['kind'] == 'analytic':
            with case.clause('prior_support'):
                for r, (lower, upper) in enumerate(_prior_bounds(mech, s['prior']['pri'], n_par)):
                    slack = 1e-6 * max(1.0, upper if np.isfinite(upper) else 1.0)
                    bad = (Y[:, r, :] < lower - slack) | (Y[:, r, :] > upper + slack)
                    if np.any(bad):
                        i, t = [int(v) for v in np.argwhere(bad)[0]]
                        case.fail('outside_support', 'sample id %d, output %d: value %r outside [%r, %r], the range '
                                  'of the outputs over the support of the prior' % (i + 1, r, float(Y[i, r, t]),
                                                                                     lower, upper))

    if mode == 'post' and s['inner'] == 'plain':
        with case.clause('joint_draw'):
            ds = s['ds']
            sel = _ind_index(ds, s['individual'])
            cands = [_Cand(k, mech, ems, row) for k, row in enumerate(_ds_rows(ds, sel))]
            matches = _match_ids(vals, cands)
            for i, m in enumerate(matches):
                if not m:
                    for other in range(len(ds['ids'])):
                        if other != sel and any(_Cand(0, mech, ems, row).fits(Y[i]) for row in _ds_rows(ds, other)):
                            case.fail('wrong_individual', 'sample id %d uses a posterior draw of individual %r, '
                                      'selected: %r' % (i + 1, ds['ids'][other], s['individual']))
                    case.fail('not_a_joint_draw', 'sample id %d: its values are not the outputs of ONE joint posterior '
                              'draw (same chain and draw for every parameter) of the selected individual; single '
                              'values: %s' % (i + 1, _explain(Y[i], cands)))

    if mode == 'post' and s['inner'] == 'plain' and s['ds'].get('pad') and not case.fails:
        # every valid draw of the requested individual is used (also those beyond the number of valid draws of another
        # individual): with n samples the chance that a given one of m draws never occurs is (1 - 1/m)^n < 1e-9 / m
        with case.clause('padded_draws_all_used'):
            m_rows = len(cands)
            n_big = int(np.ceil(m_rows * (np.log(m_rows) + 21.0)))
            big = B.values(case, B.call(n_big, seed, df), n_big, df)
            used = set()
            for mlist in _match_ids(big, cands):
                used.update(c.label for c in mlist)
            missing = [c.label for c in cands if c.label not in used]
            case.true(not missing, 'of the %d valid posterior draws of individual %r, %d never occur among %d samples '
                      '(first missing: %r); valid draws of the other individuals: %r' % (
                          m_rows, s['individual'], len(missing), n_big, missing[:3],
                          [s['ds']['n_draw'] - k_ for k_ in s['ds']['pad']]), kind='draws_unused')

    if mode == 'pam':
        with case.clause('model_draw'):
            cands = []
            for m_id, (mm, me, ds) in enumerate(B.parts):
                sel = _ind_index(ds, s['individual'])
                cands += [_Cand((m_id, k), mm, me, row) for k, row in enumerate(_ds_rows(ds, sel))]
            matches = _match_ids(vals, cands)
            for i, m in enumerate(matches):
                if not m:
                    case.fail('not_one_model', 'sample id %d: its values are not the outputs of one joint posterior draw '
                              'of ONE of the models; single values: %s' % (i + 1, _explain(Y[i], cands)))

    # ---- statistical clauses ----------------------------------------------------------------
    if not stat or case.fails:
        return

    def draw(nn, sd):
        if nn == n and sd == seed:
            return vals
        r = B.call(nn, sd, df)
        return B.values(case, r, nn, df)

    if not s['wm']:
        params = s['params'] if mode == 'pred' else _expand(s['pop'], s['theta'])
        ybar = mech.F(params[:n_par])
        sigs = _split_sig(ems, params[n_par:])

        def tests(v):
            out = {}
            for o, k in enumerate(ems):
                for t in range(v.shape[1]):
                    u = ref.em_cdf(k, sigs[o], ybar[o, t], v[o, t, :])
                    p, d = stats.ks_uniform(u)
                    out[('noise_dist', o, t)] = (p, 'ks', 'error model %s, output %d, time index %d: %s' % (k, o, t, d))
            return out
    elif mode == 'poppred':
        full = _expand(s['pop'], s['theta'])

        def tests(v):
            # two-sample test against the documented generative process: individuals drawn from the reference
            # population distribution at each id's covariates, pushed through the reference outputs (the error
            # scale is 1e-9). No inversion is involved (the analytic model is not injective everywhere).
            nn = v.shape[2]
            if s.get('hstat'):
                # atoms only (the two-sample test would compare noisy atoms with noise-free ones): the rows are
                # decoded exactly instead
                return _hetero_tests(mech, ems, s, B.cov_rows(nn), np.transpose(v, (2, 0, 1)))
            rng = np.random.default_rng(stats.derive_seed(seed, 'reference', nn))
            rep = 4
            psi = _ref_population(s['pop'], s['n_ids_h'], full, np.tile(B.cov_rows(nn), (rep, 1)), rng)
            yref = np.real(mech.Fb(psi[:, :n_par]))
            for i in range(0, len(psi), max(1, len(psi) // 20)):
                if not np.allclose(yref[i], mech.F(psi[i, :n_par]), rtol=1e-10, atol=0.0):
                    raise AssertionError('C15 harness: vectorised outputs differ from ref_outputs')
            out = {}
            from scipy import stats as sps
            for o in range(v.shape[0]):
                for t in range(v.shape[1]):
                    r = sps.ks_2samp(v[o, t, :], yref[:, o, t], method='asymp')
                    out[('pop_dist', o, t)] = (float(r.pvalue), 'ks2', 'output %d, time index %d: samples vs the '
                                               'reference process (individuals from the documented population '
                                               'distribution): KS distance %.4f (n=%d vs %d), means %.6g vs %.6g' % (
                                                   o, t, float(r.statistic), nn, len(psi), float(np.mean(v[o, t, :])),
                                                   float(np.mean(yref[:, o, t]))))
            return out
    else:
        cl = {'prior': 'row_freq', 'post': 'draw_freq', 'pam': 'weights'}[mode]

        def tests(v):
            if v is vals:
                mt = matches
            else:
                mt = _match_ids(v, cands)
            labs = [lb for lb in _unique_labels(mt) if lb is not None]
            if len(labs) < 0.99 * v.shape[2]:
                return {}
            if mode == 'pam':
                w = np.array(s['weights'], dtype=float)
                counts = [sum(1 for lb in labs if lb[0] == m_id) for m_id in range(len(w))]
                p, d = stats.chi2_freq(counts, w / w.sum())
                return {(cl,): (p, 'chi2', 'models chosen per sample id vs normalised weights: %s' % d)}
            K = len(cands)
            counts = [sum(1 for lb in labs if lb == k) for k in range(K)]
            p, d = stats.chi2_freq(counts)
            return {(cl,): (p, 'chi2', 'rows chosen per sample id (uniform expected): %s' % d)}

    out = None
    with case.clause('stat_call'):
        out = stats.two_stage(draw, tests, seed, n)
    _report(case, out)


# =============================================================================================
# classification
# =============================================================================================
def classify(spec):
    s = spec
    labs = ['mode:' + s['mode'], 'mech:' + s['mech']['kind']]
    if s['mech']['kind'] == 'pk' and s['mech']['regimen'] is not None and s['regimen_flag']:
        labs.append('regimen')
    if list(s['times']) != sorted(s['times']):
        labs.append('unsorted')
    if s['mech']['kind'] == 'analytic' and s['mech']['sel'] != list(range(s['mech']['n_tot'])):
        labs.append('out_sel')
    labs.append('wm' if s['wm'] else 'ordinary_sigma')
    if s['stat']:
        labs.append('stat')
    if s.get('hstat'):
        labs.append('stat:hetero_rows')
    if s.get('ds') and s['ds'].get('pad'):
        labs.append('post:nan_padded_draws')
    if s.get('user_em'):
        labs.append('user_error_model_reused')
    if s.get('fix_first') and s['mech'].get('regimen') is not None:
        labs.append('fixed_then_regimen')
        if s['mech']['regimen'].get('num'):
            labs.append('fixed_then_regimen:finite')
    if s.get('seed_form', 'int') != 'int':
        labs.append('seed:numpy_int')
    if s.get('last_at_dose'):
        labs.append('last_time_at_dose')
    if s['ns'] is None and not s['stat']:
        labs.append('ns=None')
    if 'pop' in s:
        pop = s['pop']
        for lf in popgen.leaves(_base(pop)):
            labs.append('kind:' + lf['kind'])
            if lf['kind'] in ('gauss', 'lognorm') and not lf.get('centered', True):
                labs.append('noncentered')
        for k in ('cov', 'red', 'comp'):
            if popgen.has(pop, k):
                labs.append(k)
        if s['cov_form'] != 'none':
            labs.append('cov:' + ('1d' if s['cov_form'] == '1d' else '2d' if s['cov_form'] in ('2d', '2d1') else 'ignored'))
        last = s.get('last')
        labs.append('last:' + ('none' if last is None else last[0]))
        if not s['stat']:
            ns = 1 if s['ns'] is None else s['ns']
            labs.append('ns=last' if ns == _current_n_ids(s) else 'ns!=last')
    if s.get('inner'):
        labs.append('inner:' + s['inner'])
    if s['mode'] == 'prior':
        labs.append('prior:' + s['prior']['kind'])
    if s['mode'] == 'post':
        ds = s['ds']
        if 'pop' in ds['level'] and 'indiv' in ds['level']:
            labs.append('post:poplevel')
        if any(m is not None for m in ds['map']):
            labs.append('post:param_map')
        if any(m is not None and m.startswith('@') for m in ds['map']):
            labs.append('post:param_map_cycle')
        if s['individual'] is not None and len(ds['ids']) > 1 and s['individual'] != ds['ids'][0]:
            labs.append('post:individual')
        if s['individual'] is None and len(ds['ids']) > 1:
            labs.append('post:default_individual')
        if not _ds_has_individuals(ds):
            labs.append('post:no_individual_dim')
    return sorted(set(labs))


def nontrivial(spec):
    s = spec
    ns = 1 if s['ns'] is None else s['ns']
    if s['stat']:
        ns = 100
    if ns < 2 or (len(s['mech']['sel']) < 2 and len(s['times']) < 2):
        return False
    if 'pop' in s:
        pop = s['pop']
        return any(ref.pop_special(_base(pop))) or any(ref.pop_noncentered(_base(pop))) or popgen.has(pop, 'cov')
    if s['mode'] in ('post',):
        return s['mech']['n_par'] >= 2 and len(s['ds']['ids']) >= 2
    return True


def structure(spec):
    s = spec
    body = [s['mode'], s['mech']['kind'], s['mech']['n_par'], s['mech']['sel'], s['ems'], len(s['times']),
            s['ns'], s['df'], s['regimen_flag'], s['wm'], s['stat']]
    if 'pop' in s:
        body += [popgen.structure(s['pop']), s['n_ids_h'], s['cov_form'], s.get('last')]
    if s['mode'] == 'prior':
        body += [s['inner'], s['prior']['kind'], len(s['prior'].get('rows', []))]
    if s['mode'] == 'post':
        ds = s['ds']
        body += [s['inner'], ds['n_chain'], ds['n_draw'], len(ds['ids']), ds['level'], [m is not None for m in ds['map']],
                 ds['extra'], s['individual'] is not None]
    if s['mode'] == 'pam':
        body += [[[m['n_par'], m['ems'], m['ds']['n_chain'], m['ds']['n_draw'], len(m['ds']['ids'])] for m in s['models']]]
    return body


RULE += (' Classes and clauses added in later rounds of the seeded-change protocol (DESIGN 9.4) are named in REQUIRED '
         'and in seeded/HISTORY.json; the evidence counts every one of them under classes.')
