"""C09 - Simulation returns the ODE solution and its derivatives in parameter order."""
import numpy as np
from hypothesis import strategies as st
from scipy.integrate import solve_ivp

from vf import gen, ref, sbmlgen

ID = 'C09'
BUDGET = {'quick': 2000, 'thorough': 40000}
RULE = (
    'Hypothesis draws (i) generated SBML files: linear compartmental models with 1-3 compartments (one amount '
    'species each) and 0-4 global rate-rule states, identifiers drawn from a mixed-case pool (alphabetical order != '
    'declaration order), random first-order transfer/elimination topology, literal and derived (product) constants, '
    'intermediate variables (linear combinations of states), declaration order of species/parameters/rules shuffled; '
    '(ii) the four library models. Plus: any non-empty output selection in any order, positive pairwise distinct '
    'parameter vectors, increasing and tied time grids starting at or after 0, sensitivities on/off, an optional '
    'ReducedMechanisticModel with a fixed subset, optional renaming of parameters/outputs. Non-trivial: (>=2 states '
    'whose model order differs from alphabetical order, or an intermediate output) with pairwise distinct parameter '
    'values, or a library model with sensitivities. Distinct = structural projection (topology, outputs, flags).')
RULE += (' ' + 'Added: a second fix_parameters call on the reduced model that releases and fixes parameters in ONE call (also with an unchanged number of free parameters) with sensitivities on; PKPD flavour with a (direct / indirect) route of administration set after display names were assigned; a copy taken after the model was simulated.')
ASSUMPTIONS = [
    'myokit.Simulation is replaced in the harness process by the reference integrator vf/simshim.py (CVODES is absent); '
    'it honours the documented contract of myokit.Simulation for the calls chi makes. It is itself cross-checked here: '
    'every generated case compares its output with the matrix-exponential closed form',
    'closed form: expm of the rate matrix assembled from the generator description; sensitivities by complex step '
    'through expm; library models: hand-coded documented equations integrated with DOP853 at rtol 1e-12',
    "myokit's SBML importer naming convention (c.s_amount, c.size, global.p)"]
REQUIRED = ['gen', 'lib:pk', 'lib:koch', 'lib:koch_r', 'lib:erlotinib', 'sens', 'reduced', 'renamed', 'tied_times',
            'intermediate_output', 'order_differs', 'model_order_differs', 'derived_const', 'refix', 'refix:same_count',
            'admin:indirect', 'rename_then_admin', 'dosed:sens', 'dosed:global_state', 'negative_initial_value', 'regimen_through_reduced_model', 'regimen_replaced:zero_dose',
            'admin:indirect:model_has_dose_compartment:dosed', 'lib:second_request',
            'admin:direct_after_dose_compartment_output']
LIBS = ['pk', 'koch', 'koch_r', 'erlotinib']


@st.composite
def _times(draw):
    n = draw(st.integers(1, 6))
    ts = sorted(gen.distinct(draw(gen.vec(gen.logu(0.05, 6.0), n))))
    if gen.chance(draw, 0.3):
        ts[0] = 0.0
    tied = False
    if gen.chance(draw, 0.2):
        ts = sorted(ts + [draw(st.sampled_from(ts))])
        tied = True
    return ts, tied


@st.composite
def _spec(draw):
    times, tied = draw(_times())
    sens = gen.chance(draw, 0.35)
    if gen.chance(draw, 0.15):
        lib = LIBS[draw(st.integers(0, 7)) % 4]
        n = {'pk': 3, 'koch': 5, 'koch_r': 5, 'erlotinib': 7}[lib]
        theta = gen.distinct(draw(gen.vec(gen.logu(0.2, 3.0), n)))
        return dict(src='lib', lib=lib, theta=theta, times=times, tied=tied, sens=sens)
    ms = sbmlgen.draw_model(draw)
    if gen.chance(draw, 0.12):
        # the model has a compartment called 'dose' (a depot of its own) already: the compartment an indirect route adds
        # gets another name, and is the one that is dosed
        ms['comps'][0]['id'] = 'dose'
        if gen.chance(draw, 0.7):
            ms['comps'][0]['sid'] = 'drug'
    admin = None
    if gen.chance(draw, 0.3 if sbmlgen.depot(ms) == 'dose' else 0.85):
        # PKPD flavour: a route of administration (no doses scheduled); the indirect route adds a depot state and
        # an absorption rate in the middle of the published parameter order
        admin = dict(comp=draw(st.integers(0, len(ms['comps']) + len(ms['gstates']) - 1)), direct=gen.chance(draw, 0.4),
                     rename_first=draw(st.booleans()))
        if gen.chance(draw, 0.6):
            # a dosing regimen: the initial-value problem then has a scheduled input, which every later
            # (re-)configuration of the sensitivities has to keep
            admin['reg'] = dict(dose=draw(gen.logu(0.5, 5.0)), start=draw(gen.logu(0.05, 1.0)),
                                duration=draw(gen.logu(0.02, 0.3)), period=draw(gen.logu(0.5, 2.0)),
                                num=draw(st.integers(1, 3)))
    if admin is not None and admin.get('reg'):
        admin['reg_late'] = draw(st.booleans())
        # another regimen was scheduled on the same model before (treated arm, then control arm with a dose of zero)
        admin['reg_decoy'] = bool(gen.chance(draw, 0.4))
        if admin['reg_decoy'] and gen.chance(draw, 0.5):
            admin['reg']['dose'] = 0.0
    names = sbmlgen.published_parameters(ms, admin)
    theta = gen.distinct(draw(gen.vec(gen.logu(0.1, 3.0), len(names))))
    neg = []
    if gen.chance(draw, 0.2):
        # states that start below zero (deviations from a baseline, logarithms): an initial value is any real number
        n_states = len(sbmlgen.state_qnames(ms)) + (1 if (admin is not None and not admin['direct']) else 0)
        neg = draw(gen.subset(n_states, min_size=1))
        theta = [-v if i in neg else v for i, v in enumerate(theta)]
    cands = sbmlgen.state_qnames(ms) + sbmlgen.intermediate_qnames(ms)
    outputs = None
    if not gen.chance(draw, 0.25):
        k = draw(st.integers(1, len(cands)))
        outputs = list(draw(st.permutations(cands))[:k])
    fixed = None
    if len(names) >= 2 and gen.chance(draw, 0.4):
        idx = draw(gen.subset(len(names), min_size=1, max_size=len(names) - 1))
        fixed = {str(i): theta[i] for i in idx}
    rename = None
    if gen.chance(draw, 0.4 if admin else 0.25):
        n_ren = len(sbmlgen.published_parameters(ms)) if (admin and admin['rename_first']) else len(names)
        rename = dict(params=sorted(draw(gen.subset(n_ren, min_size=1))),
                      outputs=draw(st.booleans()))
    refix = None
    if fixed is not None and gen.chance(draw, 0.6):
        # a later fix_parameters call on the reduced model: release some fixed parameters and fix some free ones in
        # ONE call (the number of free parameters may or may not change)
        fx = sorted(int(i) for i in fixed)
        fr = [i for i in range(len(names)) if i not in fx]
        rel = [fx[j] for j in draw(gen.subset(len(fx), min_size=0, max_size=len(fx)))]
        add = [fr[j] for j in draw(gen.subset(len(fr), min_size=0, max_size=len(fr)))]
        if gen.chance(draw, 0.5) and fx and fr:
            rel, add = [draw(st.sampled_from(fx))], [draw(st.sampled_from(fr))]         # plain swap
        if len(fx) - len(rel) + len(add) < len(names) and (rel or add):
            refix = dict(release=rel, fix=add)
    if admin is not None and outputs is None:
        outputs = sorted(cands)
    return dict(src='gen', ms=ms, theta=theta, times=times, tied=tied, sens=sens, outputs=outputs,
                fixed=fixed, rename=rename, refix=refix, admin=admin, negative_initial=bool(neg))


def strategy(tier):
    return _spec()


def classify(spec):
    labs = []
    if spec['src'] == 'lib':
        labs.append('lib:' + spec['lib'])
        if len(spec['times']) % 2 == 0:
            labs.append('lib:second_request')
    else:
        labs.append('gen')
        ms = spec['ms']
        if spec.get('negative_initial'):
            labs.append('negative_initial_value')
        if spec['fixed']:
            labs.append('reduced')
        if spec['rename']:
            labs.append('renamed')
        if spec.get('refix'):
            labs.append('refix')
        if spec.get('admin'):
            labs.append('admin:' + ('direct' if spec['admin']['direct'] else 'indirect'))
            if sbmlgen.depot(ms) != 'dose' and not spec['admin']['direct']:
                labs.append('admin:indirect:model_has_dose_compartment' + (':dosed' if spec['admin'].get('reg') else ''))
            if spec['admin'].get('reg'):
                labs.append('dosed')
                if spec['admin'].get('reg_decoy'):
                    labs.append('regimen_replaced')
                    if spec['admin']['reg']['dose'] == 0:
                        labs.append('regimen_replaced:zero_dose')
                if spec['admin']['comp'] >= len(ms['comps']):
                    labs.append('dosed:global_state')
                if spec['sens']:
                    labs.append('dosed:sens')
            if spec['rename'] and spec['admin']['rename_first']:
                labs.append('rename_then_admin')
        if ms['derived']:
            labs.append('derived_const')
        if spec['outputs'] and any(o in sbmlgen.intermediate_qnames(ms) for o in spec['outputs']):
            labs.append('intermediate_output')
        decl = [sbmlgen.state_qnames(ms)[i] for i in ms['perm']['species']] if len(ms['comps']) > 1 else []
        sq = sbmlgen.state_qnames(ms)
        if len(sq) >= 2 and sq != sorted(sq):
            labs.append('order_differs')
    if spec['sens']:
        labs.append('sens')
    if spec['tied']:
        labs.append('tied_times')
    return labs


def nontrivial(spec):
    labs = classify(spec)
    if spec['src'] == 'lib':
        return spec['sens']
    return 'order_differs' in labs or 'intermediate_output' in labs


def structure(spec):
    if spec['src'] == 'lib':
        return ['lib', spec['lib'], spec['sens'], len(spec['times']), spec['tied']]
    return ['gen', sbmlgen.structure(spec['ms']), spec['outputs'], spec['sens'],
            sorted(spec['fixed']) if spec['fixed'] else None, spec['rename'], spec['tied'], spec.get('refix'), spec.get('admin')]


# ---- library models: documented equations, hand-coded --------------------------------------
def _lib_rhs(lib, th):
    """Returns (x0, f(t, x), outputs(x) -> list) with th in the published parameter order."""
    if lib == 'pk':
        A0, V, ke = th
        return [A0], (lambda t, x: [-ke * x[0]]), (lambda x: [x[0] / V])
    if lib == 'koch':
        V0, C, kappa, l0, l1 = th
        return [V0], (lambda t, x: [2 * l0 * l1 * x[0] / (2 * l0 * x[0] + l1) - kappa * C * x[0]]), (lambda x: [x[0]])
    if lib == 'koch_r':
        V0, Vc, C, kappa, lam = th
        return [V0], (lambda t, x: [lam * x[0] / (x[0] / Vc + 1) - kappa * C * x[0]]), (lambda x: [x[0]])
    if lib == 'erlotinib':
        A0, V0, size, Vc, ke, kappa, lam = th
        return [A0, V0], (lambda t, x: [-ke * x[0], lam * x[1] / (x[1] / Vc + 1) - kappa * (x[0] / size) * x[1]]), \
            (lambda x: [x[0], x[1]])
    raise ValueError(lib)


LIB_NAMES = {
    'pk': (['central.drug_amount', 'central.size', 'global.elimination_rate'], ['central.drug_concentration']),
    'koch': (['global.tumour_volume', 'global.drug_concentration', 'global.kappa', 'global.lambda_0',
              'global.lambda_1'], ['global.tumour_volume']),
    'koch_r': (['global.tumour_volume', 'global.critical_volume', 'global.drug_concentration', 'global.kappa',
                'global.lambda'], ['global.tumour_volume']),
    'erlotinib': (['central.drug_amount', 'global.tumour_volume', 'central.size', 'global.critical_volume',
                   'global.elimination_rate', 'global.kappa', 'global.lambda'],
                  ['central.drug_amount', 'global.tumour_volume']),
}


def lib_reference(lib, theta, times):
    theta = np.asarray(theta)
    x0, f, out = _lib_rhs(lib, theta)
    dt = complex if np.iscomplexobj(theta) else float
    times = np.asarray(times, dtype=float)
    uniq = sorted(set(times.tolist()))
    res = {}
    x = np.array(x0, dtype=dt)
    t = 0.0
    for tt in uniq:
        if tt > t:
            sol = solve_ivp(lambda s, y: np.array(f(s, y), dtype=dt), (t, tt), x, method='DOP853',
                            rtol=1e-12, atol=1e-14)
            x = sol.y[:, -1]
            t = tt
        res[tt] = out(x)
    return np.array([[res[tt][o] for tt in times] for o in range(len(res[uniq[0]]))], dtype=dt)


def build_lib(lib, second_request=False):
    """A library model. second_request: the SAME library object was asked for this model before, and that first model
    was configured (route of administration with a regimen, display names, outputs) before the second was requested."""
    import chi.library
    L = chi.library.ModelLibrary()
    make = {'pk': L.one_compartment_pk_model, 'koch': L.tumour_growth_inhibition_model_koch,
            'koch_r': L.tumour_growth_inhibition_model_koch_reparametrised,
            'erlotinib': L.erlotinib_tumour_growth_inhibition_model}[lib]
    if second_request:
        first = make()
        if lib in ('pk', 'erlotinib'):
            first.set_administration('central', direct=(lib == 'erlotinib'))
            first.set_dosing_regimen(dose=2.0, start=0.1, duration=0.2, period=0.5)
        first.set_parameter_names({first.parameters()[0]: 'first model, parameter 1'})
        first.set_outputs([first.outputs()[0]])
        first.set_output_names({first.outputs()[0]: 'first model, output 1'})
        first.simulate(np.array([0.5 + 0.1 * k for k in range(first.n_parameters())]), np.array([0.5, 1.0]))
    return make()


def _cgrad_outputs(f, theta):
    """d outputs / d theta_k by complex step: returns array (n_times, n_out, n_par)."""
    theta = np.asarray(theta, dtype=float)
    cols = []
    for k in range(len(theta)):
        z = theta.astype(complex)
        z[k] += 1e-30j
        cols.append(np.imag(f(z)) / 1e-30)      # (n_out, n_times)
    return np.transpose(np.array(cols), (2, 1, 0))


def check(case):
    import chi
    from vf import simshim
    simshim.install()
    s = case.spec
    theta = np.array(s['theta'], dtype=float)
    times = np.array(s['times'], dtype=float)

    if s['src'] == 'lib':
        with case.clause('construct'):
            M = build_lib(s['lib'], second_request=len(s['times']) % 2 == 0)
        if case.fails:
            return
        pn, on = LIB_NAMES[s['lib']]
        with case.clause('names'):
            case.equal(M.parameters(), pn, 'library parameter names/order')
            case.equal(M.outputs(), on, 'library outputs')
            case.equal(M.n_parameters(), len(pn), 'n_parameters')
            case.equal(M.n_outputs(), len(on), 'n_outputs')
        with case.clause('library_equations'):
            got = np.asarray(M.simulate(theta.copy(), times.copy()), dtype=float)
            case.close(got, np.real(lib_reference(s['lib'], theta, times)), rtol=1e-6, atol=1e-9,
                       what='simulation vs documented equations')
        if s['sens']:
            with case.clause('library_sensitivities'):
                M.enable_sensitivities(True)
                out, sens = M.simulate(theta.copy(), times.copy())
                sens = np.asarray(sens, dtype=float)
                case.equal(sens.shape, (len(times), len(on), len(pn)), 'sensitivity shape', kind='shape')
                want = _cgrad_outputs(lambda z: lib_reference(s['lib'], z, times), theta)
                case.close(sens, want, rtol=1e-5, atol=1e-8, what='d output / d parameter')
                case.close(out, np.real(lib_reference(s['lib'], theta, times)), rtol=1e-6, atol=1e-9,
                           what='outputs returned with sensitivities')
        return

    ms = s['ms']
    admin = s.get('admin')
    events = None
    with case.clause('construct'):
        M = sbmlgen.build(ms, chi.PKPDModel) if admin else sbmlgen.build(ms)
        mo = sbmlgen.model_state_order(ms)
        if mo != sorted(mo):
            case.labels.append('model_order_differs')
    if case.fails:
        return
    names = sbmlgen.published_parameters(ms)
    sq = sbmlgen.state_qnames(ms)
    pmap_first = {}

    with case.clause('names'):
        case.equal(M.parameters(), names, 'published parameters: states alphabetically, then constants alphabetically')
        case.equal(M.n_parameters(), len(names), 'n_parameters')
        case.equal(M.outputs(), sorted(sq), 'default outputs')
        case.equal(M.n_outputs(), len(sq), 'default n_outputs')

    if admin:
        with case.clause('administration'):
            if s['rename'] and admin['rename_first']:
                pmap_first = {names[i]: 'renamed parameter no. %d (a long display name)' % i for i in s['rename']['params']}
                M.set_parameter_names(pmap_first)
            if admin['direct'] and admin['comp'] < len(ms['comps']) and (len(times) + len(s['theta'])) % 2 == 0:
                # the route was indirect at first, with the dose compartment as the only output (and the outputs were
                # looked at); the switch to the direct route removes that compartment: the outputs are the states again
                comp = ms['comps'][admin['comp']]
                M.set_administration(comp['id'], amount_var='%s_amount' % comp['sid'], direct=False)
                M.set_outputs([sbmlgen.depot(ms) + '.drug_amount'])
                case.equal(M.outputs(), [sbmlgen.depot(ms) + '.drug_amount'], 'outputs with only the dose compartment selected')
                M.set_administration(comp['id'], amount_var='%s_amount' % comp['sid'], direct=True)
                case.equal(sorted(M.outputs()), sorted(sq), 'outputs after the selected dose compartment was removed by a '
                           'switch to the direct route')
                case.equal(M.n_outputs(), len(sq), 'n_outputs after the selected dose compartment was removed')
                case.labels.append('admin:direct_after_dose_compartment_output')
            # (compartments first, then the states of 'global': variables declared by a rate rule, without a unit)
            if admin['comp'] < len(ms['comps']):
                comp = ms['comps'][admin['comp']]
                M.set_administration(comp['id'], amount_var='%s_amount' % comp['sid'], direct=admin['direct'])
            else:
                M.set_administration('global', amount_var=ms['gstates'][admin['comp'] - len(ms['comps'])]['id'],
                                     direct=admin['direct'])
            if admin.get('reg'):
                r = admin['reg']
                if admin.get('reg_decoy'):
                    M.set_dosing_regimen(dose=3.3, start=0.1, duration=0.2, period=0.5, num=2)
                if not (s['fixed'] and admin.get('reg_late')):
                    M.set_dosing_regimen(dose=r['dose'], start=r['start'], duration=r['duration'], period=r['period'],
                                         num=r['num'])
                events = sbmlgen.regimen_events(r['dose'], r['start'], r['duration'], r['period'], r['num'],
                                                float(times[-1]) + 1.0)
            names = sbmlgen.published_parameters(ms, admin)
            case.equal(M.parameters(), [pmap_first.get(n, n) for n in names],
                       'published parameters after set_administration (names assigned before are kept)')
            case.equal(M.n_parameters(), len(names), 'n_parameters after set_administration')
        if 'administration' not in case.checked:
            return

    outputs = s['outputs'] if s['outputs'] is not None else sorted(sq)
    if s['outputs'] is not None:
        with case.clause('set_outputs'):
            selection = list(outputs)
            M.set_outputs(selection)
            # the caller goes on using their list (sorts it, extends it for another model, clears it)
            selection.reverse()
            selection.append('not an output')
            del selection[:]
            case.equal(M.outputs(), list(outputs), 'outputs after set_outputs (and after the caller changed their list)')
            case.equal(M.n_outputs(), len(outputs), 'n_outputs after set_outputs')
        if 'set_outputs' not in case.checked:
            return

    pub_names = [pmap_first.get(n, n) for n in names]
    pub_out = list(outputs)
    if s['rename']:
        with case.clause('rename'):
            if not pmap_first:
                pmap = {names[i]: 'renamed parameter no. %d (a long display name)' % i for i in s['rename']['params']}
                M.set_parameter_names(pmap)
                pub_names = [pmap.get(n, n) for n in names]
            case.equal(M.parameters(), pub_names, 'parameter names after renaming keep their positions')
            if s['rename']['outputs']:
                omap = {outputs[0]: 'O_first'}
                M.set_output_names(omap)
                pub_out = [omap.get(o, o) for o in outputs]
                case.equal(M.outputs(), pub_out, 'output names after renaming keep their positions')
        if 'rename' not in case.checked:
            return

    obj = M
    free = list(range(len(names)))
    if s['fixed']:
        with case.clause('reduce'):
            obj = chi.ReducedMechanisticModel(M)
            obj.fix_parameters({pub_names[int(i)]: float(v) for i, v in s['fixed'].items()})
            free = [i for i in range(len(names)) if str(i) not in s['fixed']]
            case.equal(obj.parameters(), [pub_names[i] for i in free], 'free parameter names')
            case.equal(obj.n_parameters(), len(free), 'free parameter count')
            if admin and admin.get('reg') and admin.get('reg_late'):
                # the regimen is set through the reduced model (parameters were fixed first)
                r = admin['reg']
                obj.set_dosing_regimen(dose=r['dose'], start=r['start'], duration=r['duration'], period=r['period'],
                                       num=r['num'])
                case.labels.append('regimen_through_reduced_model')
        if 'reduce' not in case.checked:
            return

    def full(z_free):
        z = np.array(theta, dtype=complex if np.iscomplexobj(z_free) else float)
        for k, i in enumerate(free):
            z[i] = z_free[k]
        return z

    want = np.real(sbmlgen.ref_simulate(ms, theta, times, outputs, admin, events))
    with case.clause('simulate'):
        got = np.asarray(obj.simulate(theta[free].copy(), times.copy()), dtype=float)
        case.equal(got.shape, (len(outputs), len(times)), 'output shape', kind='shape')
        case.close(got, want, rtol=1e-6, atol=1e-9, what='simulated outputs vs closed form')

    if s['sens']:
        with case.clause('sensitivities'):
            obj.enable_sensitivities(True)
            case.true(obj.has_sensitivities(), 'has_sensitivities() is False after enabling')
            out, sens = obj.simulate(theta[free].copy(), times.copy())
            sens = np.asarray(sens, dtype=float)
            case.equal(sens.shape, (len(times), len(outputs), len(free)), 'sensitivity shape', kind='shape')
            case.close(out, want, rtol=1e-6, atol=1e-9, what='outputs returned with sensitivities')
            ws = _cgrad_outputs(lambda z: sbmlgen.ref_simulate(ms, full(z), times, outputs, admin, events), theta[free])
            case.close(sens, ws, rtol=1e-5, atol=1e-8,
                       what='d output / d (free) parameter, columns in published order')
            if not s.get('refix'):
                obj.enable_sensitivities(False)
                again = np.asarray(obj.simulate(theta[free].copy(), times.copy()), dtype=float)
                case.close(again, want, rtol=1e-6, atol=1e-9, what='outputs after disabling sensitivities')

    if s['sens'] and not s['fixed'] and len(names) >= 2:
        # a direct request for a subset, named in another order than the model's: the columns follow the model's
        # parameter order (what ReducedMechanisticModel and the likelihoods rely on)
        with case.clause('sensitivity_subset'):
            idx = [i for i in range(len(names)) if i % 2 == 0 or i == len(names) - 1]
            req = [pub_names[i] for i in reversed(idx)]
            M.enable_sensitivities(True, parameter_names=np.array(req) if len(idx) % 2 else req)
            out, sens = M.simulate(theta.copy(), times.copy())
            sens = np.asarray(sens, dtype=float)
            case.equal(sens.shape, (len(times), len(outputs), len(idx)), 'sensitivity shape for a subset', kind='shape')
            ws = _cgrad_outputs(lambda z: sbmlgen.ref_simulate(ms, z, times, outputs, admin, events), theta)
            case.close(sens, ws[:, :, idx], rtol=1e-5, atol=1e-8,
                       what='d output / d parameter for the subset %r (requested as %r), columns in model order' % (
                           [pub_names[i] for i in idx], req))
            case.close(out, want, rtol=1e-6, atol=1e-9, what='outputs returned with a sensitivity subset')
            M.enable_sensitivities(False)

    if s.get('refix'):
        rf = s['refix']
        with case.clause('refix'):
            d = {pub_names[i]: None for i in rf['release']}
            d.update({pub_names[i]: float(theta[i]) for i in rf['fix']})
            obj.fix_parameters(d)
            still = [int(i) for i in s['fixed'] if int(i) not in rf['release']] + list(rf['fix'])
            free = [i for i in range(len(names)) if i not in still]
            if len(free) == len(s['fixed']) and rf['release'] and rf['fix']:
                case.labels.append('refix:same_count')
            case.equal(obj.parameters(), [pub_names[i] for i in free], 'free parameter names after the second '
                                                                       'fix_parameters call')
            case.equal(obj.n_parameters(), len(free), 'free parameter count after the second fix_parameters call')
            res = obj.simulate(theta[free].copy(), times.copy())
            if s['sens']:
                case.true(obj.has_sensitivities(), 'sensitivities were switched off by fix_parameters')
                out, sens = res
                sens = np.asarray(sens, dtype=float)
                case.equal(sens.shape, (len(times), len(outputs), len(free)), 'sensitivity shape after the second '
                                                                             'fix_parameters call', kind='shape')
                ws = _cgrad_outputs(lambda z: sbmlgen.ref_simulate(ms, full(z), times, outputs, admin, events), theta[free])
                case.close(sens, ws, rtol=1e-5, atol=1e-8, what='d output / d (free) parameter after releasing %s '
                           'and fixing %s in one call' % ([pub_names[i] for i in rf['release']],
                                                          [pub_names[i] for i in rf['fix']]))
            else:
                out = res
            case.close(np.asarray(out, dtype=float), want, rtol=1e-6, atol=1e-9,
                       what='outputs after the second fix_parameters call')

    # the outputs are selected again AFTER sensitivities were enabled (on the reduced model, too): whatever
    # has_sensitivities() then reports, simulate answers accordingly, with one column per FREE parameter
    if s['sens'] and s['outputs'] is not None and not (s['rename'] and s['rename']['outputs']):
        with case.clause('outputs_after_sensitivities'):
            obj.enable_sensitivities(True)
            outs2 = list(reversed(outputs))
            obj.set_outputs(list(outs2))
            case.equal(obj.outputs(), outs2, 'outputs after selecting them again with sensitivities enabled')
            want2 = np.real(sbmlgen.ref_simulate(ms, full(theta[free]), times, outs2, admin, events))
            res = obj.simulate(theta[free].copy(), times.copy())
            if obj.has_sensitivities():
                case.true(isinstance(res, tuple) and len(res) == 2, 'has_sensitivities() is True after set_outputs, '
                          'but simulate returns no sensitivities', kind='type')
                out, sens = res
                sens = np.asarray(sens, dtype=float)
                case.equal(sens.shape, (len(times), len(outs2), len(free)),
                           'sensitivity shape after set_outputs on a model with enabled sensitivities', kind='shape')
                ws = _cgrad_outputs(lambda z: sbmlgen.ref_simulate(ms, full(z), times, outs2, admin, events), theta[free])
                case.close(sens, ws, rtol=1e-5, atol=1e-8, what='d output / d (free) parameter after set_outputs on a '
                           'model with enabled sensitivities')
            else:
                case.true(not isinstance(res, tuple), 'has_sensitivities() is False after set_outputs, but simulate '
                          'returns a tuple', kind='type')
                out = res
            case.close(np.asarray(out, dtype=float), want2, rtol=1e-6, atol=1e-9,
                       what='outputs after selecting them again with sensitivities enabled')
            obj.set_outputs(list(outputs))
            obj.enable_sensitivities(False)

    # a whole-number free vector typed as integers (list of Python ints, int array) is the same vector
    with case.clause('integer_vector'):
        th_i = theta.copy()
        th_i[free] = np.maximum(1, np.round(theta[free]))
        if obj.has_sensitivities():
            obj.enable_sensitivities(False)
        ref_i = np.real(sbmlgen.ref_simulate(ms, th_i, times, outputs, admin, events))
        for label, arg in (('floats', th_i[free].copy()), ('a list of Python ints', [int(v) for v in th_i[free]]),
                           ('an int array', th_i[free].astype(int))):
            out = np.asarray(obj.simulate(arg, times.copy()), dtype=float)
            case.close(out, ref_i, rtol=1e-6, atol=1e-9, what='outputs at a whole-number free vector given as %s (fixed '
                                                              'values %s)' % (label, 'present' if len(free) < len(theta) else 'none'))

    # a copy taken after the model was simulated behaves like the model (same vector, and another one)
    with case.clause('copy_after_simulate'):
        cp = obj.copy()
        for f in (1.0, 1.1):
            th = theta.copy() * f
            res = cp.simulate(th[free].copy(), times.copy())
            out = res[0] if isinstance(res, tuple) else res
            ref_th = theta.copy()
            ref_th[free] = th[free]
            case.close(np.asarray(out, dtype=float),
                       np.real(sbmlgen.ref_simulate(ms, ref_th, times, outputs, admin, events)), rtol=1e-6, atol=1e-9,
                       what='outputs of a copy taken after simulating (parameters x %.1f)' % f)
        # ... and the ORIGINAL keeps its configuration (also its dosing regimen) when its simulator is rebuilt afterwards
        obj.enable_sensitivities(True)
        res_o = obj.simulate(theta[free].copy(), times.copy())
        case.close(np.asarray(res_o[0], dtype=float), want, rtol=1e-6, atol=1e-9,
                   what='outputs of the original after it was copied and its sensitivities were enabled')
        obj.enable_sensitivities(False)
        case.close(np.asarray(obj.simulate(theta[free].copy(), times.copy()), dtype=float), want, rtol=1e-6, atol=1e-9,
                   what='outputs of the original after it was copied and its sensitivities were switched off again')


RULE += (' Classes and clauses added in later rounds of the seeded-change protocol (DESIGN 9.4) are named in REQUIRED '
         'and in seeded/HISTORY.json; the evidence counts every one of them under classes.')
