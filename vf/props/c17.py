"""C17 - Parameter counts, names, vector lengths and gradient lengths always agree."""
import itertools

import numpy as np
from hypothesis import strategies as st

from vf import gen, ref, popgen, llbuild, hbuild, sbmlgen

ID = 'C17'
BUDGET = {'quick': 2400, 'thorough': 100000}
EXHAUSTIVE = {'quick': True, 'thorough': True}
RULE = (
    'Objects produced by the builders of C01/C02/C05/C07/C13/C14/C15: error models (+reduced), population models over '
    'the full grammar with a PROGRAM of reconfiguration calls (set_n_ids, set_dim_names, set_parameter_names, '
    'fix_parameters / release through ReducedPopulationModel, set_population_parameters of covariate models), '
    'individual likelihoods / posteriors, hierarchical likelihoods / posteriors (default naming: no dimension names '
    'supplied), population-filter posteriors, predictive and population predictive models, problem controllers (after '
    'set_population_model / fix_parameters / set_data in either order) and PKPD models after set_outputs / '
    'set_administration. EXHAUSTIVE tier: every composition of <= 2 (quick) / <= 3 (thorough) elementary sub-models '
    '(7 kinds x n_dim in {1,2} x optional covariate wrapper) x n_ids in {1,2,3} as population model and as '
    'hierarchical likelihood. Oracle: the internal consistency the property states (an invariant), the layout model for '
    '"IDs mark exactly the individual-level entries". Non-trivial: composite with >=2 sub-models or >=1 '
    'reconfiguration. Distinct = structural projection.')
RULE += (' ' + 'Added: enumerated [fix k, set_n_ids ...] programs; display names and fixed parameters (ReducedMechanisticModel) in mechanistic histories.')
ASSUMPTIONS = [
    '"accepted vector length" is decided by evaluating the object at a vector of the reported length (no exception, '
    'gradient of that length); parameter VALUES are irrelevant here (positive values are used; -inf scores are fine)',
    'analytic mechanistic model is harness code; reference integrator for PKPD models']
REQUIRED = ['kind:em', 'kind:pop', 'kind:ll', 'kind:hier', 'kind:fpost', 'kind:pred', 'kind:ctrl', 'kind:mech',
            'reconfigured', 'exhaustive', 'op:set_n_ids', 'op:fix', 'op:set_dim_names', 'op:set_parameter_names',
            'op:set_population_parameters', 'op:rejected_selection', 'rejected_selection:cov',
            'pred:reduced_error_models:multi_output'] + \
           ['controller_program:%s' % k for k in ('hetero_first', 'hetero_middle', 'hetero_only', 'no_hetero', 0, 1, 2, 3, 4, 5, 6)]
POP_OPS = ['set_n_ids', 'set_dim_names', 'set_parameter_names', 'fix', 'release', 'set_population_parameters',
           'rejected_selection', 'wrap']


# ---- exhaustive enumeration ------------------------------------------------------------------
def _leaf_types():
    out = []
    for kind in popgen.ELEM_KINDS:
        for centered in ([True, False] if kind in ('gauss', 'lognorm') else [True]):
            for d in (1, 2):
                e = dict(kind=kind, n_dim=d)
                if kind in ('gauss', 'lognorm'):
                    e['centered'] = centered
                out.append(e)
                out.append(dict(kind='cov', base=e, n_cov=1, sel=None))
    return out


def extra_cases(tier):
    leaves = _leaf_types()
    max_parts = 2 if tier == 'quick' else 3
    out = []
    for n in range(1, max_parts + 1):
        for combo in itertools.product(range(len(leaves)), repeat=n):
            for n_ids in (1, 2, 3):
                pop = dict(kind='comp', parts=[leaves[i] for i in combo]) if n > 1 else leaves[combo[0]]
                out.append(dict(kind='enum', pop=pop, n_ids=n_ids))
    # bounded-exhaustive reconfiguration programs: every <=2-part composition of one-dimensional elementary
    # models, every single parameter fixed by name, then the number of individuals changed (and changed back)
    elem = [e for e in leaves if e['kind'] != 'cov' and e['n_dim'] == 1]
    for n in (1, 2):
        for combo in itertools.product(range(len(elem)), repeat=n):
            pop = dict(kind='comp', parts=[elem[i] for i in combo])
            n_par = ref.pop_n_par(pop, 2)
            for k in range(n_par):
                for seq in ([2], [0], [2, 1]):          # set_n_ids(3) / (1) / (3) then (2)
                    prog = [['fix', k]] + [['set_n_ids', a] for a in seq]
                    out.append(dict(kind='pop', pop=pop, n_ids=2, prog=prog, enumerated=True))
            # the same compositions inside a reduced model in which nothing is fixed, or nothing any more
            for head in ([['wrap', 0]], [['fix', 0], ['release', 0]]):
                for seq in ([2], [0], [2, 1]):
                    out.append(dict(kind='pop', pop=pop, n_ids=2, prog=head + [['set_n_ids', a] for a in seq],
                                    enumerated=True))
    # names given and reset to the defaults again, on models whose parameters form an (individuals x dimensions) table
    for pop in (dict(kind='hetero', n_dim=2), dict(kind='hetero', n_dim=3),
                dict(kind='comp', parts=[dict(kind='hetero', n_dim=2), dict(kind='gauss', n_dim=2, centered=True)]),
                dict(kind='comp', parts=[dict(kind='pooled', n_dim=2), dict(kind='hetero', n_dim=2)])):
        for n_ids in (2, 3):
            for prog in ([['set_parameter_names', 0]], [['set_parameter_names', 1], ['set_parameter_names', 0]],
                         [['set_n_ids', n_ids], ['set_parameter_names', 0]]):
                out.append(dict(kind='pop', pop=pop, n_ids=n_ids, prog=prog, enumerated=True))
    # a composition with a part that is itself a reduced model around a heterogeneous model: the number of individuals
    # goes up and back down to ONE (the value a reduced wrapper reports for itself at any time)
    for pop in (dict(kind='comp', parts=[dict(kind='red', base=dict(kind='hetero', n_dim=1), fixed=[0], values=[0.7]),
                                         dict(kind='gauss', n_dim=1, centered=True)]),
                dict(kind='comp', parts=[dict(kind='gauss', n_dim=1, centered=True),
                                         dict(kind='red', base=dict(kind='hetero', n_dim=2), fixed=[1], values=[0.7])])):
        for prog in ([['set_n_ids', 2], ['set_n_ids', 0]], [['set_n_ids', 3], ['set_n_ids', 0], ['set_n_ids', 1]],
                     [['set_n_ids', 0]]):
            out.append(dict(kind='pop', pop=pop, n_ids=2, prog=prog, enumerated=True))
    # hierarchical likelihoods over a population model that is still configured for ONE individual when it is handed
    # over (heterogeneous part, plain and inside a reduced model with a parameter fixed by name), 2-3 individuals
    for n_ids in (2, 3):
        for red in (False, True):
            for default_names in (True, False):
                base = dict(kind='comp', parts=[dict(kind='hetero', n_dim=1), dict(kind='gauss', n_dim=1, centered=True)])
                pop = dict(kind='red', base=base, fixed=[n_ids + 1], values=[0.4]) if red else base
                ll = dict(n_out=1, n_par=1, ems=[dict(kind='gauss', fixed=None)], times=[[0.5, 1.0]], obs=[[1.0, 1.4]],
                          tmode='single', tied=False)
                n_top = n_ids + (1 if red else 2)
                out.append(dict(kind='hier', pop=pop, n_ids=n_ids, lls=[ll] * n_ids, ids=None, cov=None,
                                vec=[0.5 + 0.1 * i for i in range(n_ids)] + [1.0 + 0.2 * i for i in range(n_ids)] +
                                    ([0.5] if red else [0.5, 0.4]),
                                prior=[dict(kind='lognormal', a=0.0, b=1.0)] * n_top, late=True,
                                default_names=default_names, enumerated=True))
    # every history of length <= 4 (quick: <= 3 plus all of length 4 that start with 'S1') over
    # {sensitivities on, fix, release all, display name, indirect route, outputs} on one small generated model
    for L in range(1, 5):
        for seq in itertools.product(['S1', 'F', 'U', 'NP', 'A1', 'O1'], repeat=L):
            if L == 4 and tier == 'quick' and seq[0] != 'S1':
                continue
            out.append(dict(kind='mech', ms=MECH_MS, ops=list(seq), enumerated=True))
    return out


MECH_MS = dict(comps=[dict(id='zeta', size=1.3, sid='drug', init=0.8)], gstates=[dict(id='Wx', init=1.5)],
               consts=[dict(id='k_b', value=0.3), dict(id='Ka', value=0.7)], derived=[],
               flows=[dict(src=0, dst=1, rate='Ka'), dict(src=1, dst=None, rate='k_b')],
               inter=[dict(id='obs', terms=[[2.0, 0], [0.5, 1]])],
               perm=dict(species=[0], params=[3, 0, 2, 1], rules=[2, 0, 1], comps=[0]))


@st.composite
def _spec(draw):
    kind = draw(st.sampled_from(['pop', 'hier', 'll', 'em', 'pred', 'ctrl', 'mech', 'fpost', 'pop', 'hier']))
    if kind == 'em':
        k = draw(st.sampled_from(llbuild.EM_KINDS))
        fixed = draw(gen.subset(ref.EM_NPAR[k])) if draw(st.booleans()) else None
        return dict(kind='em', em=k, fixed=fixed, n=draw(st.integers(1, 5)), p=draw(st.integers(0, 4)))
    if kind == 'pop':
        n_ids = draw(st.integers(1, 4))
        pop = popgen.draw_pop(draw, n_ids, p_nested=0.1)
        prog = []
        for _ in range(draw(st.integers(0, 5))):
            op = POP_OPS[draw(st.integers(0, len(POP_OPS) - 1))]
            prog.append([op, draw(st.integers(0, 10 ** 6))])
        if popgen.has(pop, 'cov') and gen.chance(draw, 0.5):
            prog.insert(draw(st.integers(0, len(prog))), ['rejected_selection', draw(st.integers(0, 10 ** 6))])
        return dict(kind='pop', pop=pop, n_ids=n_ids, prog=prog)
    if kind == 'll':
        ll = llbuild.draw_ll(draw)
        return dict(kind='ll', ll=ll, posterior=draw(st.booleans()))
    if kind == 'hier':
        h = hbuild.draw_hier(draw, with_prior=True)
        h['kind'] = 'hier'
        h['default_names'] = draw(st.booleans())
        return h
    if kind == 'fpost':
        from vf.props import c13
        s = draw(c13._spec())
        return dict(kind='fpost', fp=s)
    if kind == 'pred':
        ll = llbuild.draw_ll(draw, p_fixed=0)
        n_dim = llbuild.ll_n_parameters(ll)
        pop = popgen.draw_pop_for_dim(draw, n_dim, 2) if draw(st.booleans()) else None
        fix = draw(st.booleans())
        return dict(kind='pred', ll=ll, pop=pop, fix=fix)
    if kind == 'ctrl':
        from vf.props import c14
        s = draw(c14._spec())
        return dict(kind='ctrl', c=s)
    ms = sbmlgen.draw_model(draw, max_states=4)
    ops = [draw(st.sampled_from(['A0', 'A1', 'O0', 'O1', 'S1', 'NP', 'F', 'F', 'U'])) for _ in range(draw(st.integers(0, 7)))]
    return dict(kind='mech', ms=ms, ops=ops)


def strategy(tier):
    return _spec()


def classify(spec):
    k = spec['kind']
    labs = ['kind:' + ('pop' if k == 'enum' else k)]
    if k == 'enum' or spec.get('enumerated'):
        labs.append('exhaustive')
    if k == 'pop' and spec['prog']:
        labs.append('reconfigured')
        labs += ['op:' + op for op, _ in spec['prog']]
    if k == 'mech' and spec['ops']:
        labs.append('reconfigured')
    if k == 'ctrl':
        labs.append('reconfigured')
    return sorted(set(labs))


def nontrivial(spec):
    k = spec['kind']
    if k in ('enum', 'pop', 'hier'):
        pop = spec['pop']
        return (pop['kind'] == 'comp' and len(pop['parts']) >= 2) or bool(spec.get('prog'))
    if k in ('mech',):
        return bool(spec['ops'])
    if k == 'em':
        return spec['fixed'] is not None
    return True


def structure(spec):
    k = spec['kind']
    if k in ('enum', 'pop'):
        return [k, popgen.structure(spec['pop']), spec['n_ids'], [op for op, _ in spec.get('prog', [])]]
    if k == 'hier':
        return [k, hbuild.structure(spec), spec['default_names']]
    if k == 'll':
        return [k, llbuild.ll_structure(spec['ll']), spec['posterior']]
    if k == 'em':
        return [k, spec['em'], spec['fixed'], spec['n'], spec['p']]
    if k == 'pred':
        return [k, llbuild.ll_structure(spec['ll']), popgen.structure(spec['pop']) if spec['pop'] else None, spec['fix']]
    if k == 'ctrl':
        from vf.props import c14
        return [k, c14.structure(spec['c'])]
    if k == 'fpost':
        from vf.props import c13
        return [k, c13.structure(spec['fp'])]
    return [k, sbmlgen.structure(spec['ms']), spec['ops']]


# ---- invariants ---------------------------------------------------------------------------------
def pop_invariants(case, m, n_ids, what):
    """n_parameters == len(names) == accepted vector length; reduced-gradient length ==
    sum(n_hierarchical_parameters(n_ids))."""
    n = m.n_parameters()
    names = m.get_parameter_names()
    case.equal(len(names), n, '%s: len(get_parameter_names()) vs n_parameters()' % what)
    case.equal(len(m.get_parameter_names(exclude_dim_names=True)), n, '%s: len(names without dimension names)' % what)
    n_dim = m.n_dim()
    case.equal(len(m.get_dim_names()), n_dim, '%s: len(get_dim_names()) vs n_dim()' % what)
    n_cov = m.n_covariates()
    case.equal(len(m.get_covariate_names()), n_cov, '%s: len(get_covariate_names()) vs n_covariates()' % what)
    nb, nt = [int(v) for v in m.n_hierarchical_parameters(n_ids)]
    case.equal(nt, n, '%s: population part of n_hierarchical_parameters vs n_parameters()' % what)
    theta = np.array([0.7 + 0.13 * k for k in range(n)])
    x = np.array([[0.9 + 0.11 * i + 0.07 * d for d in range(n_dim)] for i in range(n_ids)])
    cov = np.array([[0.3 * (i + 1) - 0.2 * c for c in range(n_cov)] for i in range(n_ids)]) if n_cov else None
    kw = {} if cov is None else {'covariates': cov}
    val = m.compute_log_likelihood(theta.copy(), x.copy(), **kw)
    case.true(np.ndim(val) == 0, '%s: log-likelihood of a vector of the reported length is not a scalar' % what)
    psi = m.compute_individual_parameters(theta.copy(), x.copy(), **kw)
    case.equal(np.shape(psi), (n_ids, n_dim), '%s: shape of individual parameters' % what, kind='shape')
    out = m.compute_sensitivities(theta.copy(), x.copy(), reduce=True, **kw)
    case.equal(len(np.asarray(out[1])), nb + nt, '%s: length of the reduced gradient vs sum(n_hierarchical_parameters)' % what,
               kind='shape')
    out = m.compute_sensitivities(theta.copy(), x.copy(), **kw)
    case.equal(np.shape(out[1]), (n_ids, n_dim), '%s: dpsi shape' % what, kind='shape')
    case.equal(np.shape(out[2]), (n,), '%s: dtheta length vs n_parameters()' % what, kind='shape')


def hier_invariants(case, H, n_ids, what, posterior=None, default_names=False, x=None):
    obj = posterior if posterior is not None else H
    n = obj.n_parameters()
    names = obj.get_parameter_names()
    ids = obj.get_id()
    case.equal(len(names), n, '%s: len(names) vs n_parameters()' % what)
    case.equal(len(ids), n, '%s: len(get_id()) vs n_parameters()' % what)
    n_top = obj.n_parameters(exclude_bottom_level=True)
    case.equal(len(obj.get_parameter_names(exclude_bottom_level=True)), n_top, '%s: top-level names vs count' % what)
    nb = n - n_top
    case.true(all(i is not None for i in ids[:nb]) and all(i is None for i in ids[nb:]),
              '%s: get_id() is not None exactly on the %d bottom-level entries: %r' % (what, nb, ids))
    case.equal(nb % n_ids, 0, '%s: bottom-level entries per individual' % what)
    uniq = obj.get_id(unique=True)
    case.equal(len(uniq), n_ids, '%s: len(get_id(unique=True))' % what)
    case.equal(ids[:nb], [u for u in uniq for _ in range(nb // n_ids)], '%s: ids of the bottom block' % what)
    with_ids = obj.get_parameter_names(include_ids=True)
    case.equal(len(with_ids), n, '%s: len(names incl. ids)' % what)
    case.equal(len(set(with_ids)), len(with_ids), '%s: names prefixed by their ID are pairwise distinct: %r' % (what, with_ids))
    pm = obj.get_population_model()
    case.equal(names[nb:], pm.get_parameter_names(), '%s: top-level names = population model names' % what)
    if x is None:
        x = np.array([0.8 + 0.07 * k for k in range(n)])
    case.equal(len(x), n, '%s: length of the supplied in-support vector vs n_parameters()' % what)
    val = obj(x.copy())
    case.true(np.ndim(val) == 0, '%s: score of a vector of the reported length is not a scalar' % what)
    sc, g = obj.evaluateS1(x.copy())
    case.equal(len(np.asarray(g)), n, '%s: gradient length vs n_parameters()' % what, kind='shape')


def _ctrl_pops():
    import chi
    return [
        ('hetero_first', lambda: chi.ComposedPopulationModel([chi.HeterogeneousModel(n_dim=1),
                                                              chi.GaussianModel(n_dim=2)])),
        ('hetero_middle', lambda: chi.ComposedPopulationModel([chi.PooledModel(n_dim=1), chi.HeterogeneousModel(n_dim=1),
                                                               chi.LogNormalModel(n_dim=1)])),
        ('hetero_only', lambda: chi.HeterogeneousModel(n_dim=3)),
        ('no_hetero', lambda: chi.ComposedPopulationModel([chi.PooledModel(n_dim=1), chi.GaussianModel(n_dim=2)])),
    ]


_CTRL_PROGRAMS = [('pop', 'fix', 'data3'), ('data2', 'pop', 'fix', 'data4'), ('pop', 'data2', 'fix', 'data3'),
                  ('pop', 'data3', 'fix'), ('data3', 'pop', 'fix', 'data1'), ('pop', 'fix', 'data2', 'fix', 'data2'),
                  ('data4', 'pop', 'fix', 'fix', 'data2', 'pop')]


def _controller_programs(case, pick):
    """A controller that is reconfigured (population model, fixed population parameters, data sets of other sizes) in
    one of the enumerated orders: after every step the reported count equals the number of names and the size of the
    predictive model; once data are set, it is the count of the population model for that many individuals (setting
    data releases the fixed parameters, documented) and the size of the prior the controller accepts and of the
    posterior it builds."""
    import pandas as pd
    import pints
    from vf.analytic_model import AnalyticModel
    import chi
    pops = _ctrl_pops()
    pname, build = pops[pick % len(pops)]
    prog = _CTRL_PROGRAMS[(pick // len(pops)) % len(_CTRL_PROGRAMS)]
    with case.clause('controller_program'):
        case.labels.append('controller_program:%s' % pname)
        case.labels.append('controller_program:%d' % _CTRL_PROGRAMS.index(prog))
        ctrl = chi.ProblemModellingController(AnalyticModel(1, 2), [chi.GaussianErrorModel()])
        n_ids, has_pop, n_fixed = None, False, 0
        for step, op in enumerate(prog):
            what = 'program %s over %s, after step %d (%s)' % ('/'.join(prog), pname, step + 1, op)
            if op == 'pop':
                ctrl.set_population_model(build())
                has_pop, n_fixed = True, 0
            elif op == 'fix':
                names = ctrl.get_parameter_names()
                ctrl.fix_parameters({names[-1]: 0.7})
                n_fixed += 1
            else:
                n_ids = int(op[4:])
                ctrl.set_data(pd.DataFrame(dict(
                    ID=[i for i in range(1, n_ids + 1) for _ in range(3)], Time=[0.5, 1.0, 2.0] * n_ids,
                    Observable=['y'] * (3 * n_ids), Value=[1.0 + 0.1 * k for k in range(3 * n_ids)])),
                    output_observable_dict={ctrl.get_predictive_model().get_output_names()[0]: 'y'})
                n_fixed = 0 if has_pop else n_fixed
            n = ctrl.get_n_parameters()
            case.equal(len(ctrl.get_parameter_names()), n, '%s: len(names) vs get_n_parameters()' % what)
            case.equal(ctrl.get_predictive_model().n_parameters(), n, '%s: predictive model vs controller' % what)
            twin = build() if has_pop else None
            if twin is not None:
                twin.set_n_ids(n_ids if n_ids is not None else 1)
                if n_ids is not None:
                    case.equal(n, twin.n_parameters() - n_fixed, '%s: count vs the population model configured for %d '
                               'individuals with %d fixed parameter(s)' % (what, n_ids, n_fixed))
            if n_ids is not None and not case.fails:
                ctrl.set_log_prior(pints.ComposedLogPrior(*[pints.LogNormalLogPrior(0.0, 1.0) for _ in range(n)]))
                P = ctrl.get_log_posterior()
                if has_pop:
                    case.equal(P.n_parameters(exclude_bottom_level=True), n, '%s: posterior top-level count vs controller'
                               % what)
                    case.equal(len(P.get_parameter_names()), P.n_parameters(), '%s: posterior names vs count' % what)
                    case.equal(len(P.get_id()), P.n_parameters(), '%s: posterior IDs vs count' % what)
                else:
                    Ps = P if isinstance(P, list) else [P]
                    for q in Ps:
                        case.equal(q.n_parameters(), n, '%s: posterior count vs controller' % what)
                if n_fixed:
                    # (fixing resets the prior: the next step starts without one, as after every fix)
                    pass
            if case.fails:
                return


def check(case):
    import chi
    s = case.spec
    kind = s['kind']

    if kind == 'em':
        with case.clause('error_model'):
            em = ref.em_class(s['em'])()
            names0 = em.get_parameter_names()
            free = list(range(len(names0)))
            if s['fixed'] is not None:
                em = chi.ReducedErrorModel(em)
                em.fix_parameters({names0[k]: 0.5 + 0.1 * k for k in s['fixed']})
                free = [k for k in free if k not in s['fixed']]
            n = em.n_parameters()
            case.equal(n, len(free), 'n_parameters')
            case.equal(len(em.get_parameter_names()), n, 'len(names) vs n_parameters()')
            ybar = np.array([1.0 + 0.3 * j for j in range(s['n'])])
            y = ybar * 1.1
            S = np.ones((s['n'], s['p']))
            sig = np.array([0.4 + 0.1 * k for k in range(n)])
            case.true(np.ndim(em.compute_log_likelihood(sig, ybar, y)) == 0, 'score not a scalar')
            case.equal(len(em.compute_pointwise_ll(sig, ybar, y)), s['n'], 'pointwise length', kind='shape')
            sc, g = em.compute_sensitivities(sig, ybar, S, y)
            case.equal(len(g), s['p'] + n, 'gradient length = mechanistic columns + n_parameters()', kind='shape')
            case.equal(np.shape(em.sample(sig, ybar, n_samples=3, seed=1)), (s['n'], 3), 'sample shape', kind='shape')
        return

    if kind in ('enum', 'pop'):
        pop, n_ids = s['pop'], s['n_ids']
        with case.clause('construct'):
            m = ref.build_pop(pop, None, n_ids)
            m.set_n_ids(n_ids)
        if case.fails:
            return
        with case.clause('population_model'):
            case.equal(m.n_parameters(), ref.pop_n_par(pop, n_ids), 'n_parameters vs layout')
            case.equal(m.n_dim(), ref.pop_n_dim(pop), 'n_dim vs layout')
            pop_invariants(case, m, n_ids, 'initial')
            for k in (1, 2, 3):
                # "the number of individual and population parameters when k individuals are modelled"
                nbk, ntk, _ = ref.hier_layout(pop, k) if not popgen.has(pop, 'cov') or not popgen.has(pop, 'hetero') \
                    else ref.hier_layout(pop, k)
                if popgen.has(pop, 'cov') and popgen.has(pop, 'hetero') and k != n_ids:
                    continue      # explicit selections of a covariate model refer to the constructed size
                case.equal(tuple(int(v) for v in m.n_hierarchical_parameters(k)), (nbk, ntk),
                           'n_hierarchical_parameters(%d) of a model currently at n_ids=%d' % (k, n_ids))
            if pop['kind'] == 'comp':
                want = []
                for part in m.get_population_models():
                    want += part.get_parameter_names()
                case.equal(m.get_parameter_names(), want, 'composite names = concatenation of the sub-model names in order')
        if kind == 'enum':
            # the same composition inside a hierarchical likelihood with default naming
            with case.clause('hierarchical_default_naming'):
                n_dim = ref.pop_n_dim(pop)
                ll = dict(n_out=1, n_par=n_dim - 1 if n_dim > 1 else 1,
                          ems=[dict(kind='gauss', fixed=None if n_dim > 1 else {'0': 0.5})],
                          times=[[0.5, 1.5]], obs=[[1.0, 2.0]], tmode='single', tied=False)
                lls = [llbuild.build_ll(ll) for _ in range(n_ids)]
                pm = ref.build_pop(pop, None, n_ids)
                cov = None
                if ref.pop_n_cov(pop):
                    cov = np.array([[0.3 * (i + 1) - 0.2 * c for c in range(ref.pop_n_cov(pop))] for i in range(n_ids)])
                H = chi.HierarchicalLogLikelihood(lls, pm, covariates=cov)
                nb, nt, hd = ref.hier_layout(pop, n_ids)
                case.equal(H.n_parameters(), nb + nt, 'hierarchical n_parameters vs layout')
                hier_invariants(case, H, n_ids, 'hierarchical')
            return
        # reconfiguration program
        cur_pop_n_ids = n_ids
        fixed_names = set()
        cur_dims = None               # None = default dimension names
        selection_changed = False
        for step, (op, arg) in enumerate(s['prog']):
            with case.clause('reconfigure'):
                if op == 'set_n_ids':
                    cur_pop_n_ids = 1 + arg % 4
                    m.set_n_ids(cur_pop_n_ids)
                elif op == 'set_dim_names':
                    cur_dims = ['dim%d_%d' % (step, d) for d in range(m.n_dim())] if arg % 3 else None
                    m.set_dim_names(None if cur_dims is None else list(cur_dims))
                elif op == 'set_parameter_names':
                    m.set_parameter_names(['parameter %d renamed in step %d (long name)' % (k, step) for k in range(m.n_parameters())] if arg % 3 else None)
                    if not arg % 3 and not isinstance(m, chi.ReducedPopulationModel) and not selection_changed \
                            and not popgen.has(pop, 'red') and not popgen.has(pop, 'cov'):
                        # names reset to the defaults: every name labels its own (parameter, dimension) entry again
                        # (covariate models fall back to the coefficient names of their covariate model: not stated)
                        dn = cur_dims if cur_dims is not None else [str(v) for v in m.get_dim_names()]
                        case.equal(list(m.get_parameter_names()), ref.pop_names(pop, cur_pop_n_ids, dn),
                                   'default parameter names after set_parameter_names(None) at n_ids=%d' % cur_pop_n_ids)
                elif op == 'fix':
                    if not isinstance(m, chi.ReducedPopulationModel):
                        m = chi.ReducedPopulationModel(m)
                    names = m.get_parameter_names()
                    if len(names) >= 2 and len(set(names)) == len(names):
                        m.fix_parameters({names[arg % len(names)]: 0.6})
                        if fixed_names is not None:
                            fixed_names.add(names[arg % len(names)])
                elif op == 'wrap':
                    # a reduced model in which nothing is fixed (yet)
                    if not isinstance(m, chi.ReducedPopulationModel):
                        m = chi.ReducedPopulationModel(m)
                elif op == 'release':
                    if isinstance(m, chi.ReducedPopulationModel):
                        inner = m.get_population_model().get_parameter_names()
                        m.fix_parameters({nm: None for nm in inner})
                        if fixed_names is not None:
                            fixed_names = set()
                elif op == 'set_population_parameters':
                    target = m.get_population_model() if isinstance(m, chi.ReducedPopulationModel) else m
                    if isinstance(target, chi.CovariatePopulationModel) and not isinstance(m, chi.ReducedPopulationModel):
                        base_n = target._population_model.n_parameters() // target.n_dim()
                        target.set_population_parameters([[arg % base_n, (arg // 7) % target.n_dim()]])
                        selection_changed = True
                elif op == 'rejected_selection':
                    # a configuration call that is rejected changes nothing (the invariants below run on the model
                    # that saw it)
                    target = m.get_population_model() if isinstance(m, chi.ReducedPopulationModel) else m
                    if isinstance(target, chi.ComposedPopulationModel):
                        # (a rejected call on a part changes nothing either)
                        covs = [q for q in target.get_population_models() if isinstance(q, chi.CovariatePopulationModel)]
                        target = covs[arg % len(covs)] if covs else target
                    if isinstance(target, chi.CovariatePopulationModel):
                        base_n = target._population_model.n_parameters() // target.n_dim()
                        bad = [[0, 0], [[base_n, 0], [0, target.n_dim()], [-1, 0]][arg % 3]]
                        case.labels.append('rejected_selection:cov')
                        before = (list(m.get_parameter_names()), m.n_parameters())
                        try:
                            target.set_population_parameters(bad)
                        except IndexError:
                            pass
                        else:
                            case.fail('accepted', 'out-of-range selection %r was accepted' % (bad,))
                        case.equal((list(m.get_parameter_names()), m.n_parameters()), before,
                                   'names and count after a rejected set_population_parameters call')
                if op in ('set_parameter_names', 'set_dim_names', 'set_population_parameters'):
                    fixed_names = None          # names changed: the by-name bookkeeping below no longer applies
                if fixed_names and isinstance(m, chi.ReducedPopulationModel):
                    inner = m.get_population_model().get_parameter_names()
                    # a fixed parameter that ceases to exist (an individual of a heterogeneous part when the number
                    # of individuals shrinks) is forgotten; whether it is fixed again when it reappears is not stated
                    fixed_names = set(nm for nm in fixed_names if nm in inner)
                    if len(set(inner)) == len(inner):
                        still = [nm for nm in inner if nm not in fixed_names]
                        case.equal(m.get_parameter_names(), still,
                                   'free names = names of the wrapped model minus the parameters fixed by name (after %s)'
                                   % op)
                pop_invariants(case, m, cur_pop_n_ids, 'after %s' % ([o for o, _ in s['prog'][:step + 1]],))
            if case.fails:
                return
        return

    if kind == 'll':
        with case.clause('likelihood'):
            L = llbuild.build_ll(s['ll'])
            obj = L
            if s['posterior']:
                n = L.n_parameters()
                obj = chi.LogPosterior(L, llbuild.build_prior([dict(kind='lognormal', a=0.0, b=1.0)] * n))
            n = obj.n_parameters()
            case.equal(len(obj.get_parameter_names()), n, 'len(names) vs n_parameters()')
            case.equal(len(set(obj.get_parameter_names())), n, 'default names are pairwise distinct')
            x = np.array([0.8 + 0.07 * k for k in range(n)])
            case.true(np.ndim(obj(x.copy())) == 0, 'score not scalar')
            sc, g = obj.evaluateS1(x.copy())
            case.equal(len(np.asarray(g)), n, 'gradient length vs n_parameters()', kind='shape')
            case.equal(len(L.compute_pointwise_ll(x.copy())), int(np.sum(L.n_observations())),
                       'pointwise length vs n_observations', kind='shape')
        # reconfiguration by fix_parameters: fix one, then release it and fix another in ONE call (also across the
        # mechanistic / error-parameter boundary), then release: counts, names and accepted lengths agree throughout
        if not s['posterior'] and L.n_parameters() >= 3:
            with case.clause('likelihood_refix'):
                names0 = list(L.get_parameter_names())

                def inv(what, fixed):
                    nn = L.n_parameters()
                    want_names = [nm for nm in names0 if nm not in fixed]
                    case.equal(list(L.get_parameter_names()), want_names, '%s: names' % what)
                    case.equal(nn, len(want_names), '%s: n_parameters()' % what)
                    xx = np.array([0.8 + 0.07 * k for k in range(nn)])
                    v = L(xx.copy())
                    case.true(np.ndim(v) == 0 and np.isfinite(v), '%s: score %r at a vector of the reported length' % (what, v))
                    sc2, g2 = L.evaluateS1(xx.copy())
                    case.equal(len(np.asarray(g2)), nn, '%s: gradient length vs n_parameters()' % what, kind='shape')
                    case.true(bool(np.all(np.isfinite(np.asarray(g2, dtype=float)))), '%s: non-finite gradient' % what)
                a, b = names0[0], names0[-1]
                L.fix_parameters({a: 0.9})
                inv('after fixing %r' % a, [a])
                L.fix_parameters({a: None, b: 0.7})
                inv('after releasing %r and fixing %r in one call' % (a, b), [b])
                L.fix_parameters({b: None})
                inv('after releasing %r' % b, [])
        return

    if kind == 'hier':
        with case.clause('construct'):
            if s['default_names']:
                lls = [llbuild.build_ll(ll, ident=None if s['ids'] is None else s['ids'][i]) for i, ll in enumerate(s['lls'])]
                pm = hbuild.build_population(s, None)
                H = chi.HierarchicalLogLikelihood(
                    lls, pm, covariates=None if s['cov'] is None else np.array(s['cov'], dtype=float))
            else:
                H = hbuild.build_hier(s)
        if case.fails:
            return
        with case.clause('hierarchical'):
            nb, nt, hd = ref.hier_layout(s['pop'], s['n_ids'])
            case.equal(H.n_parameters(), nb + nt, 'n_parameters vs layout')
            hier_invariants(case, H, s['n_ids'], 'hierarchical likelihood')
            P = chi.HierarchicalLogPosterior(H, llbuild.build_prior(s['prior']))
            hier_invariants(case, H, s['n_ids'], 'hierarchical posterior', posterior=P)
        # likelihoods that were labelled by the first hierarchical likelihood are used again at other positions,
        # together with a fresh one: either refused (ValueError) or every individual keeps a distinct ID
        if s['default_names'] and s['ids'] is None and s['n_ids'] >= 2:
            with case.clause('hierarchical_reused_likelihoods'):
                fresh = llbuild.build_ll(s['lls'][-1])
                try:
                    H2 = chi.HierarchicalLogLikelihood(
                        [fresh] + lls[:-1], hbuild.build_population(s, None),
                        covariates=None if s['cov'] is None else np.array(s['cov'], dtype=float))
                except ValueError:
                    H2 = None
                if H2 is not None:
                    uid = list(H2.get_id(unique=True))
                    case.equal(len(set(uid)), s['n_ids'], 'distinct IDs of a hierarchical likelihood built from re-used '
                                                         'likelihoods: %r' % (uid,))
                    named = H2.get_parameter_names(include_ids=True)
                    case.equal(len(set(named)), len(named), 'names with IDs are pairwise distinct (re-used likelihoods)')
        return

    if kind == 'fpost':
        from vf.props import c13
        with case.clause('filter_posterior'):
            P = c13.build(s['fp'])
            hier_like = s['fp']['n_samples']
            n = P.n_parameters()
            names = P.get_parameter_names()
            ids = P.get_id()
            case.equal(len(names), n, 'len(names) vs n_parameters()')
            case.equal(len(ids), n, 'len(get_id()) vs n_parameters()')
            n_top = P.n_parameters(exclude_bottom_level=True)
            case.equal(len(P.get_parameter_names(exclude_bottom_level=True)), n_top, 'top-level names vs count')
            case.true(all(i is None for i in ids[:n_top]) and all(i is not None for i in ids[n_top:]),
                      'get_id() is None exactly on the %d population-level entries' % n_top)
            case.equal(len(P.get_id(unique=True)), hier_like, 'len(get_id(unique=True)) vs n_samples')
            with_ids = P.get_parameter_names(include_ids=True)
            case.equal(len(set(with_ids)), len(with_ids), 'names prefixed by their ID are pairwise distinct')
            x = np.array(s['fp']['vecs'][0], dtype=float)
            case.equal(len(x), n, 'generated vector length vs n_parameters()')
            sc, g = P.evaluateS1(x.copy())
            case.equal(len(np.asarray(g)), n, 'gradient length vs n_parameters()', kind='shape')
        return

    if kind == 'pred':
        with case.clause('predictive'):
            ll = s['ll']
            model = llbuild.build_model(ll)
            pm = chi.PredictiveModel(model, llbuild.build_error_models(ll))
            n = pm.n_parameters()
            case.equal(n, llbuild.ll_n_parameters(ll), 'predictive n_parameters')
            case.equal(pm.get_parameter_names(), llbuild.ll_names(ll), 'predictive names')
            case.equal(pm.get_n_outputs(), len(pm.get_output_names()), 'n_outputs vs len(output names)')
            x = np.array([0.8 + 0.07 * k for k in range(n)])
            out = pm.sample(x, [0.5, 1.0, 2.0], n_samples=2, seed=1, return_df=False)
            case.equal(np.shape(out), (ll['n_out'], 3, 2), 'sample shape', kind='shape')
            if s['fix'] and n >= 2:
                names = pm.get_parameter_names()
                pm.fix_parameters({names[0]: 0.9})
                case.equal(pm.n_parameters(), n - 1, 'n_parameters after fixing')
                case.equal(pm.get_parameter_names(), names[1:], 'names after fixing')
                out = pm.sample(x[1:], [0.5, 1.0], n_samples=2, seed=1, return_df=False)
                case.equal(np.shape(out), (ll['n_out'], 2, 2), 'sample shape after fixing', kind='shape')
                pm.fix_parameters({names[0]: None})
            # error models that are reduced BEFORE the predictive model is built (what the controller hands over after
            # fix_parameters): the free parameters carry the documented names, each once
            ems2, drop, pos = [], [], ll['n_par']
            for e_spec, em in zip(ll['ems'], llbuild.build_error_models(ll)):
                r = chi.ReducedErrorModel(em)
                if ref.EM_NPAR[e_spec['kind']] == 2:
                    r.fix_parameters({em.get_parameter_names()[0]: 0.3})
                    drop.append(pos)
                ems2.append(r)
                pos += ref.EM_NPAR[e_spec['kind']]
            pm2 = chi.PredictiveModel(llbuild.build_model(ll), ems2)
            want2 = [nm for i, nm in enumerate(llbuild.ll_names(ll)) if i not in drop]
            case.equal(pm2.n_parameters(), len(want2), 'n_parameters of a predictive model over reduced error models')
            case.equal(pm2.get_parameter_names(), want2, 'names of a predictive model over reduced error models')
            out = pm2.sample(np.array([0.8 + 0.07 * k for k in range(len(want2))]), [0.5, 1.0], n_samples=2, seed=1,
                             return_df=False)
            case.equal(np.shape(out), (ll['n_out'], 2, 2), 'sample shape over reduced error models', kind='shape')
            if ll['n_out'] >= 2:
                case.labels.append('pred:reduced_error_models:multi_output')
            if s['pop'] is not None:
                pop = s['pop']
                popm = ref.build_pop(pop, pm.get_parameter_names(), 2)
                popm.set_n_ids(2)
                ppm = chi.PopulationPredictiveModel(pm, popm)
                n2 = ppm.n_parameters()
                case.equal(n2, ref.pop_n_par(pop, 2), 'population predictive n_parameters vs layout')
                case.equal(len(ppm.get_parameter_names()), n2, 'len(names) vs n_parameters()')
        return

    if kind == 'ctrl':
        from vf.props import c14
        from vf import simshim
        simshim.install()
        c = s['c']
        with case.clause('controller'):
            df, K = c14.build_frame(c, c['deco'])
            ctrl = c14.build_controller(c, df, K)

            def inv(what):
                n = ctrl.get_n_parameters()
                case.equal(len(ctrl.get_parameter_names()), n, '%s: len(names) vs get_n_parameters()' % what)
                nb_ = ctrl.get_n_parameters(exclude_pop_model=True)
                case.equal(len(ctrl.get_parameter_names(exclude_pop_model=True)), nb_, '%s: bottom names vs count' % what)
                pmod = ctrl.get_predictive_model()
                case.equal(pmod.n_parameters(), n, '%s: predictive model n_parameters vs controller' % what)
                case.equal(len(pmod.get_parameter_names()), n, '%s: predictive model names vs count' % what)
                return n
            n = inv('after set_data')
            if c['fixed']:
                names = ctrl.get_parameter_names()
                ctrl.fix_parameters({names[int(i)]: float(v) for i, v in c['fixed'].items()})
                n = inv('after fix_parameters')
            ctrl.set_log_prior(llbuild.build_prior([dict(kind='lognormal', a=0.0, b=1.0)] * n))
            P = ctrl.get_log_posterior()
            if c['pop'] is not None:
                case.equal(P.n_parameters(exclude_bottom_level=True), n, 'posterior top-level count vs controller')
                # evaluate at the spec's own in-support vector (dummy values could make a PKPD model
                # astronomically stiff, e.g. exp(mu + sigma * eta) as a rate constant)
                vec = np.array(c['vec'], dtype=float)
                nb_ = ref.hier_layout(c['pop'], c['n_ids'])[0]
                top = vec[nb_:]
                fx = {int(k) for k in (c['fixed'] or {})}
                v_free = np.concatenate([vec[:nb_], [v for i, v in enumerate(top) if i not in fx]])
                hier_invariants(case, P.get_log_likelihood(), c['n_ids'], 'controller posterior', posterior=P, x=v_free)
            else:
                case.equal(P.n_parameters(), n, 'posterior count vs controller')
                case.equal(len(P.get_parameter_names()), n, 'posterior names vs count')
        return

    if kind == 'mech':
        from vf import simshim
        simshim.install()
        import zlib
        _controller_programs(case, zlib.crc32(repr((s['ops'], structure(s))).encode()))
        if case.fails:
            return
        with case.clause('mechanistic'):
            ms = s['ms']
            M = sbmlgen.build(ms, chi.PKPDModel)
            sq = sbmlgen.state_qnames(ms)
            comp = ms['comps'][0]

            def inv(what):
                n = M.n_parameters()
                case.equal(len(M.parameters()), n, '%s: len(parameters()) vs n_parameters()' % what)
                case.equal(len(set(M.parameters())), n, '%s: parameter names distinct' % what)
                no = M.n_outputs()
                case.equal(len(M.outputs()), no, '%s: len(outputs()) vs n_outputs()' % what)
                theta = np.array([0.4 + 0.1 * k for k in range(n)])
                t = np.array([0.0, 0.5, 1.0])
                res = M.simulate(theta, t)
                if M.has_sensitivities():
                    case.equal(np.shape(res[0]), (no, 3), '%s: output shape' % what, kind='shape')
                    case.equal(np.shape(res[1]), (3, no, n), '%s: sensitivity shape' % what, kind='shape')
                else:
                    case.equal(np.shape(res), (no, 3), '%s: output shape' % what, kind='shape')
            inv('fresh')
            n_ren = 0
            fixed_names = []
            for i, op in enumerate(s['ops']):
                if op in ('A0', 'A1'):
                    if isinstance(M, chi.ReducedMechanisticModel):
                        continue
                    M.set_administration(comp['id'], amount_var='%s_amount' % comp['sid'], direct=op == 'A0')
                elif op == 'NP':
                    # a display name for the first free parameter
                    n_ren += 1
                    M.set_parameter_names({M.parameters()[0]: 'Display name %d' % n_ren})
                elif op == 'F':
                    # fix the last free parameter (keeps at least one free)
                    if not isinstance(M, chi.ReducedMechanisticModel):
                        M = chi.ReducedMechanisticModel(M)
                    if M.n_parameters() >= 2:
                        fixed_names.append(M.parameters()[-1])
                        M.fix_parameters({M.parameters()[-1]: 0.7})
                elif op == 'U':
                    # release everything that is fixed in one call
                    if isinstance(M, chi.ReducedMechanisticModel) and fixed_names:
                        M.fix_parameters({nm: None for nm in fixed_names})
                        del fixed_names[:]
                elif op == 'O0':
                    M.set_outputs([sq[0]])
                elif op == 'O1':
                    M.set_outputs(list(reversed(sq)) + sbmlgen.intermediate_qnames(ms)[:1])
                else:
                    M.enable_sensitivities(True)
                inv('after %s' % s['ops'][:i + 1])


RULE += (' Classes and clauses added in later rounds of the seeded-change protocol (DESIGN 9.4) are named in REQUIRED '
         'and in seeded/HISTORY.json; the evidence counts every one of them under classes.')
