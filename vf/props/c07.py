"""C07 - Covariate models shift the selected population parameters linearly."""
import itertools

import numpy as np
from hypothesis import strategies as st

from vf import gen, ref, popgen

ID = 'C07'
BUDGET = {'quick': 2500, 'thorough': 100000}
EXHAUSTIVE = {'quick': False, 'thorough': False}
RULE = (
    'Hypothesis draws an underlying elementary population model (every kind, n_dim 1-3), n_cov 1-3, a selection '
    '(constructor default, or a non-empty list of in-range [parameter, dimension] pairs in any order with duplicates, '
    'set through CovariatePopulationModel.set_population_parameters), n_ids 1-5, covariate matrices (incl. all-zero), '
    'coefficients (incl. all-zero) that keep every individual in support, individual values and upstream '
    'sensitivities; plus a bounded enumeration of ALL ordered selections of length <= 3 (quick: <= 2) for n_dim <= 2, '
    'n_cov <= 2 over every base kind; plus out-of-range selections (must raise IndexError); plus the stand-alone '
    'LinearCovariateModel with list and ndarray selections. Non-trivial: >=2 distinct selected pairs, or an unsorted / '
    'duplicated selection, or n_dim>=2 with n_cov>=2. Distinct = (base kind, centred, n_dim, n_cov, selection as given, '
    'n_ids, zero flags).')
RULE += (' ' + 'Added class: covariates recorded in other units (1e-9, 1e-12, 1e-7, 1e4 times the usual scale).')
ASSUMPTIONS = [
    "oracle: the underlying chi model evaluated separately per individual with vartheta_i computed by hand (the "
    "property's own statement), and the reference density of vf/ref.py for the absolute value",
    'documented order of the coefficients: selected pairs unique and sorted by (parameter, dimension), covariate-minor',
    'distributional agreement of sampling is decided under C06; here only shapes and point-mass models']
REQUIRED = ['kind:gauss', 'kind:lognorm', 'kind:trunc', 'kind:pooled', 'kind:hetero', 'sel:default', 'sel:explicit',
            'sel:unsorted', 'sel:dup', 'zero_cov', 'zero_beta', 'oor', 'direct', 'int_theta', 'dims_named_after_selection', 'covariates_named_late', 'late_n_ids',
            'covariates_named_at_construction:unsorted']


def _theta_for(draw, spec, n_ids, cov):
    return popgen.draw_theta(draw, spec, n_ids, cov)


@st.composite
def _spec(draw):
    n_ids = draw(st.integers(1, 5))
    base = popgen.draw_elem(draw, max_dim=3)
    n_cov = draw(st.integers(1, 3))
    npd = ref.pop_per_dim(base, n_ids)
    sel = None
    if not gen.chance(draw, 0.3):
        pairs = st.tuples(st.integers(0, npd - 1), st.integers(0, base['n_dim'] - 1)).map(list)
        sel = draw(st.lists(pairs, min_size=1, max_size=5))
    pop = dict(kind='cov', base=base, n_cov=n_cov, sel=sel)
    cov = popgen.draw_cov_matrix(draw, n_ids, n_cov, units=True)
    theta = popgen.draw_theta(draw, pop, n_ids, cov)
    int_theta = False
    if gen.chance(draw, 0.1):
        # an integer-valued parameter vector (locations, scales >= 2 and coefficients are whole numbers; the covariates
        # are not): users type such vectors as Python ints
        nb0 = ref.pop_n_par(base, n_ids)
        npd0 = ref.pop_per_dim(base, n_ids)
        nd0 = base['n_dim']
        th = []
        for k in range(nb0):
            p = k // nd0
            scale = base['kind'] in ('gauss', 'lognorm', 'trunc') and p == 1
            th.append(draw(st.integers(2, 6)) if (scale or base['kind'] in ('pooled', 'hetero')) else draw(st.integers(1, 5)))
        for (p, d) in ref.cov_selection(pop, n_ids):
            for c in range(n_cov):
                scale = base['kind'] in ('gauss', 'lognorm', 'trunc') and p == 1
                th.append(0 if scale else draw(st.sampled_from([-1, 1, 2])))
        theta, int_theta = th, True
        # whole-number coefficients: the covariates are brought to the scale [-0.45, 0.45] / n_cov (whatever unit
        # they were drawn in), so that every shifted value stays inside the support and of ordinary size
        mx = max(abs(v) for row in cov for v in row)
        if mx > 0:
            cov = [[gen.r6(0.45 * (v / mx) / n_cov) for v in row] for row in cov]
    z = draw(gen.mat(gen.real(-3, 3), n_ids, base['n_dim']))
    if max(abs(v) for row in cov for v in row) > 1e3:
        # covariates in large units: an individual value exactly at its location makes the derivative with respect to
        # a coefficient a rounding residue times the covariate (the true value is 0); no standard score is exactly 0
        z = [[v if v != 0 else 0.5 for v in row] for row in z]
    U = draw(gen.mat(gen.real(-3, 3), n_ids, base['n_dim'])) if gen.chance(draw, 0.5) else None
    oor = None
    if gen.chance(draw, 0.1):
        oor = draw(st.sampled_from([[npd, 0], [0, base['n_dim']], [-1, 0], [0, -1]]))
    direct = draw(st.sampled_from([None, None, 'list', 'array']))
    return dict(pop=pop, n_ids=n_ids, theta=theta, z=z, cov=cov, U=U, oor=oor, direct=direct, int_theta=int_theta,
                rename_dims=bool(gen.chance(draw, 0.3)))


def strategy(tier):
    return _spec()


def extra_cases(tier):
    """All ordered selections up to a bound, deterministic parameter values."""
    max_len = 2 if tier == 'quick' else 3
    out = []
    for kind in popgen.ELEM_KINDS:
        for centered in ([True, False] if kind in ('gauss', 'lognorm') else [True]):
            for n_dim in (1, 2):
                for n_cov in (1, 2):
                    n_ids = 2
                    base = dict(kind=kind, n_dim=n_dim)
                    if kind in ('gauss', 'lognorm'):
                        base['centered'] = centered
                    npd = ref.pop_per_dim(base, n_ids)
                    pairs = [[p, d] for p in range(npd) for d in range(n_dim)]
                    for L in range(1, max_len + 1):
                        for sel in itertools.product(pairs, repeat=L):
                            pop = dict(kind='cov', base=base, n_cov=n_cov, sel=[list(p) for p in sel])
                            nsel = len(ref.cov_selection(pop, n_ids))
                            nb = ref.pop_n_par(base, n_ids)
                            if kind == 'hetero':
                                th0 = [0.7 + 0.31 * j for j in range(nb)]
                            elif kind == 'pooled':
                                th0 = [0.9 + 0.4 * j for j in range(nb)]
                            else:
                                th0 = [0.4 + 0.3 * j for j in range(n_dim)] + [0.8 + 0.25 * j for j in range(n_dim)]
                            beta = [0.05 * ((-1) ** j) * (1 + j % 3) for j in range(nsel * n_cov)]
                            cov = [[0.5, -0.75][:n_cov], [-1.0, 0.3][:n_cov]]
                            z = [[0.3 - 0.2 * d for d in range(n_dim)], [-0.5 + 0.4 * d for d in range(n_dim)]]
                            out.append(dict(pop=pop, n_ids=n_ids, theta=th0 + beta, z=z, cov=cov,
                                            U=[[1.0 + d for d in range(n_dim)], [-0.5] * n_dim],
                                            oor=None, direct=None))
    return out


def classify(spec):
    pop = spec['pop']
    labs = ['kind:' + pop['base']['kind']]
    sel = pop['sel']
    if sel is None:
        labs.append('sel:default')
    else:
        labs.append('sel:explicit')
        t = [tuple(p) for p in sel]
        if len(set(t)) != len(t):
            labs.append('sel:dup')
        if t != sorted(t):
            labs.append('sel:unsorted')
    cov = np.array(spec['cov'], dtype=float)
    if not cov.any():
        labs.append('zero_cov')
    nb = ref.pop_n_par(pop['base'], spec['n_ids'])
    if not np.any(np.array(spec['theta'][nb:])):
        labs.append('zero_beta')
    if spec['oor']:
        labs.append('oor')
    if spec.get('rename_dims') and pop['sel'] is not None:
        labs.append('dims_named_after_selection')
    if spec['direct']:
        labs.append('direct')
    return labs


def nontrivial(spec):
    pop = spec['pop']
    sel = pop['sel']
    nsel = len(ref.cov_selection(pop, spec['n_ids']))
    t = [tuple(p) for p in sel] if sel is not None else []
    return nsel >= 2 or (sel is not None and (len(set(t)) != len(t) or t != sorted(t))) or \
        (pop['base']['n_dim'] >= 2 and pop['n_cov'] >= 2)


def structure(spec):
    pop = spec['pop']
    labs = classify(spec)
    return [popgen.structure(pop['base']), pop['n_cov'], pop['sel'], spec['n_ids'],
            'zero_cov' in labs, 'zero_beta' in labs, spec['oor'], spec['direct']]


def check(case):
    import chi
    s = case.spec
    pop, n_ids = s['pop'], s['n_ids']
    base = pop['base']
    n_dim, n_cov = base['n_dim'], pop['n_cov']
    npd = ref.pop_per_dim(base, n_ids)
    theta = np.array(s['theta'], dtype=float)
    cov = np.array(s['cov'], dtype=float)
    nb = ref.pop_n_par(base, n_ids)
    sel = ref.cov_selection(pop, n_ids)
    beta = theta[nb:].reshape(len(sel), n_cov)

    with case.clause('construct'):
        late = base['kind'] == 'hetero' and pop['sel'] is None and n_ids >= 2 and len(s['theta']) % 2 == 0
        if late:
            # built around a heterogeneous model that is still at its default of one individual and grown afterwards
            # (documented: all parameters are modelled by the covariate model again)
            m = ref.build_pop(pop, None, None)
            if n_ids >= 3:
                m.set_n_ids(n_ids - 1)
            case.labels.append('late_n_ids')
        else:
            m = ref.build_pop(pop, None, n_ids)
        m.set_n_ids(n_ids)
        und = ref.build_pop(base, None, n_ids)       # the underlying model, separately
        und.set_n_ids(n_ids)
    if case.fails:
        return

    if s.get('rename_dims'):
        # the dimensions are named AFTER the selection was made (as a hierarchical likelihood and a composed model do
        # with the models they are given): the selection stays what it was
        with case.clause('rename_dimensions'):
            dn = ['theta %d' % (d + 1) for d in range(n_dim)]
            m.set_dim_names(list(dn))
            und.set_dim_names(list(dn))
            case.equal(list(m.get_dim_names()), dn, 'dimension names after set_dim_names')
            case.equal(m.n_parameters(), nb + len(sel) * n_cov, 'n_parameters after naming the dimensions')
        if case.fails:
            return

    if s.get('rename_dims') is not None and (s['n_ids'] + len(s['theta'])) % 3 == 0:
        # the covariates are named after the model was configured: every coefficient is called after its covariate's
        # CURRENT name
        with case.clause('rename_covariates'):
            new_cn = ['covariate %s' % chr(65 + c) for c in range(n_cov)]
            m.set_covariate_names(list(new_cn))
            case.equal(list(m.get_covariate_names()), new_cn, 'covariate names after set_covariate_names')
            case.labels.append('covariates_named_late')
        if case.fails:
            return

    if s['oor']:
        # an out-of-range selection is rejected, and the rejected call changes nothing: every clause below then
        # runs on the model that saw it
        with case.clause('out_of_range'):
            bad = ([list(p) for p in pop['sel']] if pop['sel'] else []) + [s['oor']]
            for target, label in ((ref.build_pop(dict(pop, sel=None), None, n_ids), 'a model with the default selection'),
                                  (m, 'the model under test')):
                try:
                    target.set_population_parameters(bad)
                except IndexError:
                    pass
                else:
                    case.fail('accepted', 'out-of-range selection %r was accepted by %s' % (bad, label))
        if case.fails:
            return

    # vartheta_i by hand (the property's formula)
    P0 = theta[:nb].reshape(npd, n_dim)
    vth = np.repeat(P0[np.newaxis], n_ids, axis=0)
    for i in range(n_ids):
        for j, (p, d) in enumerate(sel):
            vth[i, p, d] = P0[p, d] + sum(beta[j, c] * cov[i, c] for c in range(n_cov))

    with case.clause('counts_names'):
        case.equal(m.n_parameters(), nb + len(sel) * n_cov, 'n_parameters')
        case.equal(m.n_covariates(), n_cov, 'n_covariates')
        names = m.get_parameter_names()
        case.equal(len(names), m.n_parameters(), 'len(names)')
        bn = und.get_parameter_names()
        cn = m.get_covariate_names()
        want_names = list(bn)
        for (p, d) in sel:
            for c in range(n_cov):
                want_names.append('%s %s' % (bn[p * n_dim + d], cn[c]))
        case.equal(names, want_names, 'names identify (parameter, dimension, covariate)')
        # the optional flag concerns the dimension names only: every coefficient still names its covariate
        nx = list(m.get_parameter_names(exclude_dim_names=True))
        case.equal(len(nx), len(want_names), 'number of names with exclude_dim_names=True')
        case.equal(nx[:len(bn)], list(und.get_parameter_names(exclude_dim_names=True)),
                   'names of the underlying parameters with exclude_dim_names=True')
        for j in range(len(sel)):
            for c in range(n_cov):
                nm = nx[len(bn) + j * n_cov + c]
                case.true(str(nm).endswith(str(cn[c])), 'coefficient %d of covariate %r is called %r with '
                          'exclude_dim_names=True (all names: %r)' % (j, cn[c], nm, nx), kind='names')
        case.equal(tuple(int(v) for v in m.n_hierarchical_parameters(n_ids)),
                   (int(und.n_hierarchical_parameters(n_ids)[0]), nb + len(sel) * n_cov), 'n_hierarchical_parameters')

    with case.clause('names_at_construction'):
        # covariate names handed over at construction keep the order they were given in (the order of the columns of
        # the covariate matrix), whatever their alphabetical order
        given = ['Weight', 'Age', 'Sex', 'Dose group', 'BMI'][:n_cov] if n_cov <= 5 else \
            ['z%d' % (n_cov - c) for c in range(n_cov)]
        lmn = chi.LinearCovariateModel(n_cov=n_cov, cov_names=list(given))
        case.equal(list(lmn.get_covariate_names()), given, 'covariate names given at construction')
        b0 = ref.build_pop(base, None, n_ids)
        b0.set_n_ids(n_ids)
        bn0 = list(b0.get_parameter_names())
        mn = chi.CovariatePopulationModel(b0, lmn)
        mn.set_n_ids(n_ids)
        if pop['sel'] is not None:
            mn.set_population_parameters([list(p) for p in pop['sel']])
        case.equal(list(mn.get_covariate_names()), given, 'covariate names of the population model')
        case.equal(list(mn.get_parameter_names()),
                   list(bn0) + ['%s %s' % (bn0[p * n_dim + d], given[c]) for (p, d) in sel for c in range(n_cov)],
                   'names with covariate names given at construction')
        got = np.asarray(mn.compute_individual_parameters(theta.copy(), popgen.x_from_z(pop, n_ids, theta, s['z'], cov),
                                                          cov.copy()), dtype=float)
        case.close(got, np.real(ref.pop_indiv(pop, n_ids, theta, popgen.x_from_z(pop, n_ids, theta, s['z'], cov), cov)),
                   rtol=1e-12, what='individual parameters, covariates named at construction')
        if n_cov >= 2:
            case.labels.append('covariates_named_at_construction:unsorted')

    if s['direct']:
        with case.clause('linear_covariate_model'):
            lm = chi.LinearCovariateModel(n_cov=n_cov)
            raw = [list(p) for p in pop['sel']] if pop['sel'] is not None else [list(p) for p in sel]
            lm.set_population_parameters(raw if s['direct'] == 'list' else np.array(raw))
            pidx, didx = lm.get_set_population_parameters()
            case.equal([(int(a), int(b)) for a, b in zip(pidx, didx)], list(sel), 'stored selection')
            case.equal(lm.n_parameters(), len(sel) * n_cov, 'LinearCovariateModel.n_parameters')
            got = lm.compute_population_parameters(theta[nb:].copy(), P0.copy(), cov.copy())
            case.close(got, vth, rtol=1e-12, what='vartheta = vartheta_0 + sum_c beta_c chi_c')
            got2 = lm.compute_population_parameters(beta.copy(), P0.copy(), cov.copy())
            case.close(got2, vth, rtol=1e-12, what='vartheta, coefficients given as (n_selected, n_cov)')

    # individual values: special dimensions take the dictated value from chi's transform
    x = popgen.x_from_z(pop, n_ids, theta, s['z'], cov)
    special = ref.pop_special(pop)
    with case.clause('indiv'):
        got = np.asarray(m.compute_individual_parameters(theta.copy(), x.copy(), cov.copy()), dtype=float)
        rows = []
        for i in range(n_ids):
            und.set_n_ids(1) if base['kind'] != 'hetero' else None
            if base['kind'] == 'hetero':
                rows.append(vth[i, i, :])
            else:
                r = und.compute_individual_parameters(vth[i].copy(), x[i:i + 1].copy())
                rows.append(np.asarray(r, dtype=float)[0])
        und.set_n_ids(n_ids)
        case.close(got, np.array(rows), rtol=1e-12, what='individual parameters vs underlying model per individual')
        case.close(got, np.real(ref.pop_indiv(pop, n_ids, theta, x, cov)), rtol=1e-12,
                   what='individual parameters vs documented transform')
        if not any(special):
            # the documented flattened form (n_ids * n_dim,) of the fluctuations, and the eta that is handed back
            flat = np.asarray(m.compute_individual_parameters(theta.copy(), x.flatten().copy(), cov.copy()), dtype=float)
            case.close(flat, got, rtol=0, atol=0, what='individual parameters for eta given flattened (n_ids * n_dim,)')
            eta_m = np.asarray(m.compute_individual_parameters(theta.copy(), x.copy(), cov.copy(), return_eta=True),
                               dtype=float)
            eta_f = np.asarray(m.compute_individual_parameters(theta.copy(), x.flatten().copy(), cov.copy(),
                                                               return_eta=True), dtype=float)
            case.close(eta_f.reshape(eta_m.shape), eta_m, rtol=0, atol=0, what='return_eta=True for eta given flattened')
        if any(special):
            x = got.copy()
    if 'indiv' not in case.checked:
        return

    # the dtype / container of the parameter vector does not matter (lists, integer-valued vectors as int arrays)
    with case.clause('argument_forms'):
        forms = [('list', [float(v) for v in theta])]
        if s.get('int_theta'):
            forms.append(('int array', np.array([int(v) for v in s['theta']], dtype=int)))
            forms.append(('int list', [int(v) for v in s['theta']]))
            case.labels.append('int_theta')
        for label, th in forms:
            a = np.asarray(m.compute_individual_parameters(th, x.copy(), cov.copy()), dtype=float)
            case.close(a, got, rtol=1e-12, what='individual parameters with the parameters given as %s' % label)
            if not any(special):
                la = m.compute_log_likelihood(th, x.copy(), cov.copy())
                lb = m.compute_log_likelihood(theta.copy(), x.copy(), cov.copy())
                case.close(la, lb, rtol=1e-12, what='log-likelihood with the parameters given as %s' % label)
            if label != 'list' and not any(special):
                sa = m.compute_sensitivities(th, x.copy(), cov.copy())
                sb = m.compute_sensitivities(theta.copy(), x.copy(), cov.copy())
                for u, v, nm in zip(sa, sb, ('score', 'dpsi', 'dtheta')):
                    case.close(np.asarray(u, dtype=float), np.asarray(v, dtype=float), rtol=1e-12,
                               what='%s of compute_sensitivities with the parameters given as %s' % (nm, label))

    # one-dimensional models: the individual values given as a plain vector of length n_ids (one entry per individual)
    if n_dim == 1 and not any(special):
        with case.clause('observations_as_vector'):
            lb = m.compute_log_likelihood(theta.copy(), x.copy(), cov.copy())
            la = m.compute_log_likelihood(theta.copy(), x[:, 0].copy(), cov.copy())
            case.close(la, lb, rtol=1e-12, what='log-likelihood with the individual values given as a vector of length n_ids '
                                               'vs as an (n_ids, 1) matrix')
            sa = m.compute_sensitivities(theta.copy(), x[:, 0].copy(), cov.copy())
            sb = m.compute_sensitivities(theta.copy(), x.copy(), cov.copy())
            case.close(sa[0], sb[0], rtol=1e-12, what='score of compute_sensitivities with the individual values given as a '
                                                       'vector')
            case.close(np.asarray(sa[2], dtype=float), np.asarray(sb[2], dtype=float), rtol=1e-12,
                       what='dtheta with the individual values given as a vector')
            pa = np.asarray(m.compute_individual_parameters(theta.copy(), x[:, 0].copy(), cov.copy()), dtype=float)
            case.close(pa.reshape(-1), got.reshape(-1), rtol=1e-12, what='individual parameters with eta given as a vector')

    def und_ll(i, xi):
        """Underlying model for individual i alone with parameters vartheta_i."""
        if base['kind'] in ('hetero', 'pooled'):
            # point mass at the individual's own (shifted) entry; membership up to the rounding of
            # the hand-computed shift (chi sums the covariate terms in another order)
            row = vth[i, i, :] if base['kind'] == 'hetero' else vth[i, 0, :]
            return 0.0 if all(ref._same(a, b) for a, b in zip(xi, row)) else -np.inf
        und.set_n_ids(1)
        v = und.compute_log_likelihood(vth[i].copy(), xi.reshape(1, n_dim).copy())
        und.set_n_ids(n_ids)
        return v

    with case.clause('likelihood'):
        got = m.compute_log_likelihood(theta.copy(), x.copy(), cov.copy())
        want = sum(und_ll(i, x[i]) for i in range(n_ids))
        case.close(got, want, rtol=1e-9, what='log-likelihood vs sum of the underlying model per individual')
        case.close(got, float(np.real(ref.pop_loglik(pop, n_ids, theta, x, cov))), rtol=1e-9,
                   what='log-likelihood vs reference density')

    labs = classify(s)
    if 'zero_cov' in labs or 'zero_beta' in labs:
        with case.clause('coincides_with_underlying'):
            a = m.compute_log_likelihood(theta.copy(), x.copy(), cov.copy())
            b = und.compute_log_likelihood(theta[:nb].copy(), x.copy())
            case.close(a, b, rtol=1e-12, what='zero covariates / coefficients: likelihood')
            pa = m.compute_individual_parameters(theta.copy(), x.copy(), cov.copy())
            pb = und.compute_individual_parameters(theta[:nb].copy(), x.copy())
            case.close(pa, pb, rtol=1e-12, what='zero covariates / coefficients: individual parameters')
            sa = m.compute_sensitivities(theta.copy(), x.copy(), cov.copy())
            sb = und.compute_sensitivities(theta[:nb].copy(), x.copy())
            case.close(sa[1], sb[1], rtol=1e-9, what='zero covariates / coefficients: dpsi')
            case.close(np.asarray(sa[2])[:nb], sb[2], rtol=1e-9, what='zero covariates / coefficients: dtheta_0')

    U = None if s['U'] is None else np.array(s['U'], dtype=float)
    Uz = np.zeros((n_ids, n_dim)) if U is None else U
    nbot, ntop, hd = ref.hier_layout(pop, n_ids)

    def F_h(v):
        xx, th = ref.hier_split(pop, n_ids, v, cov)
        psi = ref.pop_indiv(pop, n_ids, th, xx, cov)
        return ref.pop_loglik(pop, n_ids, th, xx, cov) + np.sum(Uz * psi)

    with case.clause('sensitivities'):
        sc, g = m.compute_sensitivities(theta.copy(), x.copy(), cov.copy(),
                                        dlogp_dpsi=None if U is None else U.copy(), reduce=True)
        g = np.asarray(g, dtype=float)
        case.equal(g.shape, (nbot + ntop,), 'reduced gradient shape', kind='shape')
        gw_ = ref.cgrad(F_h, np.concatenate([x[:, hd].flatten(), theta]))
        # (an entry that is an exactly cancelling sum times a covariate of 1e8 carries the rounding of the terms: absolute
        # floor of 1e-12 of the largest entry; found by the thorough tier at VERIF_SEED 4)
        case.close(g, gw_, rtol=1e-7, atol=1e-12 * float(np.max(np.abs(gw_))) if gw_.size else 0.0,
                   what='d/d(psi, vartheta_0, beta) incl. upstream chain rule')
        if not any(special):
            sc2, dpsi, dth = m.compute_sensitivities(theta.copy(), x.copy(), cov.copy(),
                                                     dlogp_dpsi=None if U is None else U.copy())
            case.close(np.concatenate([np.asarray(dpsi).flatten(), dth]), g, rtol=1e-9,
                       what='separate vs reduced return form')

    with case.clause('sample_shape'):
        for ns, cv in ((None, cov[0]), (n_ids, cov), (3, cov[0])):
            smp = np.asarray(m.sample(theta.copy(), cv.copy(), n_samples=ns, seed=s.get('seed', 3)), dtype=float)
            case.equal(smp.shape, (1 if ns is None else ns, n_dim), 'sample shape', kind='shape')
            if base['kind'] == 'pooled':
                rows = np.repeat(vth[0:1, 0, :], smp.shape[0], axis=0) if cv.ndim == 1 else vth[:, 0, :]
                case.close(smp, rows, rtol=1e-12, what='pooled samples equal vartheta_i')
            if base['kind'] in ('lognorm', 'trunc') and base.get('centered', True):
                case.true(bool(np.all(smp > 0)), 'sample outside the support')

    # Two covariate models are built from ONE population-model object of the user; the second one and the user's
    # object are reconfigured afterwards: the first model keeps its names, counts and values.
    with case.clause('shared_base'):
        shared = ref.build_pop(base, None, n_ids)
        shared.set_n_ids(n_ids)
        A = chi.CovariatePopulationModel(shared, chi.LinearCovariateModel(n_cov=n_cov))
        if pop.get('sel') is not None:
            A.set_population_parameters([list(p) for p in pop['sel']])
        A.set_n_ids(n_ids)
        before = (list(A.get_parameter_names()), int(A.n_parameters()), list(A.get_dim_names()),
                  A.compute_log_likelihood(theta.copy(), x.copy(), cov.copy()),
                  np.array(A.compute_individual_parameters(theta.copy(), x.copy(), cov.copy()), dtype=float))
        B = chi.CovariatePopulationModel(shared, chi.LinearCovariateModel(n_cov=n_cov),
                                         dim_names=['other %d' % d for d in range(n_dim)])
        B.set_n_ids(n_ids + 2)
        shared.set_dim_names(['user %d' % d for d in range(n_dim)])
        shared.set_n_ids(n_ids + 1)
        after = (list(A.get_parameter_names()), int(A.n_parameters()), list(A.get_dim_names()),
                 A.compute_log_likelihood(theta.copy(), x.copy(), cov.copy()),
                 np.array(A.compute_individual_parameters(theta.copy(), x.copy(), cov.copy()), dtype=float))
        for nm, a, b in zip(('parameter names', 'n_parameters', 'dimension names'), before[:3], after[:3]):
            case.equal(b, a, '%s of the first model after a sibling built from the same population-model object (and '
                             'that object) were reconfigured' % nm)
        case.close(after[3], before[3], rtol=0, atol=0, what='log-likelihood of the first model after its sibling was '
                                                             'reconfigured')
        case.close(after[4], before[4], rtol=0, atol=0, what='individual parameters of the first model after its '
                                                             'sibling was reconfigured')


RULE += (' Classes and clauses added in later rounds of the seeded-change protocol (DESIGN 9.4) are named in REQUIRED '
         'and in seeded/HISTORY.json; the evidence counts every one of them under classes.')
