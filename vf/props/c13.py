"""C13 - Filter posterior = prior + population + noise + filter terms; exact gradient.

The oracle is an independent layout model of the flat vector written from the docstring of
`PopulationFilterLogPosterior.__call__` / `get_parameter_names` and the text of the property:

    [ population parameters | free sigmas (one per observable) |
      per simulated individual: the dimensions that are not pooled / heterogeneous |
      noise realisations  eps[s, r, k]  (individual-major, observable, k-th SMALLEST time) ]

    value = log-prior(top level) + population log-density of the simulated individuals
            - sum(eps^2)/2 (+ configuration constant)
            + filter score of  ybar_r(t_k; psi_s) + sigma_r eps[s,r,k]   (or ybar * exp(sigma eps))
              against the measurements of the same time point.
"""
import itertools
import math

import numpy as np
from hypothesis import assume, strategies as st

from vf import gen, ref, popgen, llbuild
from vf.analytic_model import ref_outputs
from vf import ref_filters as rf
from vf.core import Inconclusive

ID = 'C13'
BUDGET = {'quick': 1000, 'thorough': 40000}
RULE = (
    'Hypothesis draws the analytic mechanistic model (1-3 outputs, 1-4 parameters), a population composition with '
    'exactly that many dimensions (Gaussian / log-normal centred or not / truncated Gaussian / pooled / heterogeneous '
    'sub-models of 1-4 dimensions in any position, optional covariate wrapper with default or explicit selection, '
    'bare or composed, rarely a nested composite; all-pooled and all-heterogeneous forced in ~1/5 of the cases; no '
    'reduced wrapper; heterogeneous models built with or without the final n_ids), a filter as in C12 (5 classes, '
    'plain or composed of 1-3 parts over the time axis, n_kernels 2-3; measurements n_ids 1-5 with a missing-value '
    'pattern leaving >=1 value per cell, positive under log-normal parts), n_times 1-5 unique times in drawn '
    '(unsorted) order, n_samples 2-6 (>=2 per mixture kernel), sigma fixed (each entry 0 with chance 1/4 when the '
    'individuals differ otherwise, else log-uniform) or free, additive or log-scale noise, covariates of shape '
    '(n_cov,) or (n_samples, n_cov), a prior over the top-level entries, and THREE in-support flat vectors of the same '
    'configuration (population parameters with positive individual values, standard scores in [-2,2], noise '
    'realisations in [-3,3]); rarely one vector is prior-rejected or has a negative population scale. Simulated '
    'values of a cell (of every mixture block) are kept apart (relative spread >= 1e-3) by nudging noise '
    'realisations; under log-normal parts the simulated values are required positive. Beyond that a bounded '
    'enumeration: every composition of <=3 (quick: <=2, plus all-special triples) one-dimensional sub-models from '
    '{Gaussian, non-centred log-normal, pooled, heterogeneous, covariate(pooled), covariate(Gaussian)} x sigma '
    'fixed/free x additive/log-scale with deterministic values. Non-trivial: n_obs*n_times >= 2 and (a special '
    'dimension not in last position or free sigma together with a special dimension). Distinct = structural '
    'projection (composition, filter parts, shapes, sigma mode, noise scale, covariate shape, time order).')
RULE += (' ' + "Added clause: the user's filter object shared by two posteriors.")
ASSUMPTIONS = [
    'analytic mechanistic model is harness code and returns exact output sensitivities',
    'reference population densities (vf/ref.py), filter scores (vf/ref_filters.py, validated by C12) and priors '
    '(vf/llbuild.py) are written from the docstrings; the layout model is written from the __call__ docstring',
    'the noise normalisation is compared up to a configuration constant: chi - reference must agree (1e-8 relative '
    'to the score) between the three vectors of one configuration',
    'derivative oracle: complex step of the reference value; compared entry by entry (1e-7 relative to '
    'max(1,|entry|), plus 1e-11 of the largest gradient entry as a floor for cancelling sums)',
    'special (pooled / heterogeneous) dimensions are those of the composition spec, also inside a covariate wrapper',
    'simulated values of one cell / mixture block are not (nearly) identical: zero empirical variance is outside the '
    'documented estimators (cases violating this are counted inconclusive)']
REQUIRED = ['kind:gauss', 'kind:lognorm', 'kind:trunc', 'kind:pooled', 'kind:hetero', 'noncentered', 'cov', 'comp',
            'bare', 'all_pooled', 'all_hetero', 'cov_pooled', 'sigma:free', 'sigma:fixed', 'sigma:zero',
            'noise:log', 'noise:additive', 'cov:1d', 'cov:2d', 'times:unsorted', 'filter:composed', 'filter:gmix',
            'filter:lognormal', 'prior_rejected', 'bad_scale', 'special_not_last', 'free_sigma+special',
            'n_samples=2', 'offset_tested', 'nested', 'late_n_ids', 'cov_hetero', 'n_samples>=10', 'presorted_filter:nontrivial']

PAR_NAMES = ['alpha', 'beta', 'gamma', 'delta']
OUT_NAMES = ['conc', 'effect', 'marker']
N_VEC = 3


# --------------------------------------------------------------------------
# layout model (docstring of __call__)
# --------------------------------------------------------------------------
def layout(spec):
    pop, n_s = spec['pop'], spec['n_samples']
    special = ref.pop_special(pop)
    hd = [d for d, s in enumerate(special) if s is None]
    n_pop = ref.pop_n_par(pop, n_s)
    n_sig = spec['n_out'] if spec['sigma'] is None else 0
    n_top = n_pop + n_sig
    end_bottom = n_top + n_s * len(hd)
    n_times = len(spec['times'])
    return dict(hd=hd, n_pop=n_pop, n_sig=n_sig, n_top=n_top, end_bottom=end_bottom, n_times=n_times,
                n_total=end_bottom + n_s * spec['n_out'] * n_times, n_dim=len(special))


def _cov(spec):
    return None if spec['cov'] is None else np.array(spec['cov'], dtype=float)


def split(spec, vec):
    """theta, sigma (n_out,), x (n_s, n_dim; special dimensions filled with the value the population
    parameters dictate), eps (n_s, n_out, n_times; last axis = rank of the time point)."""
    L = layout(spec)
    pop, n_s, n_out = spec['pop'], spec['n_samples'], spec['n_out']
    vec = np.asarray(vec)
    cplx = np.iscomplexobj(vec)
    theta = vec[:L['n_pop']]
    sig = vec[L['n_pop']:L['n_top']] if spec['sigma'] is None else np.array(spec['sigma'], dtype=float)
    hd = L['hd']
    x = np.zeros((n_s, L['n_dim']), dtype=complex if cplx else float)
    for s in range(n_s):
        for j, d in enumerate(hd):
            x[s, d] = vec[L['n_top'] + s * len(hd) + j]
    if len(hd) < L['n_dim']:
        dictated = ref.pop_indiv(pop, n_s, theta, x, _cov(spec))
        if np.iscomplexobj(dictated) and not cplx:
            x = x.astype(complex)
        for d in range(L['n_dim']):
            if d not in hd:
                x[:, d] = dictated[:, d]
    eps = vec[L['end_bottom']:].reshape(n_s, n_out, L['n_times'])
    return theta, sig, x, eps


def ranks(times):
    """rank[j] = position of input time j among the sorted times."""
    order = sorted(range(len(times)), key=lambda j: times[j])
    rank = [0] * len(times)
    for k, j in enumerate(order):
        rank[j] = k
    return rank


def ref_sim(spec, vec, parts=None):
    """Simulated measurements in the INPUT time order (aligned with the filter's data columns)."""
    pop, n_s, n_out = spec['pop'], spec['n_samples'], spec['n_out']
    theta, sig, x, eps = split(spec, vec)
    psi = ref.pop_indiv(pop, n_s, theta, x, _cov(spec))
    times = np.array(spec['times'], dtype=float)
    rank = ranks(spec['times'])
    cplx = np.iscomplexobj(vec)
    y = np.zeros((n_s, n_out, len(times)), dtype=complex if cplx else float)
    for s in range(n_s):
        ybar = ref_outputs(psi[s], times, n_out)
        for r in range(n_out):
            for j in range(len(times)):
                e = eps[s, r, rank[j]]
                if spec['log_scale']:
                    y[s, r, j] = ybar[r, j] * np.exp(sig[r] * e)
                else:
                    y[s, r, j] = ybar[r, j] + sig[r] * e
    return y


def ref_post(spec, vec):
    """Reference value up to the configuration constant (complex-safe)."""
    L = layout(spec)
    pop, n_s = spec['pop'], spec['n_samples']
    vec = np.asarray(vec)
    lp = llbuild.ref_prior(spec['prior'], vec[:L['n_top']])
    if not np.isfinite(np.real(lp)):
        return -np.inf
    theta, sig, x, eps = split(spec, vec)
    pl = ref.pop_loglik(pop, n_s, theta, x, _cov(spec))
    if not np.isfinite(np.real(pl)):
        return -np.inf
    noise = 0.0
    for e in eps.flatten():
        noise = noise - e ** 2 / 2
    y = ref_sim(spec, vec)
    return lp + pl + noise + rf.filter_loglik(spec['parts'], _obs(spec), y)


def names_ids(spec):
    L = layout(spec)
    n_s, n_out = spec['n_samples'], spec['n_out']
    pn, on = PAR_NAMES[:spec['n_par']], OUT_NAMES[:n_out]
    names = ref.pop_names(spec['pop'], n_s, pn)
    if spec['sigma'] is None:
        names += ['Sigma %s' % o for o in on]
    ids = [None] * len(names)
    for s in range(n_s):
        names += [pn[d] for d in L['hd']]
        ids += ['Sim. %d' % (s + 1)] * len(L['hd'])
    for s in range(n_s):
        for o in on:
            names += ['%s Epsilon time %d' % (o, k + 1) for k in range(L['n_times'])]
        ids += ['Sim. %d' % (s + 1)] * (n_out * L['n_times'])
    return names, ids


def _obs(spec):
    return np.array([[[np.nan if v is None else v for v in b] for b in a] for a in spec['obs']], dtype=float)


def degenerate_blocks(spec, y):
    """Entries (s, r, j) closing a block of simulated values with (nearly) zero spread."""
    out = []
    n_s = y.shape[0]
    j0 = 0
    for p in spec['parts']:
        nk = p.get('nk', 1) if p['kind'] == 'gmix' else 1
        n = n_s // nk
        for j in range(j0, j0 + p['nt']):
            for r in range(y.shape[1]):
                for m in range(nk):
                    blk = np.real(y[m * n:(m + 1) * n, r, j])
                    if p['kind'] in rf.LOGNORMAL:
                        if np.any(blk <= 0):
                            continue
                        blk = np.log(blk)
                    if np.std(blk) < 1e-3 * max(1.0, abs(np.mean(blk))):
                        out.append(((m + 1) * n - 1, r, j))
        j0 += p['nt']
    return out


# --------------------------------------------------------------------------
# generator
# --------------------------------------------------------------------------
def _cuts(draw, n, max_parts):
    if n == 1 or max_parts == 1:
        return [n]
    k = draw(st.integers(0, min(n, max_parts) - 1))
    cuts = sorted(draw(st.lists(st.integers(1, n - 1), min_size=k, max_size=k, unique=True)))
    edges = [0] + cuts + [n]
    return [b - a for a, b in zip(edges[:-1], edges[1:])]


def _apart(values, sep):
    out = []
    for v in values:
        w, k = v, 1
        while any(abs(w - o) < sep for o in out):
            w = round(v + 0.137 * k, 6)
            k += 1
        out.append(w)
    return out


def _scale_positions(pop, n_ids, offset=0):
    """Positions (in the population parameter vector) of the scales of centred elementary parts."""
    k = pop['kind']
    if k in ('gauss', 'lognorm', 'trunc') and pop.get('centered', True):
        return [offset + pop['n_dim'] + d for d in range(pop['n_dim'])]
    if k == 'comp':
        out = []
        for p in pop['parts']:
            out += _scale_positions(p, n_ids, offset)
            offset += ref.pop_n_par(p, n_ids)
        return out
    return []


def _draw_pop(draw, n_dim, n_s):
    mode = 'mixed'
    if gen.chance(draw, 0.2):
        mode = draw(st.sampled_from(['pooled', 'hetero']))
    bare = gen.chance(draw, 0.25)
    sizes = [n_dim] if bare else _cuts(draw, n_dim, n_dim)
    parts = []
    for d in sizes:
        k = mode if mode != 'mixed' else draw(st.sampled_from(popgen.ELEM_KINDS))
        e = dict(kind=k, n_dim=d)
        if k in ('gauss', 'lognorm'):
            e['centered'] = not gen.chance(draw, 0.4)
        if gen.chance(draw, 0.3 if mode == 'mixed' else 0.1):
            e = popgen.draw_cov_wrap(draw, e, n_s)
        parts.append(e)
    if bare:
        return parts[0]
    if len(parts) >= 2 and gen.chance(draw, 0.12):
        parts = [dict(kind='comp', parts=parts[:2])] + parts[2:]
    return dict(kind='comp', parts=parts)


def _varies(pop):
    return any(lf['kind'] != 'pooled' for lf in popgen.leaves(pop))


def assemble_vec(spec, theta, sig_free, z, eps):
    """Flat vector in the published order from its pieces (z: standard scores n_s x n_dim)."""
    pop, n_s = spec['pop'], spec['n_samples']
    hd = layout(spec)['hd']
    x = popgen.x_from_z(pop, n_s, theta, z, spec['cov'])
    vec = [float(v) for v in theta] + [float(v) for v in sig_free]
    for s in range(n_s):
        vec += [gen.r6(float(x[s, d])) for d in hd]
    for s in range(n_s):
        for r in range(spec['n_out']):
            vec += [float(v) for v in eps[s][r]]
    return vec


def separate(spec, vec):
    """Nudge noise realisations until no block of simulated values is degenerate; None if impossible."""
    L = layout(spec)
    vec = list(vec)
    rank = ranks(spec['times'])
    for _ in range(25):
        bad = degenerate_blocks(spec, ref_sim(spec, np.array(vec, dtype=float)))
        if not bad:
            return vec
        _, sig, _, _ = split(spec, np.array(vec, dtype=float))
        for s, r, j in bad:
            if float(sig[r]) <= 0:
                return None
            pos = L['end_bottom'] + (s * spec['n_out'] + r) * L['n_times'] + rank[j]
            vec[pos] = round(vec[pos] + 0.71, 6)
    return None


@st.composite
def _spec(draw):
    n_out = draw(st.sampled_from([1, 1, 2, 2, 3]))
    n_par = draw(st.integers(1, 4))
    n_times = draw(st.sampled_from([1, 2, 2, 3, 3, 4, 5]))
    n_ids = draw(st.sampled_from([1, 2, 2, 3, 4, 5]))

    # ---- filter (as in C12)
    composed = gen.chance(draw, 0.5)
    sizes = _cuts(draw, n_times, 3) if composed else [n_times]
    mixed = gen.chance(draw, 0.7)
    k0 = draw(st.sampled_from(rf.KINDS))
    parts = []
    for nt in sizes:
        kind = draw(st.sampled_from(rf.KINDS)) if mixed else k0
        p = dict(kind=kind, nt=nt)
        if kind == 'gmix':
            p['nk'] = draw(st.sampled_from([2, 2, 3]))
        parts.append(p)
    nks = sorted(set(p['nk'] for p in parts if p['kind'] == 'gmix'))
    if nks == []:
        n_s = draw(st.sampled_from([2, 2, 3, 3, 4, 5, 6]))
        if n_par * n_out * n_times <= 12 and gen.chance(draw, 0.12):
            n_s = draw(st.sampled_from([10, 11, 12]))        # two-digit labels of the simulated individuals
    elif nks == [2]:
        n_s = draw(st.sampled_from([4, 6]))
        if n_par * n_out * n_times <= 12 and gen.chance(draw, 0.12):
            n_s = draw(st.sampled_from([10, 12]))
    else:
        n_s = 6
    lognormal = any(p['kind'] in rf.LOGNORMAL for p in parts)
    positive = []
    for p in parts:
        positive += [p['kind'] in rf.LOGNORMAL] * p['nt']

    times = gen.distinct(draw(gen.vec(gen.logu(0.05, 20.0), n_times)))
    if gen.chance(draw, 0.2):
        times[draw(st.integers(0, n_times - 1))] = 0.0

    rate = draw(st.sampled_from([0, 1, 1, 2]))
    obs = [[[None] * n_times for _ in range(n_out)] for _ in range(n_ids)]
    for r in range(n_out):
        for j in range(n_times):
            present = [i for i in range(n_ids) if rate == 0 or draw(st.integers(0, 9)) >= (2 if rate == 1 else 5)]
            if not present:
                present = [draw(st.integers(0, n_ids - 1))]
            for i in present:
                obs[i][r][j] = draw(gen.logu(0.1, 60.0) if positive[j] else gen.real(-5, 40))

    # ---- population model, covariates
    pop = _draw_pop(draw, n_par, n_s)
    n_cov = ref.pop_n_cov(pop)
    cov = popgen.draw_cov_matrix(draw, n_s, n_cov)
    cov_1d = False
    if cov is not None and gen.chance(draw, 0.4):
        cov_1d = True
        cov = [list(cov[0]) for _ in range(n_s)]
    late = False
    if popgen.has(pop, 'hetero') and not _cov_hetero(pop):
        late = gen.chance(draw, 0.5)

    # ---- noise model
    log_scale = draw(st.booleans())
    sig_range = gen.logu(0.01, 0.3) if (lognormal and not log_scale) else gen.logu(0.02, 1.0)
    sigma = None
    if draw(st.booleans()):
        sigma = [0.0 if (_varies(pop) and gen.chance(draw, 0.25)) else draw(sig_range) for _ in range(n_out)]

    spec = dict(n_out=n_out, n_par=n_par, pop=pop, n_samples=n_s, late=late, parts=parts, composed=composed,
                obs=obs, times=times, sigma=sigma, log_scale=log_scale, cov=cov, cov_1d=cov_1d, prior=None,
                vecs=[], bad=None, reject=None)

    # ---- three vectors of this configuration
    tops = []
    for _ in range(N_VEC):
        theta = popgen.draw_theta(draw, pop, n_s, cov, positive=True)
        sig_free = draw(gen.vec(sig_range, n_out)) if sigma is None else []
        z = np.array(draw(gen.mat(gen.real(-2, 2), n_s, n_par)), dtype=float)
        for d in range(n_par):
            z[:, d] = _apart(list(z[:, d]), 0.05)
        eps = [[draw(gen.vec(gen.real(-3, 3), n_times)) for _ in range(n_out)] for _ in range(n_s)]
        for r in range(n_out):
            for k in range(n_times):
                col = _apart([eps[s][r][k] for s in range(n_s)], 0.05)
                for s in range(n_s):
                    eps[s][r][k] = col[s]
        tops.append(list(theta) + list(sig_free))
        spec['vecs'].append(assemble_vec(spec, theta, sig_free, z, eps))

    # ---- rarely a negative population scale in the last vector
    L = layout(spec)
    bad_pos = None
    if gen.chance(draw, 0.07):
        cands = _scale_positions(pop, n_s)
        if cands:
            bad_pos = draw(st.sampled_from(cands))
            spec['bad'] = N_VEC - 1

    # ---- prior over the top-level entries; rarely one vector is rejected by construction
    # (a support-restricted prior is chosen only where all three vectors lie inside it, except rarely)
    prior = llbuild.draw_prior(draw, L['n_top'], [min(t[k] for t in tops) for k in range(L['n_top'])])
    if bad_pos is not None:
        prior[bad_pos] = dict(kind='gaussian', a=0.0, b=2.0)
    elif gen.chance(draw, 0.08):
        j = draw(st.integers(0, N_VEC - 1))
        k = draw(st.integers(0, L['n_top'] - 1))
        v = spec['vecs'][j][k]
        prior[k] = dict(kind='uniform', a=0.0, b=gen.r6(0.5 * v)) if v > 0 else dict(kind='lognormal', a=0.0, b=1.0)
        spec['reject'] = [j, k]
    spec['prior'] = prior

    # ---- conditioning: positive simulated values under log-normal parts, no degenerate block
    for j in range(N_VEC):
        v = separate(spec, spec['vecs'][j])
        assume(v is not None)
        spec['vecs'][j] = v
        if lognormal:
            y = ref_sim(spec, np.array(v, dtype=float))
            assume(float(np.min(np.real(y))) > 1e-2)
    if bad_pos is not None:
        spec['vecs'][N_VEC - 1][bad_pos] = -abs(spec['vecs'][N_VEC - 1][bad_pos]) - 0.1
    return spec


def _cov_hetero(pop):
    k = pop['kind']
    if k == 'cov':
        return pop['base']['kind'] == 'hetero'
    if k == 'comp':
        return any(_cov_hetero(p) for p in pop['parts'])
    return False


def _cov_pooled(pop):
    k = pop['kind']
    if k == 'cov':
        return pop['base']['kind'] == 'pooled'
    if k == 'comp':
        return any(_cov_pooled(p) for p in pop['parts'])
    return False


def strategy(tier):
    return _spec()


# --------------------------------------------------------------------------
# bounded enumeration with deterministic values
# --------------------------------------------------------------------------
_ENUM_LEAVES = {
    'G': dict(kind='gauss', n_dim=1, centered=True),
    'L': dict(kind='lognorm', n_dim=1, centered=False),
    'P': dict(kind='pooled', n_dim=1),
    'H': dict(kind='hetero', n_dim=1),
    'cP': dict(kind='cov', base=dict(kind='pooled', n_dim=1), n_cov=1, sel=None),
    'cG': dict(kind='cov', base=dict(kind='gauss', n_dim=1, centered=True), n_cov=1, sel=None),
}


def _enum_theta(leaf, n_s, pos, v):
    k = leaf['kind']
    a = 0.11 * pos + 0.07 * v
    if k == 'gauss':
        return [1.3 + a, 0.25 + 0.1 * a]
    if k == 'lognorm':
        return [0.2 - a, 0.3 + 0.1 * a]
    if k == 'pooled':
        return [0.9 + a]
    if k == 'hetero':
        return [0.7 + a + 0.23 * i for i in range(n_s)]
    base = _enum_theta(leaf['base'], n_s, pos, v)
    return base + [0.05 * (1 + j % 2) * (-1) ** j for j in range(len(base))]


def extra_cases(tier):
    keys = list(_ENUM_LEAVES)
    combos = []
    for n in (1, 2, 3):
        for c in itertools.product(keys, repeat=n):
            if n == 3 and tier == 'quick' and not all(k in ('P', 'H', 'cP') for k in c):
                continue
            combos.append(c)
    out = []
    n_s, n_times = 3, 2
    # a heterogeneous dimension inside a NESTED block, every model still at its default single individual (the posterior
    # sets the number of simulated individuals on the outer model)
    nested = [(('H', 'G', 'P'), lambda q: [dict(kind='comp', parts=q[:2]), q[2]]),
              (('P', 'G', 'H'), lambda q: [q[0], dict(kind='comp', parts=q[1:])]),
              (('H', 'P', 'L'), lambda q: [dict(kind='comp', parts=q[:2]), q[2]]),
              (('G', 'H'), lambda q: [dict(kind='comp', parts=[q[0], q[1]])])]
    for c, nest in [(c, None) for c in combos] + nested:
        for free, log_scale in itertools.product([False, True], [False, True]):
            pop = dict(kind='comp', parts=[dict(_ENUM_LEAVES[k]) for k in c])
            if nest is not None:
                pop = dict(kind='comp', parts=nest(pop['parts']))
            n_par = len(c)
            n_cov = ref.pop_n_cov(pop)
            cov = None if n_cov == 0 else [[round(0.5 * math.sin(1.0 + 1.7 * s + 0.9 * q), 6) for q in range(n_cov)]
                                           for s in range(n_s)]
            spec = dict(n_out=1, n_par=n_par, pop=pop, n_samples=n_s, late=nest is not None,
                        parts=[dict(kind='gauss', nt=n_times)], composed=False,
                        obs=[[[2.1, 3.4]], [[1.7, None]]], times=[1.5, 0.4],
                        sigma=None if free else [0.3], log_scale=log_scale, cov=cov, cov_1d=False,
                        prior=None, vecs=[], bad=None, reject=None)
            L = layout(spec)
            spec['prior'] = [dict(kind='gaussian', a=0.5, b=3.0) for _ in range(L['n_top'])]
            for v in range(N_VEC):
                theta = []
                for pos, k in enumerate(c):
                    theta += _enum_theta(_ENUM_LEAVES[k], n_s, pos, v)
                z = [[round(1.4 * math.sin(0.7 + 2.3 * s + 1.1 * d + 0.9 * v), 6) for d in range(n_par)]
                     for s in range(n_s)]
                eps = [[[round(1.8 * math.sin(0.3 + 1.9 * s + 2.7 * k + 1.3 * v), 6) for k in range(n_times)]]
                       for s in range(n_s)]
                spec['vecs'].append(assemble_vec(spec, [round(t, 6) for t in theta],
                                                 [round(0.2 + 0.1 * v, 6)] if free else [], z, eps))
            out.append(spec)
    return out



# --------------------------------------------------------------------------
# measurement of the generator
# --------------------------------------------------------------------------
def _special_flags(spec):
    return [s is not None for s in ref.pop_special(spec['pop'])]


def classify(spec):
    pop = spec['pop']
    labs = set()
    for lf in popgen.leaves(pop):
        labs.add('kind:' + lf['kind'])
        if lf['kind'] in ('gauss', 'lognorm') and not lf.get('centered', True):
            labs.add('noncentered')
    for k in ('cov', 'comp'):
        if popgen.has(pop, k):
            labs.add(k)
    if spec['n_samples'] >= 10:
        labs.add('n_samples>=10')
    if pop['kind'] != 'comp':
        labs.add('bare')
    if pop['kind'] == 'comp' and any(p['kind'] == 'comp' for p in pop['parts']):
        labs.add('nested')
    kinds = [lf['kind'] for lf in popgen.leaves(pop)]
    if all(k == 'pooled' for k in kinds) and not popgen.has(pop, 'cov'):
        labs.add('all_pooled')
    if all(k == 'hetero' for k in kinds) and not popgen.has(pop, 'cov'):
        labs.add('all_hetero')
    if _cov_pooled(pop):
        labs.add('cov_pooled')
    if _cov_hetero(pop):
        labs.add('cov_hetero')
    sp = _special_flags(spec)
    if any(sp) and not all(sp):
        labs.add('mixed_special')
    if any(sp[:-1]):
        labs.add('special_not_last')
    if spec['sigma'] is None:
        labs.add('sigma:free')
        if any(sp):
            labs.add('free_sigma+special')
    else:
        labs.add('sigma:fixed')
        if any(v == 0 for v in spec['sigma']):
            labs.add('sigma:zero')
    labs.add('noise:log' if spec['log_scale'] else 'noise:additive')
    if spec['cov'] is not None:
        labs.add('cov:1d' if spec['cov_1d'] else 'cov:2d')
    if spec['times'] != sorted(spec['times']):
        labs.add('times:unsorted')
    labs.add('filter:composed' if spec['composed'] else 'filter:plain')
    for p in spec['parts']:
        labs.add('filter:' + p['kind'])
        if p['kind'] in rf.LOGNORMAL:
            labs.add('filter:lognormal')
    if any(v is None for a in spec['obs'] for b in a for v in b):
        labs.add('nan')
    if spec['n_samples'] == 2:
        labs.add('n_samples=2')
    if spec['n_out'] >= 2:
        labs.add('n_out>=2')
    if spec.get('late'):
        labs.add('late_n_ids')
    if spec['bad'] is not None:
        labs.add('bad_scale')
    L = layout(spec)
    n_fin = 0
    for v in spec['vecs']:
        if not np.isfinite(np.real(llbuild.ref_prior(spec['prior'], v[:L['n_top']]))):
            labs.add('prior_rejected')
        else:
            n_fin += 1
    if n_fin - (1 if spec['bad'] is not None else 0) >= 2:
        labs.add('offset_tested')
    return sorted(labs)


def nontrivial(spec):
    sp = _special_flags(spec)
    if spec['n_out'] * len(spec['times']) < 2:
        return False
    return any(sp[:-1]) or (spec['sigma'] is None and any(sp))


def structure(spec):
    return [popgen.structure(spec['pop']), spec['n_samples'], spec['n_out'], spec['parts'], spec['composed'],
            ranks(spec['times']), [len(spec['obs'])],
            'free' if spec['sigma'] is None else [v == 0 for v in spec['sigma']], spec['log_scale'],
            None if spec['cov'] is None else spec['cov_1d'], bool(spec.get('late')), spec['bad'] is not None]


# --------------------------------------------------------------------------
# check
# --------------------------------------------------------------------------
def build(spec, filt=None):
    import chi
    from vf.analytic_model import AnalyticModel
    n_s = spec['n_samples']
    model = AnalyticModel(spec['n_out'], spec['n_par'], PAR_NAMES[:spec['n_par']], OUT_NAMES[:spec['n_out']])
    if filt is None:
        filt = rf.build(spec['parts'], _obs(spec), spec['composed'])
    pm = ref.build_pop(spec['pop'], None, None if spec.get('late') else n_s)
    cov = None
    if spec['cov'] is not None:
        cov = np.array(spec['cov'][0], dtype=float) if spec['cov_1d'] else np.array(spec['cov'], dtype=float)
    return chi.PopulationFilterLogPosterior(
        population_filter=filt, times=np.array(spec['times'], dtype=float), mechanistic_model=model,
        population_model=pm, log_prior=llbuild.build_prior(spec['prior']),
        sigma=None if spec['sigma'] is None else list(spec['sigma']),
        error_on_log_scale=spec['log_scale'], n_samples=n_s, covariates=cov)


def _scalar(v):
    if np.ma.is_masked(v):
        return float('nan')
    return float(v)


def check(case):
    s = case.spec
    L = layout(s)
    vecs = [np.array(v, dtype=float) for v in s['vecs']]
    names_want, ids_want = names_ids(s)

    with case.clause('construct'):
        user_filter = rf.build(s['parts'], _obs(s), s['composed'])
        P = build(s, filt=user_filter)
    if case.fails:
        return

    # The user's filter object is re-used for a second posterior (same data, e.g. another noise
    # model or prior): both posteriors must score the data in the order of `times`, and building
    # the second must not change the first.
    with case.clause('shared_filter'):
        v0 = np.array(s['vecs'][0], dtype=float)
        before = P(v0.copy())
        P2 = build(s, filt=user_filter)
        after = P(v0.copy())
        second = P2(v0.copy())
        if np.isfinite(before):
            case.close(after, before, rtol=1e-12, what='first posterior after a second one was built from the same filter')
            case.close(second, before, rtol=1e-12, what='second posterior built from the same filter object')
        P3 = build(s)
        fresh = P3(v0.copy())
        if np.isfinite(fresh):
            case.close(before, fresh, rtol=1e-12, what='posterior from the shared filter vs posterior from a fresh filter')

    # the user sorts the filter themselves (sort_times(argsort(times))) and hands it over with the sorted times: the same
    # posterior as from the unsorted inputs
    tm = np.array(s['times'], dtype=float)
    if len(set(tm.tolist())) == len(tm) and len(tm) >= 2:
        with case.clause('presorted_filter'):
            order = np.argsort(tm)
            f4 = rf.build(s['parts'], _obs(s), s['composed'])
            f4.sort_times(order.copy())
            P4 = build(dict(s, times=[float(v) for v in tm[order]]), filt=f4)
            a, b = P(v0.copy()), P4(v0.copy())
            if np.isfinite(a):
                case.close(b, a, rtol=1e-12, what='posterior from a filter sorted by the user and sorted times vs posterior from '
                                                  'the unsorted inputs')
            if list(order) != list(range(len(tm))):
                case.labels.append('presorted_filter:nontrivial')
            # the sorted composed filter nested inside another composed filter: it keeps its remembered order
            import chi
            if isinstance(f4, chi.ComposedPopulationFilter):
                f5 = rf.build(s['parts'], _obs(s), s['composed'])
                f5.sort_times(order.copy())
                P5 = build(dict(s, times=[float(v) for v in tm[order]]), filt=chi.ComposedPopulationFilter([f5]))
                c_ = P5(v0.copy())
                if np.isfinite(a):
                    case.close(c_, a, rtol=1e-12, what='posterior from a sorted composed filter nested in another composed '
                                                      'filter vs posterior from the unsorted inputs')

    with case.clause('counts'):
        case.equal(int(P.n_parameters()), L['n_total'], 'n_parameters()')
        case.equal(int(P.n_parameters(exclude_bottom_level=True)), L['n_top'], 'n_parameters(exclude_bottom_level)')
        case.equal(len(P.get_parameter_names()), L['n_total'], 'len(get_parameter_names())')
        case.equal(len(P.get_parameter_names(exclude_bottom_level=True)), L['n_top'], 'len(top-level names)')
        case.equal(len(P.get_id()), L['n_total'], 'len(get_id())')
        case.equal(int(P.n_samples()), s['n_samples'], 'n_samples()')

    with case.clause('names'):
        case.equal(list(P.get_parameter_names()), names_want, 'parameter names')
        case.equal(list(P.get_id()), ids_want, 'ids')
        case.equal(list(P.get_id(unique=True)), ['Sim. %d' % (k + 1) for k in range(s['n_samples'])], 'unique ids')
        incl = [(i + ' ' + n) if i else n for n, i in zip(names_want, ids_want)]
        case.equal(list(P.get_parameter_names(include_ids=True)), incl, 'names with ids')
        case.equal(list(P.get_parameter_names(exclude_bottom_level=True)), names_want[:L['n_top']],
                   'top-level names')

    # ---- reference values; conditioning guard
    wants, decidable = [], []
    for v in vecs:
        w = ref_post(s, v)
        w = float(np.real(w))
        wants.append(w)
        ok = True
        if np.isfinite(w):
            y = ref_sim(s, v)
            ok = not degenerate_blocks(s, y) and bool(np.all(np.isfinite(np.real(y))))
            if any(p['kind'] in rf.LOGNORMAL for p in s['parts']) and np.min(np.real(y)) <= 0:
                ok = False
        decidable.append(ok)

    # ---- value (modulo one constant per configuration); -inf exactly
    gots = [None] * len(vecs)
    # the same vector in other forms: read-only / non-contiguous arrays, and whole numbers typed as integers
    with case.clause('argument_forms'):
        from vf.core import array_forms
        base = _scalar(P(vecs[0].copy()))
        for label, arg in array_forms(vecs[0]):
            case.close(_scalar(P(arg)), base, rtol=1e-12, what='value for the vector given as %s' % label)
        if np.isfinite(base):
            g_base = np.asarray(P.evaluateS1(vecs[0].copy())[1], dtype=float)
            for label, arg in array_forms(vecs[0]):
                case.close(np.asarray(P.evaluateS1(arg)[1], dtype=float), g_base, rtol=1e-12,
                           what='gradient for the vector given as %s' % label)
        v_i = np.maximum(1, np.round(np.abs(vecs[0]))).astype(int)
        b_i = _scalar(P(v_i.astype(float)))
        for label, arg in (('an int array', v_i), ('a list of Python ints', v_i.tolist())):
            case.close(_scalar(P(arg)), b_i, rtol=1e-12, what='value for whole numbers given as %s vs as floats' % label)
            if np.isfinite(b_i):
                case.close(np.asarray(P.evaluateS1(arg)[1], dtype=float),
                           np.asarray(P.evaluateS1(v_i.astype(float))[1], dtype=float), rtol=1e-12,
                           what='gradient for whole numbers given as %s vs as floats' % label)

    with case.clause('value'):
        for k, v in enumerate(vecs):
            gots[k] = _scalar(P(v.copy()))
        offs = []
        for k in range(len(vecs)):
            if not decidable[k]:
                continue
            if not np.isfinite(wants[k]):
                case.close(gots[k], wants[k], what='value of vector %d (reference is not finite)' % k, kind='neg_inf')
                continue
            case.true(np.isfinite(gots[k]), 'vector %d: got %r where the reference is finite (%r)' % (
                k, gots[k], wants[k]), kind='nonfinite')
            offs.append((k, gots[k] - wants[k], max(1.0, abs(gots[k]), abs(wants[k]))))
        if not any(decidable):
            raise Inconclusive()
        for (k, d, sc) in offs[1:]:
            k0, d0, sc0 = offs[0]
            case.true(abs(d - d0) <= 1e-8 * max(sc, sc0),
                      'chi - reference is not a configuration constant: vector %d: %r - %r = %r, vector %d: '
                      '%r - %r = %r' % (k0, gots[k0], wants[k0], d0, k, gots[k], wants[k], d))

    # ---- evaluateS1: score, shape, -inf consistency
    grads = [None] * len(vecs)
    with case.clause('s1_score'):
        for k, v in enumerate(vecs):
            out = P.evaluateS1(v.copy())
            case.equal(len(out), 2, 'length of the tuple returned by evaluateS1', kind='shape')
            sc = _scalar(out[0])
            ref_val = gots[k] if gots[k] is not None else wants[k]
            if gots[k] is None and np.isfinite(wants[k]):
                pass        # plain evaluation failed: nothing to compare the score with
            elif np.isfinite(ref_val):
                case.close(sc, ref_val, rtol=1e-10, what='evaluateS1 score vs __call__ (vector %d)' % k)
            else:
                case.true(not np.isfinite(sc) and sc < 0, 'vector %d: evaluateS1 score %r where __call__ gives %r' % (
                    k, sc, ref_val), kind='neg_inf')
            g = np.asarray(out[1], dtype=float)
            case.equal(g.shape, (L['n_total'],), 'sensitivities shape (vector %d)' % k, kind='shape')
            grads[k] = g

    # ---- gradient at the first and the last vector with a finite, decidable reference (where chi's own value is
    # finite too: a non-finite value is the subject of clause 'value')
    kk = [k for k in range(len(vecs)) if decidable[k] and np.isfinite(wants[k]) and grads[k] is not None
          and (gots[k] is None or np.isfinite(gots[k]))]
    for k in sorted(set(kk[:1] + kk[-1:])):
        with case.clause('s1_gradient'):
            gw = ref.cgrad(lambda z: ref_post(s, z), vecs[k])
            g = grads[k]
            err = np.abs(g - gw)
            # entry-wise 1e-7 relative; plus a norm-wise floor for entries that are the (nearly cancelling) sum of
            # terms of the size of the largest entries (data many bandwidths away from the simulated values)
            tol = 1e-7 * np.maximum(1.0, np.maximum(np.abs(g), np.abs(gw))) + 1e-11 * float(np.max(np.abs(gw)))
            wrong = ~(err <= tol)
            if np.any(wrong):
                j = int(np.argmax(np.where(np.isfinite(err), err / tol, np.inf)))
                blocks = sorted({_block(L, int(i)) for i in np.nonzero(wrong)[0]})
                case.fail('mismatch:' + '+'.join(blocks), 'vector %d, d/d[%d] (%s, %s): got %r expected %r (n_bad=%d of '
                          '%d)' % (k, j, names_want[j], ids_want[j], g[j], gw[j], int(wrong.sum()), len(g)))

    # ---- a plain evaluation after a gradient evaluation gives the same number
    if gots[0] is not None:
        with case.clause('repeat'):
            again = _scalar(P(vecs[0].copy()))
            case.close(again, gots[0], rtol=0, atol=0, what='__call__ after evaluateS1')


def _block(L, i):
    if i < L['n_pop']:
        return 'pop'
    if i < L['n_top']:
        return 'sigma'
    if i < L['end_bottom']:
        return 'bottom'
    return 'eps'


RULE += (' Classes and clauses added in later rounds of the seeded-change protocol (DESIGN 9.4) are named in REQUIRED '
         'and in seeded/HISTORY.json; the evidence counts every one of them under classes.')
