"""C01 - Individual log-likelihood sums each observation's density exactly once."""
import math

import numpy as np
from hypothesis import strategies as st

from vf import core, gen, ref, llbuild

ID = 'C01'
BUDGET = {'quick': 3000, 'thorough': 100000}
RULE = (
    'Hypothesis draws an analytic mechanistic model (1-4 outputs, 1-5 parameters), one of the four error models per '
    'output (optionally a ReducedErrorModel with fixed entries), per-output time grids built from a shared pool of '
    '1-8 times by a relation class (identical / disjoint / nested / overlapping / free, optionally with a tied time; '
    'a decreasing grid must be rejected by the constructor), positive observations, parameters in support (psi '
    'log-uniform [0.1,10], sigma [0.05,5]) or one non-positive scale, and a prior for the posterior clause. '
    'Non-trivial: >=2 outputs whose grids are not identical, or a tied time. Distinct = distinct (n_out, n_par, '
    'error models + fixed sets, grid lengths, relation class, tied flag).')
RULE += (' ' + 'Added classes: outputs that were never measured (empty observation lists, also in front of measured outputs); negative mechanistic parameters / model outputs where every error model admits them (Gaussian; constant+multiplicative with sigma_base + sigma_rel*ybar > 0); one argument buffer updated in place between evaluations.')
ASSUMPTIONS = [
    'the analytic mechanistic model (vf/analytic_model.py) is part of the harness',
    'reference densities from the error-model docstrings (vf/ref.py)',
    'for tied times the order of the pointwise values within the tie group is not specified (compared as multiset)']
REQUIRED = ['tmode:identical', 'tmode:disjoint', 'tmode:nested', 'tmode:overlap', 'tmode:free', 'tmode:single',
            'tied', 'oos', 'decreasing', 'len1', 'em:gauss', 'em:mult', 'em:cm', 'em:lognorm', 'reduced_em',
            'unmeasured_output_first', 'negative_outputs:cm', 'long_series', 'nothing_measured', 'sbml_model:3_states']


@st.composite
def _spec(draw):
    if gen.chance(draw, 0.08):
        # "any mechanistic model": a generated SBML / PKPD model (closed-form solution) instead of the analytic one
        from vf.props import c03
        sb = draw(c03._spec().filter(lambda q: q['kind'] == 'sbml' and q['prior'] is None and not q['fixed']))
        return dict(sbml=sb)
    ll = llbuild.draw_ll(draw, allow_empty=True)
    long_ = None
    if gen.chance(draw, 0.06):
        # long series at a common magnitude far from 1 (tumour volumes ~1e3, concentrations ~1e-4): sums of logs are
        # fine, products over the series are not. The values come from a seeded generator (the spec stores them).
        import random
        long_ = dict(n=draw(st.sampled_from([120, 300, 700])), mag=draw(st.sampled_from([1e-4, 1e-2, 1e3])),
                     seed=draw(st.integers(0, 10 ** 6)))
        rng = random.Random(long_['seed'])
        o = draw(st.integers(0, ll['n_out'] - 1))
        ll['times'][o] = [gen.r6(0.05 * (k + 1)) for k in range(long_['n'])]
        ll['obs'][o] = [gen.r6(long_['mag'] * math.exp(rng.uniform(-0.7, 0.7))) for _ in range(long_['n'])]
        ll['tied'] = False
    params = llbuild.draw_ll_params(draw, ll)
    if long_ is not None:
        # model outputs of the same magnitude as the observations
        params = [gen.r6(v * long_['mag']) for v in params[:ll['n_par']]] + params[ll['n_par']:]
    signed = False
    if gen.chance(draw, 0.25):
        sp = llbuild.draw_signed_params(draw, ll, params)
        if sp is not None:
            params, signed = sp, True
    oos = None
    nsig = sum(llbuild.ll_n_sigma(ll))
    # (a non-positive scale of an output that was never measured: not stated whether it rejects the vector)
    cand, pos = [], 0
    for o, k in enumerate(llbuild.ll_n_sigma(ll)):
        if ll['times'][o]:
            cand += list(range(pos, pos + k))
        pos += k
    if cand and not signed and gen.chance(draw, 0.1):
        oos = draw(st.sampled_from(cand))
        params[ll['n_par'] + oos] = draw(st.sampled_from([0.0, -0.5]))
    decreasing = False
    if gen.chance(draw, 0.05):
        cands = [o for o in range(ll['n_out']) if len(set(ll['times'][o])) >= 2]
        if cands:
            o = draw(st.sampled_from(cands))
            ll['times'][o] = list(reversed(ll['times'][o]))
            decreasing = True
    ll['flat_single'] = ll['n_out'] == 1 and draw(st.booleans())
    prior = llbuild.draw_prior(draw, llbuild.ll_n_parameters(ll), params)
    return dict(ll=ll, params=params, oos=oos, decreasing=decreasing, prior=prior, signed=signed, long=long_)


def strategy(tier):
    return _spec()


def classify(spec):
    if spec.get('sbml'):
        return ['sbml_model'] + (['sbml_model:3_states'] if len(spec['sbml']['ms']['comps']) + len(spec['sbml']['ms']['gstates']) >= 3 else [])
    ll = spec['ll']
    labs = ['tmode:' + ll['tmode']]
    if ll['tied']:
        labs.append('tied')
    if spec['oos'] is not None:
        labs.append('oos')
    if spec['decreasing']:
        labs.append('decreasing')
    if any(len(t) == 1 for t in ll['times']):
        labs.append('len1')
    if any(len(t) == 0 for t in ll['times']):
        labs.append('unmeasured_output')
        if not any(ll['times']):
            labs.append('nothing_measured')
        elif min(o for o in range(ll['n_out']) if ll['times'][o]) > 0:
            labs.append('unmeasured_output_first')
    if spec.get('long'):
        labs.append('long_series')
    if spec.get('signed'):
        labs.append('negative_outputs')
        if any(e['kind'] == 'cm' for e in ll['ems']):
            labs.append('negative_outputs:cm')
    for e in ll['ems']:
        labs.append('em:' + e['kind'])
        if e['fixed']:
            labs.append('reduced_em')
    return sorted(set(labs))


def nontrivial(spec):
    if spec.get('sbml'):
        return spec['sbml']['ll']['n_out'] >= 2
    ll = spec['ll']
    if spec['decreasing'] or spec['oos'] is not None:
        return False
    grids = [tuple(t) for t in ll['times']]
    return (ll['n_out'] >= 2 and len(set(grids)) > 1) or ll['tied']


def structure(spec):
    if spec.get('sbml'):
        from vf import sbmlgen
        return ['sbml', sbmlgen.structure(spec['sbml']['ms']), spec['sbml']['outputs']]
    return llbuild.ll_structure(spec['ll']) + [spec['oos'] is not None, spec['decreasing']]


def _canon(pw, times):
    """Sort values within groups of tied times."""
    pw = np.asarray(pw, dtype=float)
    out = []
    t = np.asarray(times, dtype=float)
    i = 0
    while i < len(t):
        j = i
        while j < len(t) and t[j] == t[i]:
            j += 1
        out += sorted(pw[i:j].tolist())
        i = j
    return np.array(out)


def _check_sbml(case, s):
    """LogLikelihood over a generated SBML / PKPD model: total and pointwise values vs the closed-form solution."""
    import chi
    from vf import sbmlgen, simshim, ref
    simshim.install()
    L = None
    with case.clause('construct'):
        ms, admin = s['ms'], s['admin']
        M = sbmlgen.build(ms, chi.PKPDModel)
        if admin is not None:
            comp = ms['comps'][admin['comp']]
            M.set_administration(comp['id'], amount_var='%s_amount' % comp['sid'], direct=admin['direct'])
        M.set_outputs(list(s['outputs']))
        if s['reg'] is not None:
            r = s['reg']
            M.set_dosing_regimen(dose=r['dose'], start=r['start'], duration=r['duration'], period=r['period'], num=r['num'])
        ll = s['ll']
        L = chi.LogLikelihood(M, llbuild.build_error_models(ll), [np.array(o) for o in ll['obs']],
                              [np.array(t) for t in ll['times']])
    if L is None or case.fails:
        return
    z = np.array(s['params'], dtype=float)
    tmax = max([t for ts in ll['times'] for t in ts] + [1.0])
    ev = []
    if s['reg'] is not None:
        r = s['reg']
        ev = sbmlgen.regimen_events(r['dose'], r['start'], r['duration'], r['period'], r['num'], tmax + 1.0)
    sigs = llbuild.split_sigmas(ll, z)
    want = 0.0
    for o, e in enumerate(ll['ems']):
        t = np.array(ll['times'][o], dtype=float)
        ybar = np.real(sbmlgen.ref_simulate(ms, z[:ll['n_par']], t, [s['outputs'][o]], admin, ev)[0]) if len(t) else np.zeros(0)
        want += float(np.real(ref.em_loglik(e['kind'], sigs[o], ybar, np.array(ll['obs'][o], dtype=float))))
    with case.clause('counts'):
        case.equal(L.n_parameters(), len(z), 'n_parameters')
        case.equal(len(L.get_parameter_names()), len(z), 'len(names)')
    with case.clause('value'):
        case.close(L(z.copy()), want, rtol=1e-6, atol=1e-8, what='log-likelihood over an SBML model vs closed form')
    with case.clause('pointwise'):
        pw = np.asarray(L.compute_pointwise_ll(z.copy()), dtype=float)
        case.equal(len(pw), sum(len(t) for t in ll['times']), 'len(pointwise)', kind='shape')
        case.close(float(np.sum(pw)), want, rtol=1e-6, atol=1e-8, what='sum(pointwise) over an SBML model vs closed form')


def check(case):
    s = case.spec
    if s.get('sbml'):
        _check_sbml(case, s['sbml'])
        return
    ll = s['ll']
    params = np.array(s['params'], dtype=float)

    if s['decreasing']:
        with case.clause('decreasing_rejected'):
            try:
                llbuild.build_ll(ll)
            except ValueError:
                pass
            else:
                case.fail('accepted', 'a decreasing time grid was accepted by the constructor')
        return

    with case.clause('construct'):
        user_model = llbuild.build_model(ll)
        L = llbuild.build_ll(ll, model=user_model)
    if case.fails:
        return

    want_pw = [np.real(p) for p in llbuild.ref_pointwise(ll, params)]
    want = float(sum(np.sum(p) for p in want_pw))

    with case.clause('counts'):
        case.equal(L.n_parameters(), llbuild.ll_n_parameters(ll), 'n_parameters')
        case.equal(L.get_parameter_names(), llbuild.ll_names(ll), 'parameter names')
        case.equal([int(n) for n in L.n_observations()], [len(t) for t in ll['times']], 'n_observations')

    with case.clause('value'):
        got = L(params.copy())
        case.true(isinstance(got, (float, np.floating)), 'score is not a float: %r' % type(got), kind='type')
        case.close(got, want, rtol=1e-9, what='log-likelihood')

    if s['oos'] is None:
        with case.clause('pointwise'):
            pw = np.asarray(L.compute_pointwise_ll(params.copy()), dtype=float)
            case.equal(len(pw), sum(len(t) for t in ll['times']), 'len(pointwise)', kind='shape')
            pos = 0
            for o in range(ll['n_out']):
                n = len(ll['times'][o])
                case.close(_canon(pw[pos:pos + n], ll['times'][o]), _canon(want_pw[o], ll['times'][o]),
                           rtol=1e-9, what='pointwise values of output %d' % o)
                pos += n
            case.close(np.sum(pw), L(params.copy()), rtol=1e-9, what='sum(pointwise) vs total')
    else:
        with case.clause('pointwise_oos'):
            pw = np.asarray(L.compute_pointwise_ll(params.copy()), dtype=float)
            case.close(np.sum(pw), -np.inf, what='sum of pointwise values with a non-positive scale')

    if s['oos'] is None:
        # The caller re-uses one parameter array and updates it in place between evaluations (as
        # optimisers do): the value must follow the array's current content.
        with case.clause('inplace_buffer'):
            buf = params.copy()
            for rnd in range(3):
                j = rnd % len(buf)
                got = L(buf)
                case.close(got, float(np.real(llbuild.ref_ll(ll, buf))), rtol=1e-9,
                           what='log-likelihood at a re-used buffer after %d in-place updates' % rnd)
                case.close(np.sum(L.compute_pointwise_ll(buf)), got, rtol=1e-9,
                           what='sum(pointwise) at the re-used buffer')
                if not core.still_writeable(case, buf, 'LogLikelihood.__call__ / compute_pointwise_ll'):
                    break
                buf[j] *= 1.01

    with case.clause('posterior'):
        import chi
        prior = llbuild.build_prior(s['prior'])
        P = chi.LogPosterior(L, prior)
        lp = float(np.real(llbuild.ref_prior(s['prior'], params)))
        case.close(P(params.copy()), lp + want if np.isfinite(lp) else -np.inf, rtol=1e-9,
                   what='log-posterior = log-prior + log-likelihood')
        case.equal(P.n_parameters(), L.n_parameters(), 'posterior n_parameters')
        case.equal(P.get_parameter_names(), L.get_parameter_names(), 'posterior names')

    # whole-number parameters typed as integers (int array, list / tuple of Python ints) are the same vector
    if s['oos'] is None and not s.get('signed') and not s.get('long'):
        with case.clause('integer_vector'):
            p_i = np.maximum(1, np.round(np.abs(params))).astype(int)
            p_f = p_i.astype(float)
            want_i = float(np.real(llbuild.ref_ll(ll, p_f)))
            case.close(L(p_f.copy()), want_i, rtol=1e-9, what='log-likelihood at a whole-number vector (floats)')
            for label, arg in (('an int array', p_i), ('a list of Python ints', p_i.tolist()),
                               ('a tuple of Python ints', tuple(p_i.tolist()))):
                case.close(L(arg), want_i, rtol=1e-9, what='log-likelihood for whole numbers given as %s' % label)
                case.close(np.sum(L.compute_pointwise_ll(arg)), want_i, rtol=1e-9,
                           what='sum(pointwise) for whole numbers given as %s' % label)
                sc_i, g_i = L.evaluateS1(arg)
                sc_f, g_f = L.evaluateS1(p_f.copy())
                case.close(sc_i, want_i, rtol=1e-9, what='evaluateS1 score for whole numbers given as %s' % label)
                case.close(np.asarray(g_i, dtype=float), np.asarray(g_f, dtype=float), rtol=1e-12,
                           what='evaluateS1 gradient for whole numbers given as %s vs as floats' % label)

    # the parameter vector in other array forms (read-only, non-contiguous view)
    if s['oos'] is None:
        with case.clause('array_forms'):
            from vf.core import array_forms
            for label, arg in array_forms(params):
                case.close(L(arg), want, rtol=1e-9, what='log-likelihood for the parameters given as %s' % label)
                sc_a, g_a = L.evaluateS1(arg)
                case.close(sc_a, want, rtol=1e-9, what='evaluateS1 score for the parameters given as %s' % label)
                case.close(np.sum(L.compute_pointwise_ll(arg)), want, rtol=1e-9,
                           what='sum(pointwise) for the parameters given as %s' % label)

    # A parameter is fixed, re-fixed at another value (as in a profile scan) and released again: every evaluation
    # uses the value of the LAST call.
    if s['oos'] is None and len(params) >= 2:
        with case.clause('refix_scan'):
            names_all = list(L.get_parameter_names())
            # one mechanistic parameter and one error model parameter (the last one), one after the other
            for k in sorted({(len(params) * 7) // 11, len(params) - 1}):
                rest = np.delete(params, k)
                # (the last evaluation before the fix was one WITH sensitivities: they are still switched on inside)
                L.evaluateS1(params.copy())
                # (the argument only has to be convertible to a dictionary: a list of pairs, a one-shot zip)
                L.fix_parameters([(names_all[k], float(params[k]) * 1.7 + 0.3)])
                L.fix_parameters(zip([names_all[k]], [float(params[k])]))
                case.equal(list(L.get_parameter_names()), [n for j, n in enumerate(names_all) if j != k],
                           'names after fixing %r twice' % names_all[k])
                # reading the likelihood's description in between is not a configuration call
                sub = L.get_submodels()
                case.equal(sorted(sub.keys()), ['Error models', 'Mechanistic model'], 'keys of get_submodels()')
                case.equal(len(sub['Error models']), ll['n_out'], 'number of error models in get_submodels()')
                L.get_id(), L.n_parameters(), list(L.n_observations())
                case.close(L(rest.copy()), want, rtol=1e-9,
                           what='log-likelihood after re-fixing %r at its value and reading get_submodels()' % names_all[k])
                case.close(np.sum(L.compute_pointwise_ll(rest.copy())), want, rtol=1e-9,
                           what='sum(pointwise) after re-fixing %r at its value' % names_all[k])
                case.equal(list(L.get_parameter_names()), [n for j, n in enumerate(names_all) if j != k],
                           'names after reading get_submodels() with %r fixed' % names_all[k])
                L.fix_parameters({names_all[k]: None})
                case.equal(list(L.get_parameter_names()), names_all, 'names after releasing %r' % names_all[k])
                case.close(L(params.copy()), want, rtol=1e-9, what='log-likelihood after releasing %r again' % names_all[k])

    # Several parameters are fixed in ONE call whose dictionary lists them in another order than the model does (and with
    # different values): every value lands on the parameter it is named for.
    if s['oos'] is None and len(params) >= 3 and L.n_parameters() == len(params):
        with case.clause('refix_multi'):
            names_all = list(L.get_parameter_names())
            n = len(params)
            ks = sorted({0, min(ll['n_par'] - 1, 1), n - 1})         # mechanistic ones and the last error parameter
            vals = {k: float(params[k]) * (1.0 + 0.13 * (j + 1)) for j, k in enumerate(ks)}
            L.fix_parameters({names_all[k]: vals[k] for k in reversed(ks)})
            full = params.copy()
            for k in ks:
                full[k] = vals[k]
            free = [j for j in range(n) if j not in ks]
            case.equal(list(L.get_parameter_names()), [names_all[j] for j in free],
                       'names after fixing %r in one call' % [names_all[k] for k in reversed(ks)])
            want_m = float(np.real(llbuild.ref_ll(ll, full)))
            if free:
                case.close(L(params[free].copy()), want_m, rtol=1e-9,
                           what='log-likelihood after fixing %r in one call (dictionary in reverse model order)' % [
                               names_all[k] for k in reversed(ks)])
                case.close(np.sum(L.compute_pointwise_ll(params[free].copy())), want_m, rtol=1e-9,
                           what='sum(pointwise) after fixing several parameters in one call')
            L.fix_parameters({names_all[k]: None for k in ks})
            case.close(L(params.copy()), want, rtol=1e-9, what='log-likelihood after releasing them again')

    # The user hands over an already REDUCED mechanistic model (one parameter that is not the first one fixed, the model
    # used for a simulation at other values before): the likelihood works on its own copy of it with the same fixed value.
    if s['oos'] is None and ll['n_par'] >= 2:
        with case.clause('user_reduced_model'):
            import chi
            inner = llbuild.build_model(ll)
            red = chi.ReducedMechanisticModel(inner)
            k = ll['n_par'] - 1
            red.fix_parameters({inner.parameters()[k]: float(params[k])})
            red.simulate(np.delete(params[:ll['n_par']], k) * 1.37 + 0.11, np.array([0.3, 0.9]))
            L_r = llbuild.build_ll(ll, model=red)
            case.equal(L_r.n_parameters(), len(params) - 1, 'n_parameters of a likelihood over a reduced model')
            case.close(L_r(np.delete(params, k)), want, rtol=1e-9,
                       what='log-likelihood over a user-supplied reduced model (parameter %d fixed at its value)' % k)
            case.close(np.sum(L_r.compute_pointwise_ll(np.delete(params, k))), want, rtol=1e-9,
                       what='sum(pointwise) over a user-supplied reduced model')

    # The user goes on using their own model object (e.g. for a second likelihood over the outputs in another order):
    # the likelihood constructed before keeps scoring its observations against its own outputs.
    if s['oos'] is None:
        with case.clause('user_model_reused'):
            before = L(params.copy())
            if ll['n_out'] >= 2:
                user_model.set_outputs(list(reversed(user_model.outputs())))
            user_model.enable_sensitivities(True)
            case.close(L(params.copy()), before, rtol=0, atol=0,
                       what='log-likelihood after the user changed their model object (outputs reversed, sensitivities on)')
            case.close(L(params.copy()), want, rtol=1e-9, what='log-likelihood after the user changed their model object')


RULE += (' Classes and clauses added in later rounds of the seeded-change protocol (DESIGN 9.4) are named in REQUIRED '
         'and in seeded/HISTORY.json; the evidence counts every one of them under classes.')
