"""C04 - Error models are documented normalised densities with exact sensitivities."""
import numpy as np
from hypothesis import strategies as st
from scipy import integrate

from vf import gen, ref
from vf.core import Inconclusive

ID = 'C04'
BUDGET = {'quick': 6000, 'thorough': 300000}
RULE = (
    'Hypothesis draws (error model kind in {gauss,mult,cm,lognorm}, n_obs 1-12, model outputs, '
    'observations, sigma log-uniform in [1e-3,1e3] (outputs/observations positive for '
    'mult/cm/lognorm), output-sensitivity matrix (n_obs x p), p 0-6; 10% long vectors (150-2500 observations at a common '
    'magnitude 1e-3..1e3, generated from a spec seed); optional out-of-support '
    'class (one scale <=0, or a non-positive output for lognorm), optional ReducedErrorModel with '
    'a fixed subset). Non-trivial: in support, n_obs>=2 with pairwise distinct outputs, every '
    'residual != 0 and no sigma == 1. Distinct = distinct (kind,n_obs,p,oos,fixed-subset) tuples.')
RULE += (' ' + "Added classes: constant+multiplicative model at negative model outputs with positive total scale; the caller's float64 arrays are passed twice and must stay unchanged (second call gives the same result).")
ASSUMPTIONS = [
    'reference log-densities are written from the class docstrings (vf/ref.py) and cross-checked '
    'by numerical normalisation with scipy.integrate.quad',
    'derivative oracle: complex-step differentiation of the reference (exact to rounding)',
    'outputs of multiplicative / constant+multiplicative models are positive (negative total '
    'standard deviations are outside the documented model)']
REQUIRED = ['kind:gauss', 'kind:mult', 'kind:cm', 'kind:lognorm', 'oos', 'reduced', 'p=0', 'n=1', 'long', 'cm:negative_output', 'oos:both', 'large_common_level', 'zero_output:cm',
            'renamed_through_wrapper:two_parameters']
KINDS = ['gauss', 'mult', 'cm', 'lognorm']


@st.composite
def _long_spec(draw, kind):
    """Long observation vectors (hundreds to thousands of points) at a common magnitude: sums of
    logs are fine, products over the vector are not."""
    n = draw(st.sampled_from([150, 400, 1000, 2500]))
    mag = draw(st.sampled_from([1e-3, 1e-2, 1.0, 5.0, 100.0, 1000.0]))
    npar = ref.EM_NPAR[kind]
    seedv = draw(st.integers(0, 10 ** 6))
    sig = draw(gen.vec(gen.logu(0.05, 2.0), npar))
    if kind in ('gauss', 'cm'):
        sig[0] = gen.r6(sig[0] * mag)
    return dict(kind=kind, n=n, p=draw(st.integers(0, 2)), long=dict(mag=mag, seed=seedv), sig=sig,
                ybar=None, y=None, S=None, oos=None, fixed=None, jq=0)


@st.composite
def _spec(draw):
    kind = draw(st.sampled_from(KINDS))
    if gen.chance(draw, 0.1):
        return draw(_long_spec(kind))
    n = draw(st.integers(1, 12))
    p = draw(st.integers(0, 6))
    npar = ref.EM_NPAR[kind]
    if kind == 'gauss':
        ybar = draw(gen.vec(gen.signed_logu(1e-2, 1e2), n))
        y = draw(gen.vec(gen.signed_logu(1e-2, 1e2), n))
    else:
        ybar = draw(gen.vec(gen.logu(1e-2, 1e2), n))
        y = draw(gen.vec(gen.logu(1e-2, 1e2), n))
    if gen.chance(draw, 0.8):
        ybar = gen.distinct(ybar)
        y = [v if v != b else gen.r6(v * 1.05) for v, b in zip(y, ybar)]
    sig = draw(gen.vec(gen.logu(1e-3, 1e3), npar))
    if kind == 'cm' and gen.chance(draw, 0.35):
        # negative model outputs (e.g. change from baseline) with sigma_base + sigma_rel * ybar > 0 everywhere:
        # the documented density is a proper Gaussian there
        ybar = draw(gen.vec(gen.signed_logu(1e-2, 1e2), n))
        if gen.chance(draw, 0.8):
            ybar = gen.distinct(ybar)
        if not any(v < 0 for v in ybar):
            ybar[0] = -abs(ybar[0])
        sig[1] = draw(gen.logu(1e-3, 1e1))
        sig[0] = gen.r6(sig[1] * max(-v for v in ybar) * (1.0 + draw(gen.logu(0.05, 5.0))))
    offset = None
    if gen.chance(draw, 0.07):
        # measurements and predictions that share a large common level while residuals and scales are of order one
        # (counts around 1e7, a baseline of 4e6): the densities depend on the residuals only, which are exact here
        offset = draw(st.sampled_from([1e6, float(2 ** 24), 3e8]))
        u = draw(gen.vec(gen.real(0.0, 8.0), n))
        r = draw(gen.vec(gen.real(-3.0, 3.0), n))
        ybar = [offset + round(v * 64) / 64.0 for v in u]
        sig = draw(gen.vec(gen.logu(0.2, 4.0), npar))
        if kind == 'gauss':
            y = [b + round(q * sig[0] * 64) / 64.0 for b, q in zip(ybar, r)]
        elif kind == 'mult':
            sig[0] = gen.r6(sig[0] / offset)
            y = [b + round(q * sig[0] * b * 64) / 64.0 for b, q in zip(ybar, r)]
        elif kind == 'cm':
            sig[1] = gen.r6(sig[1] / offset)
            y = [b + round(q * (sig[0] + sig[1] * b) * 64) / 64.0 for b, q in zip(ybar, r)]
        else:
            # (log-normal: the density is a function of log y - log ybar, so the scale stays of order one)
            sig[0] = gen.r6(sig[0] / 4.0)
            y = [gen.sig6(b * float(np.exp(q * sig[0]))) for b, q in zip(ybar, r)]
        y = [v if v != b else b + 0.5 for v, b in zip(y, ybar)]
    zero_out = False
    if offset is None and kind in ('gauss', 'cm') and gen.chance(draw, 0.1):
        # a model output of exactly 0 (a pre-dose sample): the standard deviation there is sigma (gauss) or sigma_base (cm)
        ybar[draw(st.integers(0, n - 1))] = 0.0
        zero_out = True
    S = draw(gen.mat(gen.real(-5, 5), n, p))
    oos = None
    if offset is None and gen.chance(draw, 0.15):
        choices = ['sig0'] + (['sig1', 'both'] if npar == 2 else []) + (['ybar'] if kind == 'lognorm' else [])
        oos = draw(st.sampled_from(choices))
        val = draw(st.sampled_from([0.0, -1.0, -0.37]))
        if oos == 'sig0':
            sig[0] = val
        elif oos == 'sig1':
            sig[1] = val
        elif oos == 'both':
            # both scale parameters outside their domain (possibly with the same sign)
            sig[0] = val
            sig[1] = draw(st.sampled_from([0.0, -1.0, -0.37]))
        else:
            ybar[draw(st.integers(0, n - 1))] = val
    fixed = None
    if gen.chance(draw, 0.25):
        fixed = draw(gen.subset(npar, min_size=0))
    jq = draw(st.integers(0, n - 1))
    return dict(kind=kind, n=n, p=p, ybar=ybar, y=y, sig=sig, S=S, oos=oos, fixed=fixed, jq=jq, offset=offset, zero_out=zero_out)


def strategy(tier):
    return _spec()


def classify(spec):
    labs = ['kind:' + spec['kind']]
    if spec.get('long'):
        return labs + ['long']
    if spec['oos']:
        labs.append('oos')
        if spec['oos'] == 'both':
            labs.append('oos:both')
    if spec['fixed'] is not None:
        labs.append('reduced')
    if spec['p'] == 0:
        labs.append('p=0')
    if spec['n'] == 1:
        labs.append('n=1')
    if spec.get('zero_out') and not spec['oos']:
        labs.append('zero_output')
        if spec['kind'] == 'cm':
            labs.append('zero_output:cm')
    if spec.get('offset'):
        labs.append('large_common_level')
    if spec['kind'] == 'cm' and any(v < 0 for v in spec['ybar']) and not spec['oos']:
        labs.append('cm:negative_output')
    return labs


def nontrivial(spec):
    if spec.get('long'):
        return True
    if spec['oos']:
        return False
    yb = spec['ybar']
    if spec['n'] < 2 or len(set(yb)) != len(yb):
        return False
    if any(a == b for a, b in zip(spec['y'], yb)):
        return False
    return all(s != 1 for s in spec['sig'])


def structure(spec):
    if spec.get('long'):
        return [spec['kind'], spec['n'], spec['p'], 'long', spec['long']['mag']]
    return [spec['kind'], spec['n'], spec['p'], spec['oos'], spec['fixed']]


def check_long(case):
    """Long vectors: total, pointwise sum and sensitivities against the vectorised reference."""
    s = case.spec
    kind, n, p = s['kind'], s['n'], s['p']
    rng = np.random.RandomState(s['long']['seed'])          # deterministic function of the spec
    mag = s['long']['mag']
    ybar = mag * np.exp(rng.uniform(-0.5, 0.5, n))
    y = ybar * np.exp(rng.uniform(-0.3, 0.3, n))
    S = rng.uniform(-1, 1, (n, p))
    sig = np.array(s['sig'], dtype=float)
    em = ref.em_class(kind)()
    want_pw = np.real(ref.em_pointwise_vec(kind, sig, ybar, y))
    want = float(np.sum(want_pw))
    with case.clause('long_value'):
        got = em.compute_log_likelihood(sig.copy(), ybar.copy(), y.copy())
        case.close(got, want, rtol=1e-9, what='log-likelihood of %d observations of magnitude %g' % (n, mag))
    with case.clause('long_pointwise'):
        pw = em.compute_pointwise_ll(sig.copy(), ybar.copy(), y.copy())
        case.close(pw, want_pw, rtol=1e-9, what='pointwise values')
        case.close(np.sum(pw), em.compute_log_likelihood(sig.copy(), ybar, y), rtol=1e-9,
                   what='sum(pointwise) vs total')
    with case.clause('long_sensitivities'):
        sc, sens = em.compute_sensitivities(sig.copy(), ybar.copy(), S.copy(), y.copy())
        case.close(sc, want, rtol=1e-9, what='score from compute_sensitivities')
        dyb = np.imag(ref.em_pointwise_vec(kind, sig, ybar + 1e-30j, y)) / 1e-30      # separable terms
        dsig = ref.cgrad(lambda z: np.sum(ref.em_pointwise_vec(kind, z, ybar, y)), sig)
        want_s = np.concatenate([dyb @ S, dsig])
        scale = np.concatenate([np.abs(dyb) @ np.abs(S), np.abs(dsig)])
        err = np.abs(np.asarray(sens, dtype=float) - want_s)
        tol = 1e-8 * np.maximum(1.0, scale)
        if np.any(~(err <= tol)):
            k = int(np.argmax(err / tol))
            case.fail('mismatch', 'sensitivity[%d]: got %r expected %r' % (k, sens[k], want_s[k]))


def check(case):
    s = case.spec
    if s.get('long'):
        return check_long(case)
    kind = s['kind']
    ybar = np.array(s['ybar'], dtype=float)
    y = np.array(s['y'], dtype=float)
    sig = np.array(s['sig'], dtype=float)
    S = np.array(s['S'], dtype=float).reshape(s['n'], s['p'])
    n, p = s['n'], s['p']
    npar = ref.EM_NPAR[kind]

    em = ref.em_class(kind)()
    free = list(range(npar))
    if s['fixed'] is not None:
        import chi
        names = em.get_parameter_names()
        em = chi.ReducedErrorModel(em)
        em.fix_parameters({names[k]: float(sig[k]) for k in s['fixed']})
        free = [k for k in range(npar) if k not in s['fixed']]
    sig_free = sig[free]

    want_pw = np.real(ref.em_pointwise(kind, sig, ybar, y))
    want = float(np.sum(want_pw))
    insup = ref.em_in_support(kind, sig, ybar)

    with case.clause('counts'):
        case.equal(em.n_parameters(), len(free), 'n_parameters')
        case.equal(len(em.get_parameter_names()), len(free), 'len(names)')
        case.equal(em.get_parameter_names(), [ref.EM_DEFAULT_NAMES[kind][k] for k in free], 'names')

    with case.clause('value'):
        got = em.compute_log_likelihood(sig_free.copy(), ybar.copy(), y.copy())
        case.close(got, want, rtol=1e-9, what='log-likelihood')

    with case.clause('pointwise'):
        got = em.compute_pointwise_ll(sig_free.copy(), ybar.copy(), y.copy())
        case.close(got, want_pw, rtol=1e-9, what='pointwise')
        if insup:
            case.close(np.sum(got), em.compute_log_likelihood(sig_free.copy(), ybar, y),
                       rtol=1e-9, what='sum(pointwise) vs total')

    with case.clause('sensitivities'):
        sc, sens = em.compute_sensitivities(sig_free.copy(), ybar.copy(), S.copy(), y.copy())
        case.close(sc, want, rtol=1e-9, what='score from compute_sensitivities')
        sens = np.asarray(sens, dtype=float)
        case.equal(sens.shape, (p + len(free),), 'sensitivity shape', kind='shape')
        if insup:
            dyb = ref.cgrad(lambda z: ref.em_loglik(kind, sig, z, y), ybar)
            dsig = ref.cgrad(lambda z: ref.em_loglik(kind, z, ybar, y), sig)
            want_s = np.concatenate([dyb @ S, dsig[free]])
            scale = np.concatenate([np.abs(dyb) @ np.abs(S), np.abs(dsig[free])])
            err = np.abs(sens - want_s)
            tol = 1e-8 * np.maximum(1.0, scale)
            if np.any(~(err <= tol)):
                k = int(np.argmax(err / tol))
                case.fail('mismatch', 'sensitivity[%d]: got %r expected %r' % (k, sens[k], want_s[k]))

    # results handed out earlier (scores collected over posterior draws, over individuals with the same sampling times)
    # keep their values when the model is evaluated again at other inputs of the same length
    if insup:
        with case.clause('results_stable'):
            r_pw = em.compute_pointwise_ll(sig_free.copy(), ybar.copy(), y.copy())
            r_s = em.compute_sensitivities(sig_free.copy(), ybar.copy(), S.copy(), y.copy())
            keep = [np.array(r_pw, dtype=float, copy=True), np.array(r_s[1], dtype=float, copy=True)]
            y2 = y * 1.07 + (0.0 if kind in ('lognorm',) else 0.01)
            em.compute_pointwise_ll(sig_free.copy(), ybar.copy(), y2.copy())
            em.compute_sensitivities(sig_free.copy(), ybar.copy(), S.copy(), y2.copy())
            em.compute_log_likelihood(sig_free.copy(), ybar.copy(), y2.copy())
            case.true(np.array_equal(np.asarray(r_pw, dtype=float), keep[0], equal_nan=True),
                      'the pointwise scores returned by an earlier call changed after a later call with other '
                      'observations: %r -> %r' % (keep[0][:3].tolist(), np.asarray(r_pw, dtype=float)[:3].tolist()),
                      kind='result_modified')
            case.true(np.array_equal(np.asarray(r_s[1], dtype=float), keep[1], equal_nan=True),
                      'the sensitivities returned by an earlier call changed after a later call with other observations',
                      kind='result_modified')

    # the caller's arrays are inputs: the same float64 arrays passed again give the same results and keep their values
    with case.clause('inputs_unchanged'):
        a_sig, a_yb, a_S, a_y = sig_free.copy(), ybar.copy(), S.copy(), y.copy()
        first = em.compute_sensitivities(a_sig, a_yb, a_S, a_y)
        v1 = em.compute_log_likelihood(a_sig, a_yb, a_y)
        p1 = np.array(em.compute_pointwise_ll(a_sig, a_yb, a_y), dtype=float)
        second = em.compute_sensitivities(a_sig, a_yb, a_S, a_y)
        for nm, a, b in (('parameters', a_sig, sig_free), ('model output', a_yb, ybar), ('model sensitivities', a_S, S),
                         ('observations', a_y, y)):
            case.true(np.array_equal(a, b), 'the %s array passed to the error model was modified: %r -> %r' % (
                nm, np.asarray(b).tolist()[:6], np.asarray(a).tolist()[:6]), kind='input_modified')
        case.close(second[0], first[0], rtol=0, atol=0, what='score of a second compute_sensitivities call with the '
                                                             'same arrays')
        if insup:
            case.close(np.asarray(second[1], dtype=float), np.asarray(first[1], dtype=float), rtol=1e-13,
                       what='sensitivities of a second compute_sensitivities call with the same arrays')
            case.close(v1, first[0], rtol=1e-9, what='compute_log_likelihood vs score of compute_sensitivities')
            case.close(np.sum(p1), v1, rtol=1e-9, what='sum(pointwise) vs total (same arrays)')

    # the arrays in other forms (read-only, non-contiguous views, Fortran order)
    if insup:
        with case.clause('array_forms'):
            from vf.core import array_forms
            fs_sig, fs_yb, fs_y, fs_S = array_forms(sig_free), array_forms(ybar), array_forms(y), array_forms(S)
            for k in range(len(fs_sig)):
                a_sig, a_yb, a_y = fs_sig[k][1], fs_yb[k][1], fs_y[k][1]
                label = fs_sig[k][0]
                case.close(em.compute_log_likelihood(a_sig, a_yb, a_y), want, rtol=1e-9,
                           what='log-likelihood for the arrays given as %s' % label)
                case.close(np.asarray(em.compute_pointwise_ll(a_sig, a_yb, a_y), dtype=float), want_pw, rtol=1e-9,
                           what='pointwise for the arrays given as %s' % label)
            # model outputs and observations as (n, 1) columns (df[['Value']].to_numpy(), a list of one-element lists)
            col_v = em.compute_log_likelihood(sig_free.copy(), ybar[:, np.newaxis].copy(), y[:, np.newaxis].copy())
            case.close(col_v, want, rtol=1e-9, what='log-likelihood for outputs and observations given as (n, 1) columns')
            col_l = em.compute_log_likelihood(sig_free.copy(), [[float(v)] for v in ybar], [[float(v)] for v in y])
            case.close(col_l, want, rtol=1e-9, what='log-likelihood for outputs and observations given as lists of one-element '
                                                    'lists')
            sc0, se0 = em.compute_sensitivities(sig_free.copy(), ybar.copy(), S.copy(), y.copy())
            for (label, a_S) in fs_S:
                ro = [f[0][1] for f in (fs_sig, fs_yb, fs_y)]
                sc_a, se_a = em.compute_sensitivities(ro[0], ro[1], a_S, ro[2])
                case.close(sc_a, sc0, rtol=1e-12, what='score of compute_sensitivities for the arrays given as %s' % label)
                # (another memory layout means another summation order inside the matrix products: entries that are
                # cancelling sums of terms ~|se|_max differ by rounding of that scale)
                case.close(np.asarray(se_a, dtype=float), np.asarray(se0, dtype=float), rtol=1e-10,
                           atol=1e-13 * max(1.0, float(np.max(np.abs(np.asarray(se0, dtype=float)))) if np.size(se0) else 1.0),
                           what='sensitivities for the model sensitivities given as %s' % label)

    # whole-number parameters, outputs and observations typed as integers (Python ints / int arrays) are the same
    # numbers: the results equal those of the float-typed call
    if s['fixed'] is None and not s['oos']:
        with case.clause('integer_inputs'):
            i_sig = np.maximum(1, np.round(np.abs(sig))).astype(int)
            i_yb = np.maximum(1, np.round(np.abs(ybar))).astype(int)
            i_y = np.maximum(1, np.round(np.abs(y))).astype(int)
            i_S = np.round(S).astype(int)
            f_args = (i_sig.astype(float), i_yb.astype(float), i_y.astype(float))
            want_i = float(np.real(ref.em_loglik(kind, f_args[0], f_args[1], f_args[2])))
            for label, conv in (('int arrays', lambda a: a), ('lists of Python ints', lambda a: a.tolist())):
                v = em.compute_log_likelihood(conv(i_sig), conv(i_yb), conv(i_y))
                case.close(v, want_i, rtol=1e-9, what='log-likelihood for whole numbers given as %s' % label)
                pw = np.asarray(em.compute_pointwise_ll(conv(i_sig), conv(i_yb), conv(i_y)), dtype=float)
                case.close(np.sum(pw), want_i, rtol=1e-9, what='sum(pointwise) for whole numbers given as %s' % label)
                sc_i, se_i = em.compute_sensitivities(conv(i_sig), conv(i_yb), conv(i_S) if label == 'int arrays' else i_S,
                                                      conv(i_y))
                sc_f, se_f = em.compute_sensitivities(f_args[0], f_args[1], i_S.astype(float), f_args[2])
                case.close(sc_i, want_i, rtol=1e-9, what='score of compute_sensitivities for whole numbers given as %s' % label)
                case.close(np.asarray(se_i, dtype=float), np.asarray(se_f, dtype=float), rtol=1e-12,
                           what='sensitivities for whole numbers given as %s vs the same numbers as floats' % label)

    # the fixed set of a reduced error model is swapped in ONE call (never all free in between)
    if s['fixed'] is not None and npar == 2 and len(s['fixed']) == 1 and insup:
        with case.clause('refix_swap'):
            k_old = int(s['fixed'][0])
            k_new = 1 - k_old
            dn = ref.EM_DEFAULT_NAMES[kind]
            em.fix_parameters({dn[k_old]: None, dn[k_new]: float(sig[k_new])})
            case.equal(em.get_parameter_names(), [dn[k_old]], 'names after swapping the fixed parameter')
            sc, sens = em.compute_sensitivities(sig[[k_old]].copy(), ybar.copy(), S.copy(), y.copy())
            case.close(sc, want, rtol=1e-9, what='score after swapping the fixed parameter')
            dyb = ref.cgrad(lambda z: ref.em_loglik(kind, sig, z, y), ybar)
            dsig = ref.cgrad(lambda z: ref.em_loglik(kind, z, ybar, y), sig)
            want_s = np.concatenate([dyb @ S, dsig[[k_old]]])
            scale = np.concatenate([np.abs(dyb) @ np.abs(S), np.abs(dsig[[k_old]])])
            sens = np.asarray(sens, dtype=float)
            case.equal(sens.shape, (p + 1,), 'sensitivity shape after swapping the fixed parameter', kind='shape')
            err = np.abs(sens - want_s)
            tol = 1e-8 * np.maximum(1.0, scale)
            if np.any(~(err <= tol)):
                k = int(np.argmax(err / tol))
                case.fail('mismatch', 'sensitivity[%d] after swapping the fixed parameter: got %r expected %r' % (
                    k, sens[k], want_s[k]))
            # back to the configuration of the spec
            em.fix_parameters({dn[k_new]: None, dn[k_old]: float(sig[k_old])})

    # parameters renamed THROUGH a reduced wrapper while all are free (names in no alphabetical order), then one fixed by
    # its new name: the name keeps addressing the parameter it was given to
    if insup:
        with case.clause('renamed_through_wrapper'):
            import chi
            new = ['Residual SD', 'CV'][:npar]
            w = chi.ReducedErrorModel(ref.em_class(kind)())
            w.set_parameter_names(list(new))
            case.equal(list(w.get_parameter_names()), new, 'names after set_parameter_names on the wrapper')
            k_fix = (n + p) % npar
            w.fix_parameters({new[k_fix]: float(sig[k_fix])})
            rest = [k for k in range(npar) if k != k_fix]
            case.equal(list(w.get_parameter_names()), [new[k] for k in rest], 'names after fixing %r' % new[k_fix])
            case.close(w.compute_log_likelihood(sig[rest].copy(), ybar.copy(), y.copy()), want, rtol=1e-9,
                       what='log-likelihood with %r fixed (parameters renamed through the wrapper)' % new[k_fix])
            case.close(w.compute_pointwise_ll(sig[rest].copy(), ybar.copy(), y.copy()), want_pw, rtol=1e-9,
                       what='pointwise with %r fixed (parameters renamed through the wrapper)' % new[k_fix])
            sc, sens = w.compute_sensitivities(sig[rest].copy(), ybar.copy(), S.copy(), y.copy())
            case.close(sc, want, rtol=1e-9, what='score with %r fixed (parameters renamed through the wrapper)' % new[k_fix])
            if npar == 2:
                case.labels.append('renamed_through_wrapper:two_parameters')

    if insup:
        with case.clause('normalisation'):
            if kind == 'lognorm' and sig[0] > 5:
                # exp(-sigma^2/2 +- 14 sigma) leaves the double range: not decidable by quadrature
                raise Inconclusive()
            if s.get('offset'):
                # a density of width ~1 around 3e8: the quadrature itself is only good to ~1e-7 there
                raise Inconclusive()
            j = s['jq']
            full = np.array(sig, dtype=float)

            def dens(v):
                return np.exp(em.compute_log_likelihood(sig_free, [ybar[j]], [v]))
            m, sd = ref.em_mean_std(kind, full, ybar[j])
            if kind == 'lognorm':
                mu = np.log(ybar[j]) - full[0] ** 2 / 2
                val, _ = integrate.quad(
                    lambda u: dens(np.exp(u)) * np.exp(u), mu - 14 * full[0], mu + 14 * full[0],
                    points=[mu], limit=200, epsabs=1e-10, epsrel=1e-10)
            else:
                val, _ = integrate.quad(dens, m - 14 * sd, m + 14 * sd, points=[m], limit=200,
                                        epsabs=1e-10, epsrel=1e-10)
            case.close(val, 1.0, rtol=0, atol=1e-7, what='integral of density over y', kind='norm')


RULE += (' Classes and clauses added in later rounds of the seeded-change protocol (DESIGN 9.4) are named in REQUIRED '
         'and in seeded/HISTORY.json; the evidence counts every one of them under classes.')
