"""C16 - Seeds fully determine random results; random streams are independent."""
import random

import numpy as np
from hypothesis import strategies as st

from vf import gen, ref, popgen, llbuild, hbuild, stats
from vf import analytic_model
from vf.analytic_model import ref_outputs
from vf.core import ClauseFail, spec_key

ID = 'C16'
BUDGET = {'quick': 560, 'thorough': 15000}
ENTRIES = ['em', 'pop', 'pred', 'poppred', 'prior', 'post', 'pam', 'lp', 'hlp', 'flp']
RULE = (
    'The spec is a small PROGRAM over one sampling entry point (target): error model (4 classes, optionally '
    'ReducedErrorModel), population model (grammar of vf/ref.py incl. composed / covariate / reduced), PredictiveModel, '
    'PopulationPredictiveModel, PriorPredictiveModel, PosteriorPredictiveModel (xarray posterior with 1-2 chains, 1-3 '
    'draws, 1-2 individuals, optionally a population-level variable), PAMPredictiveModel (2-3 posteriors, weights), and '
    'sample_initial_parameters of LogPosterior, HierarchicalLogPosterior (vf/hbuild.py) and '
    'PopulationFilterLogPosterior; all over vf.analytic_model.AnalyticModel. Steps: np.random.seed(a), random.seed(b), '
    'np.random.random(k) (advance the global stream), a call of ANOTHER sampler with an integer seed (truncated '
    'Gaussian model, which re-seeds the global generator; Gaussian error model; LogPosterior), and calls of the target '
    'with the integer seeds A, B or C of the spec (3-5 calls, at least two with A and one with B, 1-3 other steps '
    'between two calls). Interpreted in order; results with equal seed label must be identical (exact, NaN-aware, data '
    'frames column by column), results of A and B must differ when the target is random at all. Generator clauses '
    '(targets whose documentation or whose callers inside chi pass a numpy Generator as seed: error / population / the '
    'four predictive models; not PAM and sample_initial_parameters, documented int only): the bit-generator state '
    'changes in each call, two successive calls differ, and both equal the calls made with a fresh equally seeded '
    'generator under another global state. Independence (40% of the cases, 15% for the three entry points whose sampler is a Python loop per row; n1 = 20000 rows (5000 for posteriors / population predictive models with covariate models), stage 2 80000, derived '
    'seeds, vf/stats.py two-stage rule on rank-based normal scores): standardised noise of different outputs / time '
    'points / dimensions (columns) is uncorrelated and not identical, successive samples / individuals (rows, lag 1) '
    'are uncorrelated; data-frame entry points use 50 sample ids x n/50 time points with (nearly) constant parameters '
    'so that the noise is recoverable. "Must differ" clauses are confirmed on a second pair of seeds. Sound domain: '
    'population models of a PopulationPredictiveModel are positive (log-normal, truncated, pooled) and get n_ids = '
    'n_samples; priors of the hierarchical posteriors are narrow uniforms around an in-support parameter vector. '
    'Non-trivial: >= 2 outputs / time points / random dimensions. Distinct = (entry, structure of the target, step kinds).')
RULE += (' ' + 'Added: replicate time points, integer seeds passed as numpy integers, duplicate-noise statistic for continuous noise matrices.')
ASSUMPTIONS = [
    'numpy Generators / RandomState seeded with different integers give independent streams',
    'pints priors sample from the global numpy generator (their documented behaviour)',
    'rank-based normal scores: the correlation test is distribution free; two-stage false-alarm rate ~1e-13 per test',
    'a seed of type numpy.random.Generator is in the domain only where documented or where chi itself passes one',
    'side effects on the global generators are not judged (the property speaks about results only)']
REQUIRED = ['entry:' + e for e in ENTRIES] + ['indep', 'gen', 'other:trunc', 'step:npseed', 'step:pyseed',
                                               'same_family_outputs', 'times:repeated', 'seed:numpy_int', 'pop:hetero_small_calls',
                                               'pop:noncentered:gauss', 'pop:noncentered:lognorm', 'pop:trunc', 'pop:cov', 'partial_block',
                                               'em:negative_output', 'nested_block_streams']
SEEDS = st.integers(0, 2 ** 31 - 2)
GEN_ENTRIES = ('em', 'pop', 'pred', 'poppred', 'prior', 'post')
DF_ENTRIES = ('prior', 'post', 'pam')
N_IDS_DF = 50


# =============================================================================================
# strategy
# =============================================================================================
def _ns(draw, lo=1, hi=6, none=True):
    if none and gen.chance(draw, 0.2):
        return None
    return draw(st.integers(lo, hi))


def _draw_ems(draw, n_out):
    same = gen.chance(draw, 0.5)
    k0 = draw(st.sampled_from(llbuild.EM_KINDS))
    ems = []
    for o in range(n_out):
        k = k0 if same else draw(st.sampled_from(llbuild.EM_KINDS))
        fixed = None
        if gen.chance(draw, 0.15):
            sub = draw(gen.subset(ref.EM_NPAR[k], min_size=1))
            fixed = {str(j): draw(gen.logu(0.05, 2.0)) for j in sub}
        ems.append(dict(kind=k, fixed=fixed))
    return ems


def _draw_ll(draw, n_out=None, n_par=None):
    n_out = n_out if n_out is not None else draw(st.integers(1, 3))
    n_par = n_par if n_par is not None else draw(st.integers(1, 3))
    ems = _draw_ems(draw, n_out)
    times, obs = [], []
    for o in range(n_out):
        t = sorted(gen.distinct(draw(gen.vec(gen.logu(0.1, 20.0), draw(st.integers(1, 3))))))
        times.append(t)
        obs.append(draw(gen.vec(gen.logu(0.1, 20.0), len(t))))
    return dict(n_out=n_out, n_par=n_par, ems=ems, times=times, obs=obs)


def _draw_times(draw):
    t = gen.distinct(draw(gen.vec(gen.logu(0.1, 20.0), draw(st.integers(1, 4)))))
    if gen.chance(draw, 0.25):
        # replicate measurements: the same time point requested more than once (its noise terms are independent
        # like those of any two time points)
        t = t + [draw(st.sampled_from(t)) for _ in range(draw(st.integers(1, 2)))]
    return list(draw(st.permutations(t)))


def _draw_pop_for_dim(draw, n_dim, kinds, n_ids, p_cov=0.25):
    parts, rem = [], n_dim
    while rem > 0:
        e = popgen.draw_elem(draw, kinds, max_dim=min(2, rem))
        rem -= e['n_dim']
        if p_cov and gen.chance(draw, p_cov):
            e = popgen.draw_cov_wrap(draw, e, n_ids, max_cov=2)
        parts.append(e)
    if len(parts) == 1 and gen.chance(draw, 0.5):
        return parts[0]
    return dict(kind='comp', parts=parts)


def _draw_theta(draw, pop, n_ids, cov, positive, p_red=0.2):
    if p_red and gen.chance(draw, p_red):
        return popgen.draw_reduced(draw, pop, n_ids, cov, positive=positive)
    return pop, popgen.draw_theta(draw, pop, n_ids, cov, positive=positive)


def _narrow_prior(theta):
    """Uniform priors of +-2% around an in-support vector (bounded, so every draw stays in support)."""
    out = []
    for v in theta:
        if v > 0:
            out.append(dict(kind='uniform', a=gen.r6(0.98 * v), b=gen.r6(1.02 * v)))
        elif v < 0:
            out.append(dict(kind='uniform', a=gen.r6(1.02 * v), b=gen.r6(0.98 * v)))
        else:
            out.append(dict(kind='uniform', a=-1e-9, b=1e-9))
    return out


def _draw_dataset(draw, n_param, ids, n_chain, n_draw, p_poplevel=0.3):
    vals, poplevel = [], []
    for j in range(n_param):
        pl = gen.chance(draw, p_poplevel / max(1, n_param))
        poplevel.append(pl)
        n = n_chain * n_draw * (1 if pl else len(ids))
        vals.append(draw(gen.vec(gen.logu(0.2, 5.0), n)))
    return dict(ids=ids, n_chain=n_chain, n_draw=n_draw, vals=vals, poplevel=poplevel)


@st.composite
def _target(draw, entry):
    if entry == 'em':
        kind = draw(st.sampled_from(llbuild.EM_KINDS))
        fixed = draw(gen.subset(ref.EM_NPAR[kind], min_size=0)) if gen.chance(draw, 0.25) else None
        t = dict(kind=kind, fixed=fixed, sig=draw(gen.vec(gen.logu(0.05, 5.0), ref.EM_NPAR[kind])),
                 ybar=gen.distinct(draw(gen.vec(gen.logu(0.2, 20.0), draw(st.integers(1, 4))))), ns=_ns(draw))
        if kind != 'lognorm' and gen.chance(draw, 0.5):
            # model outputs below zero (a change from baseline): every Gaussian-type error model admits them
            flip = draw(gen.subset(len(t['ybar']), min_size=1))
            t['ybar'] = [-v if i in flip else v for i, v in enumerate(t['ybar'])]
        return t
    if entry == 'pop':
        n_ids = draw(st.integers(1, 4))
        pop = popgen.draw_pop(draw, n_ids, max_parts=3, max_dim=2, p_cov=0.3, p_red=0, p_nested=0.35)
        if gen.chance(draw, 0.3):
            # a heterogeneous part over several individuals (no covariates)
            n_ids = draw(st.integers(2, 4))
            pop = dict(kind='comp', parts=[dict(kind='hetero', n_dim=draw(st.integers(1, 2))),
                                           popgen.draw_elem(draw, popgen.ELEM_KINDS, max_dim=2)])
        cov = popgen.draw_cov_matrix(draw, 1, ref.pop_n_cov(pop))
        pop, theta = _draw_theta(draw, pop, n_ids, cov, False)
        return dict(pop=pop, n_ids=n_ids, theta=theta, cov=None if cov is None else cov[0], ns=_ns(draw))
    if entry in ('pred', 'prior', 'post', 'pam', 'lp'):
        ll = _draw_ll(draw)
        params = llbuild.draw_ll_params(draw, ll)
        t = dict(ll=ll, params=params, times=_draw_times(draw), ns=_ns(draw))
        if entry == 'pred':
            t['df'] = draw(st.booleans())
        if entry == 'prior':
            pr = []
            for v in params:
                if draw(st.booleans()):
                    pr.append(dict(kind='lognormal', a=gen.r6(float(np.log(v))), b=draw(gen.logu(0.05, 0.5))))
                else:
                    pr.append(dict(kind='uniform', a=gen.r6(0.5 * v), b=gen.r6(1.5 * v)))
            t['prior'] = pr
        if entry in ('post', 'pam'):
            ids = ['ind %d' % (i + 1) for i in range(draw(st.integers(1, 2)))]
            n_models = 1 if entry == 'post' else draw(st.integers(2, 3))
            t['datasets'] = [_draw_dataset(draw, len(params), ids, draw(st.integers(1, 2)), draw(st.integers(1, 3)))
                             for _ in range(n_models)]
            t['individual'] = draw(st.sampled_from([None] + ids))
            if entry == 'pam':
                t['weights'] = draw(gen.vec(gen.logu(0.2, 5.0), n_models))
                t['ns'] = draw(st.integers(2, 8))
        if entry == 'lp':
            t['prior'] = llbuild.draw_prior(draw, len(params))
            t['ns'] = draw(st.integers(1, 6))
        return t
    if entry == 'poppred':
        n_dim = draw(st.integers(2, 5))
        ll = llbuild.draw_ll_for_dim(draw, n_dim)
        ns = _ns(draw)
        n_ids = 1 if ns is None else ns
        pooled = gen.chance(draw, 0.35)
        pop = _draw_pop_for_dim(draw, n_dim, ['pooled'] if pooled else ['lognorm', 'trunc', 'pooled'], n_ids)
        cov = popgen.draw_cov_matrix(draw, 1, ref.pop_n_cov(pop))
        pop, theta = _draw_theta(draw, pop, n_ids, cov, True)
        return dict(ll=ll, pop=pop, theta=theta, cov=None if cov is None else cov[0], times=_draw_times(draw), ns=ns,
                    df=draw(st.booleans()), pooled=pooled)
    if entry == 'hlp':
        hier = hbuild.draw_hier(draw, max_ids=3, max_parts=3, max_dim=2, with_prior=False)
        nb, nt, _ = ref.hier_layout(hier['pop'], hier['n_ids'])
        return dict(hier=hier, prior=_narrow_prior(hier['vec'][nb:nb + nt]), ns=draw(st.integers(1, 4)))
    if entry == 'flp':
        n_out, n_par = draw(st.integers(1, 2)), draw(st.integers(1, 3))
        n_sim = draw(st.integers(1, 4))
        pop = _draw_pop_for_dim(draw, n_par, popgen.ELEM_KINDS, n_sim)
        cov = popgen.draw_cov_matrix(draw, n_sim, ref.pop_n_cov(pop))
        pop, theta = _draw_theta(draw, pop, n_sim, cov, False, p_red=0)
        times = gen.distinct(draw(gen.vec(gen.logu(0.1, 20.0), draw(st.integers(1, 3)))))
        n_obs = draw(st.integers(2, 3))
        obs = [[draw(gen.vec(gen.logu(0.1, 20.0), len(times))) for _ in range(n_out)] for _ in range(n_obs)]
        sigma = draw(gen.vec(gen.logu(0.05, 2.0), n_out)) if draw(st.booleans()) else None
        prior = _narrow_prior(theta)
        if sigma is None:
            prior += [dict(kind='lognormal', a=0.0, b=0.3) for _ in range(n_out)]
        return dict(n_out=n_out, n_par=n_par, n_sim=n_sim, pop=pop, theta=theta, cov=cov, times=times, obs=obs,
                    sigma=sigma, prior=prior, ns=draw(st.integers(1, 4)))
    raise ValueError(entry)


OTHERS = ['trunc', 'em', 'lp']


@st.composite
def _spec(draw):
    entry = draw(st.sampled_from(ENTRIES + ['pop', 'pop', 'em']))      # cheap entries with many model classes: more often
    target = draw(_target(entry))

    def other_steps():
        steps = []
        for _ in range(draw(st.integers(1, 3))):
            k = draw(st.sampled_from(['npseed', 'pyseed', 'npdraw', 'other']))
            if k == 'npseed':
                steps.append(['npseed', draw(st.integers(0, 2 ** 32 - 1))])
            elif k == 'pyseed':
                steps.append(['pyseed', draw(st.integers(0, 2 ** 32 - 1))])
            elif k == 'npdraw':
                steps.append(['npdraw', draw(st.integers(1, 5))])
            else:
                steps.append(['other', draw(st.sampled_from(OTHERS)), draw(SEEDS)])
        return steps
    labels = ['A'] + list(draw(st.permutations(['A', 'B'] + draw(st.lists(st.sampled_from(['A', 'B', 'C']), max_size=2)))))
    prog = other_steps() if draw(st.booleans()) else []
    for i, lab in enumerate(labels):
        if i:
            prog += other_steps()
        prog.append(['call', lab])
    sa, sb, sc = draw(SEEDS), draw(SEEDS), draw(SEEDS)
    if sb == sa:
        sb = sa + 1
    while sc in (sa, sb):
        sc += 1
    seeds = dict(A=sa, B=sb, C=sc)
    d = dict(entry=entry, target=target, prog=prog, seeds=seeds,
             gen=dict(k=draw(SEEDS), a0=draw(st.integers(0, 2 ** 32 - 1)), a1=draw(st.integers(0, 2 ** 32 - 1))),
             indep=gen.chance(draw, 0.15 if entry in ('hlp', 'flp', 'poppred') else 0.4))
    # Hypothesis repeats small integers (0 in ~13% of the draws): the seed of the statistical clause is mixed with the
    # rest of the spec so that different cases see different noise streams (the spec records the seed actually used)
    d['stat_seed'] = stats.derive_seed(draw(SEEDS), spec_key(d))
    # integer seeds also arrive as numpy integers (elements of np.arange, rng.integers(...), base + offset)
    d['seed_form'] = draw(st.sampled_from(['int', 'int', 'int', 'np.int64', 'np.int32']))
    return d


def strategy(tier):
    return _spec()


# =============================================================================================
# builders: spec -> (call(seed, n_samples), noise(n, seed) or None, meta)
# =============================================================================================
def _std_noise(kind, sig, ybar, y):
    """Standardised noise of one output (reference mean / sd of the documented error model)."""
    ybar = np.asarray(ybar, dtype=float)
    if kind == 'lognorm':
        return (np.log(y) - (np.log(ybar) - sig[0] ** 2 / 2)) / sig[0]
    m, s = ref.em_mean_std(kind, sig, ybar)
    return (y - m) / s


def _dataset(ds, names):
    import xarray as xr
    d = {}
    for j, nm in enumerate(names):
        if ds['poplevel'][j]:
            arr = np.array(ds['vals'][j], dtype=float).reshape(ds['n_chain'], ds['n_draw'])
            d[nm] = xr.DataArray(arr, dims=['chain', 'draw'],
                                 coords={'chain': list(range(ds['n_chain'])), 'draw': list(range(ds['n_draw']))})
        else:
            arr = np.array(ds['vals'][j], dtype=float).reshape(ds['n_chain'], ds['n_draw'], len(ds['ids']))
            d[nm] = xr.DataArray(arr, dims=['chain', 'draw', 'individual'],
                                 coords={'chain': list(range(ds['n_chain'])), 'draw': list(range(ds['n_draw'])),
                                         'individual': list(ds['ids'])})
    return xr.Dataset(d)


def _const_dataset(params, names):
    return _dataset(dict(ids=['ind 1'], n_chain=1, n_draw=1, vals=[[float(v)] for v in params],
                         poplevel=[False] * len(params)), names)


def _df_noise(df, ll, params, times, n_ids):
    """Data frame (ID, Time, Observable, Value) with constant parameters -> matrix of standardised
    noise, rows = (id, time) in id-major order, columns = outputs."""
    times = np.sort(np.asarray(times, dtype=float))
    psi = np.asarray(params, dtype=float)[:ll['n_par']]
    sigs = llbuild.split_sigmas(ll, params)
    ybar = ref_outputs(psi, times, ll['n_out'])
    cols = []
    obs = np.asarray(df['Observable'], dtype=object)
    ids = np.asarray(df['ID'], dtype=float)
    tt = np.asarray(df['Time'], dtype=float)
    val = np.asarray(df['Value'], dtype=float)
    for o, name in enumerate(llbuild.out_names(ll)):
        msk = obs == name
        order = np.lexsort((tt[msk], ids[msk]))
        if int(np.sum(msk)) != n_ids * len(times):
            raise ClauseFail('shape', 'observable %s: %d rows for %d ids x %d times' % (
                name, int(np.sum(msk)), n_ids, len(times)))
        v = val[msk][order].reshape(n_ids, len(times))
        cols.append(_std_noise(ll['ems'][o]['kind'], sigs[o], ybar[o][np.newaxis, :], v).ravel())
    return np.array(cols).T


def _build(spec):
    import chi
    import pints
    entry, t = spec['entry'], spec['target']
    meta = dict(random=True, lags=[1], cols=True)
    # entries whose noise matrix consists of standardised continuous noise terms only (no discrete row choices)
    meta['continuous'] = entry in ('em', 'pred', 'prior', 'post', 'pam') or (entry == 'poppred' and bool(t.get('pooled')))

    if entry == 'em':
        kind = t['kind']
        sig = np.array(t['sig'], dtype=float)
        ybar = np.array(t['ybar'], dtype=float)
        em = ref.em_class(kind)()
        free = list(range(len(sig)))
        if t['fixed'] is not None:
            names = em.get_parameter_names()
            em = chi.ReducedErrorModel(em)
            em.fix_parameters({names[k]: float(sig[k]) for k in t['fixed']})
            free = [k for k in free if k not in t['fixed']]

        def call(seed, ns=t['ns']):
            return em.sample(sig[free].copy(), ybar.copy(), n_samples=ns, seed=seed)

        def noise(n, seed):
            y = np.asarray(call(seed, n), dtype=float)
            return _std_noise(kind, sig, ybar[:, np.newaxis], y).T
        return call, noise, meta

    if entry == 'pop':
        pop, n_ids = t['pop'], t['n_ids']
        theta = np.array(t['theta'], dtype=float)
        cov = None if t['cov'] is None else np.array(t['cov'], dtype=float)
        m = ref.build_pop(pop, None, n_ids)
        m.set_n_ids(n_ids)
        special = ref.pop_special(pop)
        meta['random'] = not all(sp == 'pooled' for sp in special) and not (
            n_ids == 1 and all(sp is not None for sp in special))
        keep, seen = [], set()
        d = 0
        for lf in popgen.leaves(pop):
            for j in range(lf['n_dim']):
                if lf['kind'] == 'pooled' or (lf['kind'] == 'hetero' and (j > 0 or n_ids < 2)):
                    pass
                else:
                    keep.append(d + j)
            d += lf['n_dim']

        def call(seed, ns=t['ns']):
            kw = {} if cov is None else {'covariates': cov.copy()}
            return m.sample(parameters=theta.copy(), n_samples=ns, seed=seed, **kw)
        if meta['random'] and all(sp is not None for sp in special):
            # the only randomness is the choice of a row of a heterogeneous table: a handful of draws coincide by
            # chance, so the 'must differ' clauses are decided on 64 draws per call
            meta['diff_ns'] = 64

        def noise(n, seed):
            return np.asarray(call(seed, n), dtype=float)[:, keep]
        # heterogeneous part: column of its first dimension (rows of different individuals carry different values)
        d = 0
        for lf in popgen.leaves(pop):
            if lf['kind'] == 'hetero' and n_ids >= 2 and not popgen.has(pop, 'cov'):
                meta['hetero_col'] = (d, n_ids)
                break
            d += lf['n_dim']
        # continuous dimensions of models with covariate parts (samples are drawn individual by individual there)
        meta['cont_cols'] = [c for c, sp in enumerate(special) if sp is None] if popgen.has(pop, 'cov') and \
            not popgen.has(pop, 'hetero') else []
        return call, (noise if keep else None), meta

    if entry in ('pred', 'prior', 'post', 'pam'):
        ll = t['ll']
        params = np.array(t['params'], dtype=float)
        times = np.array(t['times'], dtype=float)
        pm = chi.PredictiveModel(llbuild.build_model(ll), llbuild.build_error_models(ll))
        names = pm.get_parameter_names()
        if entry == 'pred':
            def call(seed, ns=t['ns']):
                return pm.sample(params.copy(), times.copy(), n_samples=ns, seed=seed, return_df=t['df'])

            def noise(n, seed):
                y = np.asarray(pm.sample(params.copy(), times.copy(), n_samples=n, seed=seed, return_df=False), dtype=float)
                sigs = llbuild.split_sigmas(ll, params)
                ybar = ref_outputs(params[:ll['n_par']], np.sort(times), ll['n_out'])
                cols = []
                for o in range(ll['n_out']):
                    e = _std_noise(ll['ems'][o]['kind'], sigs[o], ybar[o][:, np.newaxis], y[o])
                    cols += list(e)
                return np.array(cols).T
            meta['array_call'] = lambda seed, n: np.asarray(
                pm.sample(params.copy(), times.copy(), n_samples=n, seed=seed, return_df=False), dtype=float)
            return call, noise, meta

        def grid(n):
            return np.linspace(0.1, 20.0, max(2, n // N_IDS_DF))
        meta['lags'] = [1, 'n_times']
        if entry == 'prior':
            model = chi.PriorPredictiveModel(pm, llbuild.build_prior(t['prior']))

            def call(seed, ns=t['ns']):
                return model.sample(times.copy(), n_samples=ns, seed=seed)
            nm = chi.PriorPredictiveModel(pm, pints.ComposedLogPrior(
                *[pints.UniformLogPrior(float(v), float(v) * (1 + 1e-9)) for v in params]))

            def noise(n, seed):
                g = grid(n)
                return _df_noise(nm.sample(g, n_samples=N_IDS_DF, seed=seed), ll, params, g, N_IDS_DF)

            def prior_draws(seed, ns=3):
                # the mechanistic parameter sets the model is simulated with (= the draws from the prior)
                from vf import analytic_model
                analytic_model.SIM_LOG[0] = []
                try:
                    model.sample(times.copy(), n_samples=ns, seed=seed)
                    return sorted(set(analytic_model.SIM_LOG[0]))
                finally:
                    analytic_model.SIM_LOG[0] = None
            meta['prior_draws'] = prior_draws
            return call, noise, meta
        posts = [chi.PosteriorPredictiveModel(pm, _dataset(ds, names)) for ds in t['datasets']]
        cposts = [chi.PosteriorPredictiveModel(pm, _const_dataset(params, names)) for _ in t['datasets']]
        if entry == 'post':
            model, nm = posts[0], cposts[0]
        else:
            model = chi.PAMPredictiveModel(posts, list(t['weights']))
            nm = chi.PAMPredictiveModel(cposts, list(t['weights']))

        def call(seed, ns=t['ns']):
            return model.sample(times.copy(), n_samples=ns, individual=t['individual'], seed=seed)
        if entry == 'post' and t['individual'] is not None:
            # the same posterior with the individuals labelled differently: the label is no part of the seed
            ds2 = dict(t['datasets'][0], ids=['relabelled ' + str(i_) for i_ in t['datasets'][0]['ids']])
            model2 = chi.PosteriorPredictiveModel(pm, _dataset(ds2, names))
            new_label = 'relabelled ' + str(t['individual'])
            meta['relabel_call'] = lambda seed: model2.sample(times.copy(), n_samples=t['ns'], individual=new_label, seed=seed)

        def noise(n, seed):
            g = grid(n)
            return _df_noise(nm.sample(g, n_samples=N_IDS_DF, individual=None, seed=seed), ll, params, g, N_IDS_DF)
        return call, noise, meta

    if entry == 'poppred':
        ll, pop = t['ll'], t['pop']
        theta = np.array(t['theta'], dtype=float)
        cov = None if t['cov'] is None else np.array(t['cov'], dtype=float)
        times = np.array(t['times'], dtype=float)
        n_ids = 1 if t['ns'] is None else t['ns']
        pm = chi.PredictiveModel(llbuild.build_model(ll), llbuild.build_error_models(ll))
        popm = ref.build_pop(pop, None, n_ids)
        model = chi.PopulationPredictiveModel(pm, popm)

        def call(seed, ns=t['ns'], df=None):
            popm.set_n_ids(1 if ns is None else ns)
            kw = {} if cov is None else {'covariates': cov.copy()}
            return model.sample(theta.copy(), times.copy(), n_samples=ns, seed=seed,
                                return_df=t['df'] if df is None else df, **kw)

        def noise(n, seed):
            y = np.asarray(call(seed, n, False), dtype=float)          # (n_out, n_times, n)
            if not t['pooled']:
                return y.reshape(-1, y.shape[2]).T
            psi = np.real(ref.pop_indiv(pop, 1, theta, np.zeros((1, ref.pop_n_dim(pop))),
                                        None if cov is None else cov[np.newaxis]))[0]
            sigs = llbuild.split_sigmas(ll, psi)
            ybar = ref_outputs(psi[:ll['n_par']], np.sort(times), ll['n_out'])
            cols = []
            for o in range(ll['n_out']):
                cols += list(_std_noise(ll['ems'][o]['kind'], sigs[o], ybar[o][:, np.newaxis], y[o]))
            return np.array(cols).T
        def partial_block(seed, k, n):
            """Mechanistic parameters simulated for n virtual patients of a population whose last (noise) dimension is
            heterogeneous over k individuals and whose other dimensions are log-normal."""
            nd = pm.n_parameters()
            hpop = chi.ComposedPopulationModel([chi.LogNormalModel(n_dim=nd - 1), chi.HeterogeneousModel(n_dim=1, n_ids=k)])
            hmodel = chi.PopulationPredictiveModel(
                chi.PredictiveModel(llbuild.build_model(ll), llbuild.build_error_models(ll)), hpop)
            th = np.array([0.1 * d for d in range(nd - 1)] + [0.3] * (nd - 1) + [0.2 + 0.05 * i for i in range(k)])
            analytic_model.SIM_LOG[0] = []
            try:
                hmodel.sample(th, times.copy(), n_samples=n, seed=seed, return_df=False)
                return list(analytic_model.SIM_LOG[0])
            finally:
                analytic_model.SIM_LOG[0] = None
        meta['partial_block'] = partial_block
        meta['cols'] = bool(t['pooled'])
        meta['array_call'] = lambda seed, n: np.asarray(call(seed, n, False), dtype=float)
        return call, noise, meta

    if entry == 'lp':
        lp = chi.LogPosterior(llbuild.build_ll(t['ll']), llbuild.build_prior(t['prior']))

        def call(seed, ns=t['ns']):
            return lp.sample_initial_parameters(n_samples=ns, seed=seed)

        def noise(n, seed):
            return np.asarray(call(seed, n), dtype=float)
        meta['lp'] = lp
        return call, noise, meta

    if entry == 'hlp':
        hier = t['hier']
        post = chi.HierarchicalLogPosterior(hbuild.build_hier(hier), llbuild.build_prior(t['prior']))
        nb, nt, _ = ref.hier_layout(hier['pop'], hier['n_ids'])

        def call(seed, ns=t['ns']):
            return post.sample_initial_parameters(n_samples=ns, seed=seed)

        def noise(n, seed):
            return np.asarray(call(seed, n), dtype=float)
        # bottom-level entries depend on the sampled top-level ones: only rows and top-level columns
        meta['col_set'] = list(range(nb, nb + nt))
        return call, noise, meta

    if entry == 'flp':
        from vf.analytic_model import AnalyticModel
        pop = t['pop']
        cov = None if t['cov'] is None else np.array(t['cov'], dtype=float)
        popm = ref.build_pop(pop, None, t['n_sim'])
        flt = chi.GaussianFilter(np.array(t['obs'], dtype=float))
        post = chi.PopulationFilterLogPosterior(
            flt, np.array(t['times'], dtype=float), AnalyticModel(t['n_out'], t['n_par']), popm,
            llbuild.build_prior(t['prior']), sigma=t['sigma'], n_samples=t['n_sim'], covariates=cov)
        n_top = len(t['prior'])
        n_eps = t['n_sim'] * t['n_out'] * len(t['times'])

        def call(seed, ns=t['ns']):
            return post.sample_initial_parameters(n_samples=ns, seed=seed)

        def noise(n, seed):
            return np.asarray(call(seed, n), dtype=float)
        meta['col_set'] = list(range(n_top)) + list(range(post.n_parameters() - n_eps, post.n_parameters()))
        # the simulated individuals (bottom level) depend on the top-level draws and on each other, but not on the
        # noise realisations
        meta['cross'] = (list(range(n_top, post.n_parameters() - n_eps)),
                         list(range(post.n_parameters() - n_eps, post.n_parameters())))
        meta['cross_names'] = ('bottom-level (simulated individuals)', 'noise (epsilon)')
        return call, noise, meta
    raise ValueError(entry)


_OTHER_CACHE = {}


def _other(name):
    import chi
    if name not in _OTHER_CACHE:
        if name == 'trunc':
            m = chi.TruncatedGaussianModel()
            _OTHER_CACHE[name] = lambda s: m.sample([1.0, 1.0], n_samples=3, seed=s)
        elif name == 'em':
            m = chi.GaussianErrorModel()
            _OTHER_CACHE[name] = lambda s: m.sample([1.0], [1.0, 2.0], n_samples=2, seed=s)
        else:
            ll = dict(n_out=1, n_par=1, ems=[dict(kind='gauss', fixed=None)], times=[[1.0]], obs=[[1.0]])
            lp = chi.LogPosterior(llbuild.build_ll(ll), llbuild.build_prior(
                [dict(kind='lognormal', a=0.0, b=1.0), dict(kind='halfcauchy', a=0.0, b=1.0)]))
            _OTHER_CACHE[name] = lambda s: lp.sample_initial_parameters(n_samples=2, seed=s)
    return _OTHER_CACHE[name]


# =============================================================================================
# result comparison
# =============================================================================================
def canon(r):
    """Canonical, comparable form of a sampler result (array or data frame)."""
    import pandas as pd
    if isinstance(r, pd.DataFrame):
        out = [('columns', [str(c) for c in r.columns])]
        for c in r.columns:
            col = r[c].tolist()
            try:
                out.append((str(c), np.array(col, dtype=float)))
            except (TypeError, ValueError):
                out.append((str(c), [str(v) for v in col]))
        return out
    return [('array', np.array(r, dtype=float))]


def same(a, b):
    if len(a) != len(b):
        return False
    for (na, va), (nb_, vb) in zip(a, b):
        if na != nb_:
            return False
        if isinstance(va, np.ndarray) != isinstance(vb, np.ndarray):
            return False
        if isinstance(va, np.ndarray):
            if va.shape != vb.shape or not np.array_equal(va, vb, equal_nan=True):
                return False
        elif va != vb:
            return False
    return True


def _describe(a, b):
    for (na, va), (nb_, vb) in zip(a, b):
        if isinstance(va, np.ndarray) and isinstance(vb, np.ndarray):
            if va.shape != vb.shape:
                return '%s: shapes %r vs %r' % (na, va.shape, vb.shape)
            if not np.array_equal(va, vb, equal_nan=True):
                i = int(np.argmax(~((va == vb) | (np.isnan(va) & np.isnan(vb))).ravel()))
                return '%s: first difference at flat index %d: %r vs %r (%d of %d entries differ)' % (
                    na, i, float(va.ravel()[i]), float(vb.ravel()[i]),
                    int(np.sum(~((va == vb) | (np.isnan(va) & np.isnan(vb))))), va.size)
        elif va != vb:
            return '%s differs' % na
    return 'identical'


# =============================================================================================
# classification
# =============================================================================================
def _kinds_of_outputs(spec):
    t = spec['target']
    if 'll' in t:
        return [e['kind'] for e in t['ll']['ems']]
    return []


def classify(spec):
    labs = ['entry:' + spec['entry']]
    if spec['indep']:
        labs.append('indep')
    if spec['entry'] in GEN_ENTRIES:
        labs.append('gen')
    for st_ in spec['prog']:
        if st_[0] == 'other':
            labs.append('other:' + st_[1])
        elif st_[0] != 'call':
            labs.append('step:' + st_[0])
    ks = _kinds_of_outputs(spec)
    if len(ks) >= 2 and len(set(ks)) < len(ks):
        labs.append('same_family_outputs')
    if spec['entry'] == 'pop' and spec['target']['pop']['kind'] == 'comp' and len(spec['target']['pop']['parts']) >= 2 and \
            spec['target']['pop']['parts'][0]['kind'] == 'comp':
        labs.append('pop:nested_block_with_later_sibling')
    if spec['entry'] == 'em' and any(v < 0 for v in spec['target']['ybar']):
        labs.append('em:negative_output')
        labs.append('em:negative_output:' + spec['target']['kind'])
    if spec['entry'] == 'pop':
        for k in ('cov', 'comp', 'red'):
            if popgen.has(spec['target']['pop'], k):
                labs.append('pop:' + k)
        for lf in popgen.leaves(spec['target']['pop']):
            labs.append('pop:' + lf['kind'])
            if lf['kind'] in ('gauss', 'lognorm') and not lf.get('centered', True):
                labs.append('pop:noncentered:' + lf['kind'])
    if spec['target'].get('ns', 1) is None:
        labs.append('ns=None')
    if spec.get('seed_form', 'int') != 'int':
        labs.append('seed:numpy_int')
    if spec['entry'] == 'pop' and spec['target']['n_ids'] >= 2 and popgen.has(spec['target']['pop'], 'hetero') and \
            not popgen.has(spec['target']['pop'], 'cov'):
        labs.append('pop:hetero_small_calls')
    tm = spec['target'].get('times')
    if spec['entry'] in ('pred', 'poppred', 'prior', 'post', 'pam') and tm and len(set(tm)) < len(tm):
        labs.append('times:repeated')
    return sorted(set(labs))


def nontrivial(spec):
    e, t = spec['entry'], spec['target']
    if e == 'em':
        return len(t['ybar']) >= 2
    if e == 'pop':
        return sum(1 for sp in ref.pop_special(t['pop']) if sp is None) >= 2
    if e in ('pred', 'prior', 'post', 'pam', 'poppred'):
        return t['ll']['n_out'] >= 2 or len(t['times']) >= 2
    if e == 'lp':
        return len(t['params']) >= 2
    return True


def structure(spec):
    e, t = spec['entry'], spec['target']
    if e == 'em':
        body = [t['kind'], t['fixed'], len(t['ybar'])]
    elif e == 'pop':
        body = [popgen.structure(t['pop']), t['n_ids']]
    elif e == 'hlp':
        body = hbuild.structure(t['hier'])
    elif e == 'flp':
        body = [popgen.structure(t['pop']), t['n_out'], t['n_sim'], t['sigma'] is None]
    else:
        body = [llbuild.ll_structure(t['ll'])[:3], len(t['times'])]
        if e == 'poppred':
            body.append(popgen.structure(t['pop']))
        if e in ('post', 'pam'):
            body.append([[d['n_chain'], d['n_draw'], len(d['ids']), d['poplevel']] for d in t['datasets']])
    return [e, body, [s[0] if s[0] != 'other' else s[1] for s in spec['prog']], t.get('ns', 1) is None]


# =============================================================================================
# check
# =============================================================================================
def _state(g):
    return repr(g.bit_generator.state)


def check(case):
    s = case.spec
    entry = s['entry']
    built = None
    with case.clause('construct:' + entry):
        built = _build(s)
    if built is None:
        return
    call, noise, meta = built
    seeds = s['seeds']
    form = s.get('seed_form', 'int')
    if form != 'int':
        conv = getattr(np, form[3:])
        call_int, noise_int, ac_int = call, noise, meta.get('array_call')

        def call(seed, *a, **k):
            return call_int(conv(seed) if isinstance(seed, int) else seed, *a, **k)
        if noise_int is not None:
            def noise(n, seed):
                return noise_int(n, conv(seed) if isinstance(seed, int) else seed)
        if ac_int is not None:
            meta = dict(meta, array_call=lambda seed, n: ac_int(conv(seed) if isinstance(seed, int) else seed, n))
        with case.clause('seed_form:' + entry):
            a, b = canon(call_int(seeds['A'])), canon(call(seeds['A']))
            case.true(same(a, b), 'seed %d passed as %s gives another result than the same seed passed as int (%s)' % (
                seeds['A'], form, _describe(a, b)), kind='differs')
    if meta.get('diff_ns'):
        def dcall(seed):
            return call(seed, meta['diff_ns'])
    else:
        dcall = call

    # ---- starting points of a seeded inference controller ------------------------------------
    # whatever the history of set_n_runs calls (below and above the default of 5 runs), the chains start at
    # sample_initial_parameters(n_runs, seed of the controller): one seeded draw, no replayed sub-stream
    if entry == 'lp' and form == 'int':
        with case.clause('controller_start:lp'):
            import chi
            import pints
            lp = meta['lp']
            for history in ([7], [2, 7], [6, 8], [3]):
                x0 = np.asarray(lp.sample_initial_parameters(n_samples=history[-1], seed=seeds['A']), dtype=float)
                if not all(np.isfinite(float(lp(row.copy()))) for row in x0):
                    continue
                ctrl = chi.SamplingController(lp, seed=seeds['A'])
                for k in history:
                    ctrl.set_n_runs(k)
                ctrl.set_parallel_evaluation(False)
                ctrl.set_sampler(pints.HaarioBardenetACMC)
                captured = []
                orig = pints.MCMCController.run

                def wrapped(self, *a, **k):
                    out = orig(self, *a, **k)
                    captured.append(np.array(out, dtype=float, copy=True))
                    return out
                pints.MCMCController.run = wrapped
                try:
                    ctrl.run(n_iterations=2)
                finally:
                    pints.MCMCController.run = orig
                case.equal(len(captured), 1, 'number of pints.MCMCController.run calls')
                case.close(captured[0][:, 0, :], x0, rtol=0, atol=0,
                           what='starting points after set_n_runs history %r vs sample_initial_parameters(%d, seed)' % (
                               history, history[-1]))
                case.equal(len(set(map(tuple, captured[0][:, 0, :].tolist()))), len(x0),
                           'number of distinct starting points after set_n_runs history %r' % (history,))

    # ---- the program ---------------------------------------------------------------------
    results = {}
    ran = False
    with case.clause('call:' + entry):
        for step in s['prog']:
            if step[0] == 'npseed':
                np.random.seed(step[1])
            elif step[0] == 'pyseed':
                random.seed(step[1])
            elif step[0] == 'npdraw':
                np.random.random(step[1])
            elif step[0] == 'other':
                _other(step[1])(step[2])
            else:
                results.setdefault(step[1], []).append(canon(call(seeds[step[1]])))
        ran = True
    if ran:
        with case.clause('same_seed:' + entry):
            for lab, rs in sorted(results.items()):
                for k in range(1, len(rs)):
                    if not same(rs[0], rs[k]):
                        case.fail('differs', 'seed %d: call 1 and call %d of the program return different results (%s)'
                                  % (seeds[lab], k + 1, _describe(rs[0], rs[k])))
        if meta['random']:
            with case.clause('diff_seed:' + entry):
                labs = sorted(results)
                for i in range(len(labs)):
                    for j in range(i + 1, len(labs)):
                        if meta.get('diff_ns'):
                            eq = same(canon(dcall(seeds[labs[i]])), canon(dcall(seeds[labs[j]])))
                        else:
                            eq = same(results[labs[i]][0], results[labs[j]][0])
                        if eq:
                            # confirm on a fresh pair of seeds
                            sa = stats.derive_seed(seeds[labs[i]], 'confirm')
                            sb = stats.derive_seed(seeds[labs[j]], 'confirm')
                            if sa != sb and same(canon(dcall(sa)), canon(dcall(sb))):
                                case.fail('identical', 'seeds %d and %d (and %d, %d) give identical results' % (
                                    seeds[labs[i]], seeds[labs[j]], sa, sb))

    # ---- neighbouring seeds: the starting points of seed s and of seed s + 1 have no row in common (a stream that is
    # re-seeded per row with seed + row index shifts the rows of one seed into the next)
    if ran and entry in ('lp', 'hlp', 'flp'):
        with case.clause('neighbouring_seeds:' + entry):
            for s0 in (min(int(seeds['A']), 2 ** 31 - 2), min(int(seeds['B']), 2 ** 31 - 2)):
                # (the neighbour s0 + 1 stays inside the range of the seed forms the case uses, numpy int32 among them)
                a = np.asarray(call(s0, 4), dtype=float)
                b = np.asarray(call(s0 + 1, 4), dtype=float)
                case.equal(a.shape, b.shape, 'shapes of the starting points for seeds %d and %d' % (s0, s0 + 1), kind='shape')
                shared = [(i, j) for i in range(len(a)) for j in range(len(b)) if np.array_equal(a[i], b[j])]
                case.true(not shared, 'starting points of seed %d and of seed %d share rows %r (row of the first, row of the '
                          'second): %r' % (s0, s0 + 1, shared[:3], a[shared[0][0]].tolist()[:4] if shared else None),
                          kind='identical')

    # ---- a large population in one call: under a continuous distribution no two individuals receive the very same value
    # (streams that are re-seeded per individual from a small pool of integers collide once there are thousands)
    if ran and entry == 'pop' and meta.get('cont_cols'):
        with case.clause('large_population:' + entry):
            big = np.asarray(call(seeds['A'], 8000), dtype=float)
            case.equal(big.shape[0], 8000, 'number of sampled individuals', kind='shape')
            for c in meta['cont_cols']:
                n_distinct = int(np.unique(big[:, c]).size)
                case.true(n_distinct == 8000, 'dimension %d: %d of 8000 individuals sampled in one call share their value '
                          'with another individual (continuous distribution)' % (c, 8000 - n_distinct), kind='identical')

    # ---- nested blocks: every dimension of a composition has a stream of its own, also the dimensions of a nested block
    # next to later siblings of the outer model (streams that are derived per position collide across the levels)
    if ran and entry == 'pop':
        with case.clause('nested_block_streams:' + entry):
            import chi
            blocks = [chi.ComposedPopulationModel([chi.GaussianModel(), chi.LogNormalModel()]), chi.GaussianModel(),
                      chi.ComposedPopulationModel([chi.GaussianModel(), chi.GaussianModel()]), chi.LogNormalModel()]
            nm = chi.ComposedPopulationModel(blocks)
            th_n = np.array([0.5, 0.3] * 6)
            x_n = np.asarray(nm.sample(th_n, n_samples=4000, seed=seeds['A']), dtype=float)
            case.equal(x_n.shape, (4000, 6), 'shape of the samples of a nested composition', kind='shape')
            z_n = x_n.copy()
            for c in (1, 5):
                z_n[:, c] = np.log(z_n[:, c])
            r_n = np.corrcoef(z_n.T)
            worst = max((abs(r_n[a, b]), a, b) for a in range(6) for b in range(a + 1, 6))
            # (independent columns: |r| ~ 1 / sqrt(4000) = 0.016; 0.15 is more than nine standard deviations)
            case.true(worst[0] < 0.15, 'dimensions %d and %d of a nested composition (blocks of 2, 1, 2, 1 dimensions) sampled in '
                      'one call with seed %d are correlated: r = %.4f over 4000 individuals' % (worst[1], worst[2], seeds['A'],
                                                                                             r_n[worst[1], worst[2]]),
                      kind='corr')
            case.labels.append('nested_block_streams')

    if ran and meta.get('relabel_call') is not None:
        with case.clause('label_independent:' + entry):
            a = canon(call_int(seeds['A'])) if form != 'int' else canon(call(seeds['A']))
            b = canon(meta['relabel_call'](seeds['A']))
            case.true(same(a, b), 'seed %d: the samples for an individual change when the individuals of the dataset are '
                      'labelled differently (%s)' % (seeds['A'], _describe(a, b)), kind='differs')

    # ---- seeds beyond 32 bits (time.time_ns(), 64-bit hashes): s and s + 2^32 are different seeds
    if ran and meta['random'] and entry in ('em', 'pop') and form == 'int':
        with case.clause('wide_seed:' + entry):
            s0 = int(seeds['A'])
            a, b = canon(dcall(s0 + 2 ** 32)), canon(dcall(s0 + 2 ** 32))
            case.true(same(a, b), 'seed %d: two calls give different results (%s)' % (s0 + 2 ** 32, _describe(a, b)),
                      kind='differs')
            base_ = canon(dcall(s0))
            if same(a, base_):
                c, d_ = canon(dcall(s0 + 1)), canon(dcall(s0 + 1 + 2 ** 32))
                if same(c, d_):
                    case.fail('identical', 'seeds %d and %d (and %d, %d) give identical results' % (
                        s0, s0 + 2 ** 32, s0 + 1, s0 + 1 + 2 ** 32))

    # ---- calls without a seed: successive calls draw on, they do not replay one another; the caller's own draws from
    # the global generator afterwards are not the numbers the call has just used
    if ran and meta['random']:
        with case.clause('unseeded:' + entry):
            np.random.seed(seeds['A'] % (2 ** 31))
            r1, r2 = canon(dcall(None)), canon(dcall(None))
            if same(r1, r2):
                r3, r4 = canon(dcall(None)), canon(dcall(None))
                if same(r3, r4) or same(r1, r3):
                    case.fail('identical', 'successive calls without a seed return identical results (%s)' % _describe(r1, r2))

    # ---- more virtual patients than a heterogeneous part has individuals, and no multiple of their number: every
    # patient is simulated once, with continuous parameters of their own
    if ran and meta.get('partial_block') is not None:
        with case.clause('partial_block:' + entry):
            for k, n in ((4, 6), (3, 7), (2, 3), (3, 2), (3, 6)):
                sims = meta['partial_block'](seeds['A'], k, n)
                case.equal(len(sims), n, 'number of simulations for %d virtual patients (heterogeneous part over %d '
                           'individuals)' % (n, k), kind='count')
                case.true(len(set(sims)) == n, '%d virtual patients (heterogeneous part over %d individuals): %d patients '
                          'were simulated with the very same log-normally distributed parameters as another patient: %r'
                          % (n, k, n - len(set(sims)), [list(t_[:2]) for t_ in sims]), kind='identical')
                case.equal(meta['partial_block'](seeds['A'], k, n), sims, 'simulated parameters of two calls with seed %d'
                           % seeds['A'])
            case.labels.append('partial_block')

    if ran and meta.get('prior_draws') is not None:
        with case.clause('unseeded_prior_draws:' + entry):
            pd_ = meta['prior_draws']
            np.random.seed(seeds['B'] % (2 ** 31))
            a, b = pd_(None), pd_(None)
            case.true(len(a) >= 1 and len(b) >= 1, 'no simulation was recorded', kind='harness')
            if len(set(t_[:1] for t_ in a)) > 1 or a != pd_(seeds['A']):
                # (the prior is not a point mass)
                case.true(a != b, 'two successive calls without a seed simulate the very same parameter sets drawn from '
                          'the prior: %r' % (a[:2],), kind='identical')
            case.equal(pd_(seeds['A']), pd_(seeds['A']), 'parameter sets drawn from the prior by two calls with the same seed')

    # ---- small calls: the samples of ONE call are independent of each other also when there are few of them ----
    if meta.get('hetero_col') is not None:
        col, K = meta['hetero_col']

        def pair_counts(n_calls, seed0):
            eq = 0
            for j in range(n_calls):
                x = np.asarray(call(stats.derive_seed(seed0, 'small', j), 2), dtype=float)
                eq += int(x[0, col] == x[1, col])
            return eq

        def tests_small(data):
            n_calls, eq = data
            from scipy import stats as sps
            pv = float(sps.binomtest(eq, n_calls, 1.0 / K).pvalue)
            return {('small_calls:' + entry,): (pv, 'binomial', 'two samples of one call (n_samples=2) come from the same '
                                                'individual of the heterogeneous part in %d of %d calls; %.1f expected '
                                                '(independent uniform choices among %d individuals)' % (
                                                    eq, n_calls, n_calls / float(K), K))}
        res_s = None
        with case.clause('small_calls_run:' + entry):
            res_s = stats.two_stage(lambda n, sd: (n, pair_counts(n, sd)), tests_small, s['stat_seed'], 150)
        if res_s is not None:
            with case.clause('small_calls:' + entry):
                fs = res_s.for_prefix('small_calls:' + entry)
                if fs:
                    case.fail(fs[0].stat, fs[0].text())

    # ---- replicate measurements: the same time requested twice carries two noise terms --------
    tm = s['target'].get('times')
    if meta.get('array_call') is not None and tm and len(set(tm)) < len(tm):
        with case.clause('replicates:' + entry):
            ts = np.sort(np.array(tm, dtype=float))
            y = meta['array_call'](seeds['A'], 4)
            case.equal(list(y.shape[1:]), [len(ts), 4], 'shape (times, samples) of the array with replicate times')
            for i in range(len(ts) - 1):
                if ts[i] == ts[i + 1]:
                    case.true(not np.array_equal(y[:, i, :], y[:, i + 1, :]),
                              'time %r is requested twice (positions %d and %d of the sorted times): all outputs and '
                              'all 4 samples carry identical values %s at both positions, i.e. the same noise term'
                              % (float(ts[i]), i, i + 1, np.round(y[:, i, :], 6).tolist()), kind='identical')

    # ---- a generator object as seed --------------------------------------------------------
    if entry in GEN_ENTRIES:
        g_ok = False
        rec = {}
        with case.clause('gen_call:' + entry):
            for tag, k in (('', s['gen']['k']), ('2', stats.derive_seed(s['gen']['k'], 'gen2'))):
                np.random.seed(s['gen']['a0'])
                random.seed(s['gen']['a0'])
                g = np.random.default_rng(k)
                st0 = _state(g)
                r1 = canon(dcall(g))
                st1 = _state(g)
                r2 = canon(dcall(g))
                st2 = _state(g)
                np.random.seed(s['gen']['a1'])
                random.seed(s['gen']['a1'])
                h = np.random.default_rng(k)
                q1 = canon(dcall(h))
                _other('trunc')(s['gen']['a1'] % 1000)
                q2 = canon(dcall(h))
                rec[tag] = (st0, st1, st2, r1, r2, q1, q2, k)
            g_ok = True
        if g_ok:
            st0, st1, st2, r1, r2, q1, q2, k = rec['']
            if meta['random']:
                with case.clause('gen_advanced:' + entry):
                    case.true(st1 != st0, 'generator (seed %d) passed as seed: bit-generator state unchanged by the '
                                          'first call' % k, kind='not_advanced')
                    case.true(st2 != st1, 'generator (seed %d) passed as seed: bit-generator state unchanged by the '
                                          'second call' % k, kind='not_advanced')
                with case.clause('gen_successive:' + entry):
                    if same(r1, r2) and same(rec['2'][3], rec['2'][4]):
                        case.fail('identical', 'two successive calls with the same generator object (seed %d, and '
                                               'again with seed %d) return identical results' % (k, rec['2'][7]))
            with case.clause('gen_fresh:' + entry):
                case.true(same(r1, q1), 'first call with default_rng(%d) differs from the first call with an equally '
                                        'seeded fresh generator under another global state (%s)' % (k, _describe(r1, q1)),
                          kind='differs')
                case.true(same(r2, q2), 'second call with default_rng(%d) differs from the second call with an equally '
                                        'seeded fresh generator (%s)' % (k, _describe(r2, q2)), kind='differs')

    # ---- independence within one call ---------------------------------------------------
    if s['indep'] and noise is not None:
        n1 = 20000
        if entry in ('hlp', 'flp', 'poppred'):
            # covariate models sample row by row in Python (the truncated Gaussian at ~0.3 ms per draw)
            pop = s['target']['hier']['pop'] if entry == 'hlp' else s['target']['pop']
            n1 = 5000 if popgen.has(pop, 'cov') else 20000

        def tests(E):
            out = {}
            n, c = E.shape
            if not np.all(np.isfinite(E)):
                out[('indep_finite:' + entry,)] = (0.0, 'nan', 'non-finite noise value')
                return out
            for j in range(c):
                # every column of the noise matrix is random by construction: a constant column means that all
                # samples / individuals of the call received the same noise
                if n >= 10 and np.ptp(E[:, j]) == 0:
                    out[('indep_rows:' + entry, j, 'const')] = (
                        0.0, 'identical', 'column %d of %d: all %d samples / individuals are identical (%r)' % (
                            j, c, n, float(E[0, j])))
            cols = [j for j in meta.get('col_set', range(c)) if np.ptp(E[:, j]) > 0]
            pairs = []
            if meta['cols']:
                pairs = [(cols[i], cols[i + 1]) for i in range(len(cols) - 1)]
                pairs += [(cols[i], cols[j]) for i in range(len(cols)) for j in range(i + 2, len(cols))]
            for (a, b) in pairs[:10]:
                p, d = stats.corr_scores(E[:, a], E[:, b])
                out[('indep_cols:' + entry, a, b)] = (p, 'corr', 'noise columns %d and %d of %d (outputs / time points '
                                                                 '/ dimensions): %s' % (a, b, c, d))
            if meta['cols'] and len(cols) >= 3:
                pv, d, _ = stats.corr_max(E, cols)
                if pv is not None:
                    out[('indep_cols:' + entry, 'all')] = (pv, 'corr', 'all pairs of the %d independent noise columns: %s'
                                                           % (len(cols), d))
            if meta.get('cross'):
                # two blocks whose columns are pairwise independent ACROSS the blocks (not within the first one)
                ca, cb = meta['cross']
                pv, d, _ = stats.corr_max(E, ca, cb)
                if pv is not None:
                    out[('indep_cols:' + entry, 'cross')] = (pv, 'corr', '%s vs %s columns: %s' % (
                        meta.get('cross_names', ('first block', 'second block'))[0],
                        meta.get('cross_names', ('first block', 'second block'))[1], d))
            allc = [j for j in range(c) if np.ptp(E[:, j]) > 0]
            pick = sorted(set([allc[0], allc[len(allc) // 2], allc[-1]])) if allc else []
            if meta.get('continuous'):
                # independent continuous noise terms never coincide: pairs of (numerically) equal values within a
                # column mean that a random stream was used twice (same seed for two samples / models / individuals)
                from scipy import stats as sps
                for j in pick:
                    col = np.sort(E[:, j])
                    tol = 1e-11 * np.maximum(1.0, np.abs(col[1:]))
                    dup = int(np.sum(np.diff(col) <= tol))
                    lam = 10.0 * n * n * 1e-11          # generous bound on the expected number of chance pairs
                    pv = float(sps.poisson.sf(dup - 1, lam)) if dup > 0 else 1.0
                    out[('indep_rows:' + entry, j, 'dup')] = (
                        pv, 'duplicates', 'column %d of %d: %d pairs of equal noise values among %d samples / '
                        'individuals / time points (continuous noise: about %.1e expected by chance)' % (j, c, dup, n, lam / 10))
            for j in pick:
                for lag in meta['lags']:
                    L = 1 if lag == 1 else max(2, n // N_IDS_DF)
                    if L >= n:
                        continue
                    p, d = stats.corr_scores(E[:-L, j], E[L:, j])
                    out[('indep_rows:' + entry, j, L)] = (p, 'corr', 'column %d, rows i and i+%d (successive samples / '
                                                                     'individuals / time points): %s' % (j, L, d))
            return out

        res = None
        with case.clause('indep_call:' + entry):
            res = stats.two_stage(lambda n, sd: np.asarray(noise(n, sd), dtype=float), tests, s['stat_seed'], n1)
        if res is not None:
            if res.stage2:
                case.labels.append('stage2')
            names = []
            for key in res.evaluated:
                if key[0] not in names:
                    names.append(key[0])
            for name in names:
                with case.clause(name):
                    fs = res.for_prefix(name)
                    if fs:
                        case.fail(fs[0].stat, fs[0].text() + ('' if len(fs) == 1 else ' (+%d more)' % (len(fs) - 1)))


RULE += (' Classes and clauses added in later rounds of the seeded-change protocol (DESIGN 9.4) are named in REQUIRED '
         'and in seeded/HISTORY.json; the evidence counts every one of them under classes.')
