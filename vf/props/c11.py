"""C11 - Mechanistic model behaviour depends only on its final configuration."""
import itertools

import numpy as np
from hypothesis import strategies as st

from vf import gen, sbmlgen

ID = 'C11'
BUDGET = {'quick': 160, 'thorough': 5000}
EXHAUSTIVE = {'quick': True, 'thorough': True}
RULE = (
    'Histories of configuration operations on a PKPD model: admin(compartment, direct|indirect), regimen (two '
    'canonical regimens in the float form; RP = the myokit.Protocol form with ONE protocol object per model that gets a '
    'further event scheduled and is passed again), set_outputs (two selections), rename parameter / output, enable/disable sensitivities, '
    'copy-and-continue-on-copy, copy-and-keep, wrap in ReducedMechanisticModel + fix / re-fix / release, simulate. '
    'Tier 1 is EXHAUSTIVE: every sequence of length <= 3 (quick) / <= 4 (thorough) over the 20-letter alphabet on two '
    'fixed generated models (1 and 2 compartments) and the library one-compartment model, observed at the end of the '
    'sequence (all prefixes are sequences themselves). Tier 2: Hypothesis draws sequences of up to 25 operations on '
    'freshly generated models / library models (pk, erlotinib) and observes after every step. Non-trivial: an '
    'administration change after another configuration call, or a copy followed by a mutation. Distinct = distinct '
    '(model, operation sequence).')
RULE += (' ' + 'Added letter RP: the myokit.Protocol form of set_dosing_regimen with one protocol object per model that gets a further event scheduled and is passed again.')
ASSUMPTIONS = [
    'reference integrator vf/simshim.py stands in for myokit.Simulation',
    'oracle: a freshly constructed model to which the net configuration (last writer wins; set_outputs / '
    'set_administration / copy reset sensitivities as documented) is applied in canonical order; the net regimen is '
    'the one the model REPORTS (the check does not decide whether a regimen survives a change of route) and must be '
    'the one its simulations apply (closed form for generated models)',
    'a regimen call before any route was chosen is rejected by chi (documented ValueError) and leaves the state unchanged',
    'operations that ReducedMechanisticModel does not offer (set_administration) are skipped after wrapping']
REQUIRED = ['admin_after_config', 'copy_then_mutate', 'wrapped', 'regimen_then_admin', 'rename_then_admin', 'exhaustive',
            'protocol_object_reused', 'model:more_than_16_parameters:some_fixed']

TIMES = np.array([0.0, 0.4, 0.7, 1.3, 2.6, 3.9])
ALPHABET = ['A0', 'A1', 'A2', 'A3', 'R0', 'R1', 'R2', 'RP', 'O0', 'O1', 'O2', 'NP', 'NO', 'S1', 'S0', 'C', 'K', 'F', 'X', 'G', 'E']
REGIMENS = {'R0': dict(dose=2.0, start=0.5, duration=0.2, period=1.0, num=3),
            'R1': dict(dose=1.0, start=0.0, duration=0.01, period=None, num=None),
            # (a control arm: the same call with a dose of zero replaces whatever was scheduled before)
            'R2': dict(dose=0.0, start=0.4, duration=0.3, period=None, num=None)}

MS1 = dict(comps=[dict(id='zeta', size=1.3, sid='drug', init=0.8)],
           gstates=[dict(id='Wx', init=1.5)],
           consts=[dict(id='k_b', value=0.3), dict(id='Ka', value=0.7)], derived=[],
           flows=[dict(src=0, dst=1, rate='Ka'), dict(src=1, dst=None, rate='k_b')],
           inter=[dict(id='obs', terms=[[2.0, 0], [0.5, 1]])],
           perm=dict(species=[0], params=[3, 0, 2, 1], rules=[2, 0, 1], comps=[0]))
MS2 = dict(comps=[dict(id='zeta', size=1.3, sid='mu', init=0.8), dict(id='Alpha', size=2.0, sid='drug', init=0.2)],
           gstates=[],
           consts=[dict(id='k_b', value=0.3), dict(id='Ka', value=0.7)],
           derived=[dict(id='kd', a='Ka', b='k_b')],
           flows=[dict(src=0, dst=1, rate='Ka'), dict(src=1, dst=0, rate='kd'), dict(src=1, dst=None, rate='k_b')],
           inter=[],
           perm=dict(species=[1, 0], params=[2, 0, 1], rules=[1, 2, 0], comps=[1, 0]))
# a model with 19 published parameters (9 states, 2 compartment sizes, 8 constants): more than the built-in models have
MS3 = dict(comps=[dict(id='zeta', size=1.3, sid='mu', init=0.8), dict(id='Alpha', size=2.0, sid='drug', init=0.2)],
           gstates=[dict(id='g%d' % k, init=0.3 + 0.2 * k) for k in range(7)],
           consts=[dict(id='c%d' % k, value=0.15 + 0.1 * k) for k in range(8)], derived=[],
           flows=[dict(src=i, dst=i + 1 if i < 8 else None, rate='c%d' % (i % 8)) for i in range(9)] +
                 [dict(src=4, dst=0, rate='c7')],
           inter=[dict(id='obs', terms=[[2.0, 0], [0.5, 5], [1.5, 8]])],
           perm=dict(species=[1, 0], params=list(reversed(range(16))), rules=[(3 * k) % 10 for k in range(10)],
                     comps=[1, 0]))
FIXED_MODELS = {'m1': MS1, 'm2': MS2, 'm3': MS3}


def extra_cases(tier):
    max_len = 3 if tier == 'quick' else 4
    out = []
    for model in ('m1', 'm2', 'pk'):
        for L in range(1, max_len + 1):
            for seq in itertools.product(ALPHABET, repeat=L):
                out.append(dict(model=model, ms=None, ops=list(seq), every=False, exhaustive=True))
    # the model with more than 16 parameters: every sequence of up to two steps, and every sequence of three steps that
    # fixes a parameter
    for L in (1, 2):
        for seq in itertools.product(ALPHABET, repeat=L):
            out.append(dict(model='m3', ms=None, ops=list(seq), every=False, exhaustive=True))
    for seq in itertools.product(ALPHABET, repeat=3):
        if 'F' in seq and (tier != 'quick' or seq[0] == 'F'):
            out.append(dict(model='m3', ms=None, ops=list(seq), every=False, exhaustive=True))
    return out


@st.composite
def _spec(draw):
    model = draw(st.sampled_from(['gen', 'gen', 'pk', 'erl', 'm2', 'm3']))
    big = model == 'gen' and gen.chance(draw, 0.08)
    ms = sbmlgen.draw_model(draw, max_states=4, big=big) if model == 'gen' else None
    n = draw(st.integers(4, 25))
    ops = [ALPHABET[draw(st.integers(0, len(ALPHABET) - 1))] for _ in range(n)]
    if big and not any(o in ('F', 'G') for o in ops):
        # (a model with more than 16 parameters is of interest with some of them fixed)
        ops[draw(st.integers(0, n - 1))] = 'F'
    return dict(model=model, ms=ms, ops=ops, every=True, exhaustive=False)


def strategy(tier):
    return _spec()


def classify(spec):
    ops = spec['ops']
    labs = []
    if spec.get('exhaustive'):
        labs.append('exhaustive')
    seen_cfg = False
    for i, o in enumerate(ops):
        if o.startswith('A') and seen_cfg:
            labs.append('admin_after_config')
        if not o.startswith('A') and o not in ('C', 'K'):
            seen_cfg = True
    for i, o in enumerate(ops):
        if o in ('C', 'K') and any(p not in ('C', 'K') for p in ops[i + 1:]):
            labs.append('copy_then_mutate')
        if o in ('R0', 'R1', 'RP') and any(p.startswith('A') for p in ops[i + 1:]) and any(p.startswith('A') for p in ops[:i]):
            labs.append('regimen_then_admin')
        if o in ('NP', 'NO') and any(p.startswith('A') for p in ops[i + 1:]):
            labs.append('rename_then_admin')
    if 'F' in ops or 'X' in ops or 'G' in ops:
        labs.append('wrapped')
    if ops.count('RP') >= 2:
        labs.append('protocol_object_reused')
    labs.append('model:' + spec['model'])
    if (spec.get('ms') is not None and len(sbmlgen.published_parameters(spec['ms'])) > 16) or spec['model'] == 'm3':
        labs.append('model:more_than_16_parameters')
        if 'F' in ops:
            labs.append('model:more_than_16_parameters:some_fixed')
    return sorted(set(labs))


def nontrivial(spec):
    labs = classify(spec)
    return 'admin_after_config' in labs or 'copy_then_mutate' in labs


def structure(spec):
    return [spec['model'], sbmlgen.structure(spec['ms']) if spec['ms'] else None, spec['ops']]


# ---- model descriptions -----------------------------------------------------------------------
PK_MS = dict(comps=[dict(id='central', size=1.0, sid='drug', init=0.0)], gstates=[],
             consts=[dict(id='elimination_rate', value=1.0)], derived=[],
             flows=[dict(src=0, dst=None, rate='elimination_rate')], inter=[],
             perm=dict(species=[0], params=[0], rules=[0], comps=[0]))


class Desc(object):
    """What the harness knows about the model family under test."""
    def __init__(self, spec):
        self.kind = spec['model']
        if self.kind == 'gen':
            self.ms = spec['ms']
        elif self.kind in FIXED_MODELS:
            self.ms = FIXED_MODELS[self.kind]
        elif self.kind == 'pk':
            self.ms = PK_MS
        else:
            self.ms = None     # erlotinib: no closed form
        if self.ms is not None:
            # dosable variables in the order of the states: one species per compartment, then the variables of 'global'
            # that are governed by a rate rule (several of them share the component 'global')
            self.comps = [(c['id'], '%s_amount' % c['sid']) for c in self.ms['comps']] + \
                [('global', g['id']) for g in self.ms['gstates']]
            self.n_compartments = len(self.ms['comps'])
            self.states = sbmlgen.state_qnames(self.ms)
            self.inter = sbmlgen.intermediate_qnames(self.ms)
            if self.kind == 'pk':
                self.inter = ['central.drug_concentration']
        else:
            self.comps = [('central', 'drug_amount')]
            self.n_compartments = 1
            self.states = ['central.drug_amount', 'global.tumour_volume']
            self.inter = ['central.drug_concentration']

    def fresh(self):
        import chi
        import chi.library
        if self.kind == 'pk':
            return chi.library.ModelLibrary().one_compartment_pk_model()
        if self.kind == 'erl':
            return chi.library.ModelLibrary().erlotinib_tumour_growth_inhibition_model()
        return sbmlgen.build(self.ms, chi.PKPDModel)

    def default_outputs(self):
        if self.kind == 'pk':
            return ['central.drug_concentration']
        return sorted(self.states)

    def base_params(self):
        """qnames of the parameters without administration (sorted rule)."""
        if self.ms is not None:
            return sbmlgen.published_parameters(self.ms)
        return ['central.drug_amount', 'global.tumour_volume', 'central.size', 'global.critical_volume',
                'global.elimination_rate', 'global.kappa', 'global.lambda']

    def params(self, admin):
        base = self.base_params()
        if admin is None or admin[1]:
            return base
        n_states = len(self.states)
        s = sorted(base[:n_states] + ['dose.drug_amount'])
        c = sorted(base[n_states:] + ['dose.absorption_rate'])
        return s + c


def value_of(qname):
    """Deterministic, pairwise distinct parameter value per myokit name."""
    h = sum((i + 1) * ord(ch) for i, ch in enumerate(qname))
    return 0.3 + (h % 97) / 60.0


class Net(object):
    """Net configuration (last writer wins)."""
    def __init__(self, desc):
        self.admin = None          # (comp index, direct)
        self.outputs = None        # list of qnames or None (default)
        self.pren = {}             # qname -> public name
        self.oren = {}
        self.sens = False
        self.fixed = None          # None = not wrapped; dict qname -> value
        self.n_ren = 0

    def clone(self):
        import copy
        return copy.deepcopy(self)


def apply_net(desc, net, regimen):
    """Fresh model with the net configuration applied in canonical order."""
    import chi
    m = desc.fresh()
    if net.admin is not None:
        comp, avar = desc.comps[net.admin[0]]
        m.set_administration(comp, amount_var=avar, direct=net.admin[1])
    if net.outputs is not None:
        m.set_outputs(list(net.outputs))
    qn = desc.params(net.admin)
    pmap = {q: net.pren[q] for q in qn if q in net.pren}
    if pmap:
        m.set_parameter_names(pmap)
    outs = net.outputs if net.outputs is not None else desc.default_outputs()
    omap = {q: net.oren[q] for q in outs if q in net.oren}
    if omap:
        m.set_output_names(omap)
    if regimen is not None:
        m.set_dosing_regimen(regimen.clone())
    obj = m
    if net.fixed is not None:
        obj = chi.ReducedMechanisticModel(m)
        pub = {q: pmap.get(q, q) for q in qn}
        fx = {pub[q]: v for q, v in net.fixed.items() if q in pub}
        if fx:
            obj.fix_parameters(fx)
    if net.sens:
        obj.enable_sensitivities(True)
    return obj


def protocol_events(p, t_end):
    if p is None:
        return []
    ev = []
    for e in p.events():
        if e.period() == 0:
            if e.start() <= t_end:
                ev.append((e.start(), e.duration(), e.level()))
            continue
        k = 0
        while True:
            s = e.start() + k * e.period()
            if s > t_end or (e.multiplier() and k >= e.multiplier()):
                break
            ev.append((s, e.duration(), e.level()))
            k += 1
    return ev


def describe_regimen(p):
    if p is None:
        return None
    return [(e.level(), e.start(), e.duration(), e.period(), e.multiplier()) for e in p.events()]


def observe(desc, net, obj):
    """Observable behaviour of a model (no mutation except the simulator state)."""
    qn = desc.params(net.admin)
    free = [q for q in qn if not (net.fixed and q in net.fixed)]
    theta = np.array([value_of(q) for q in free])
    o = dict(parameters=list(obj.parameters()), n_parameters=int(obj.n_parameters()), outputs=list(obj.outputs()),
             n_outputs=int(obj.n_outputs()), regimen=describe_regimen(obj.dosing_regimen()),
             sens=bool(obj.has_sensitivities()))
    o['theta_len'] = len(theta)
    if len(theta) == o['n_parameters']:
        res = obj.simulate(theta.copy(), TIMES.copy())
        if o['sens']:
            o['sim'] = np.asarray(res[0], dtype=float)
            o['dsim'] = np.asarray(res[1], dtype=float)
        else:
            o['sim'] = np.asarray(res, dtype=float)
    return o


def compare(case, what, got, want):
    for key in ('parameters', 'n_parameters', 'outputs', 'n_outputs', 'regimen', 'sens'):
        case.equal(got[key], want[key], '%s: %s' % (what, key))
    case.equal(got['theta_len'], got['n_parameters'], '%s: parameter count vs expected vector length' % what)
    if 'sim' in want:
        case.true('sim' in got, '%s: could not simulate' % what)
        case.close(got['sim'], want['sim'], rtol=1e-7, atol=1e-9, what='%s: simulation' % what)
    if 'dsim' in want:
        case.close(got['dsim'], want['dsim'], rtol=1e-6, atol=1e-8, what='%s: sensitivities' % what)


def check(case):
    import chi
    from vf import simshim
    simshim.install()
    s = case.spec
    desc = Desc(s)
    with case.clause('construct'):
        cur = desc.fresh()
    if case.fails:
        return
    net = Net(desc)
    others = []      # (label, object, net at that time, recorded observation)
    proto = [None, 0]   # the user's own myokit.Protocol object for the current model, number of events scheduled

    def verify(step):
        with case.clause('net_configuration'):
            reg = cur.dosing_regimen()
            if net.admin is None:
                case.true(reg is None, 'a regimen is reported although no route of administration is set')
            want = observe(desc, net, apply_net(desc, net, reg))
            got = observe(desc, net, cur)
            compare(case, 'after %s' % (s['ops'][:step + 1],), got, want)
            if desc.ms is not None and 'sim' in got:
                outs_q = net.outputs if net.outputs is not None else desc.default_outputs()
                if all(q in desc.states or q in sbmlgen.intermediate_qnames(desc.ms) or q == 'dose.drug_amount'
                       for q in outs_q):
                    qn = desc.params(net.admin)
                    theta = np.array([net.fixed[q] if (net.fixed and q in net.fixed) else value_of(q) for q in qn])
                    admin = None if net.admin is None else dict(comp=net.admin[0], direct=net.admin[1])
                    ev = protocol_events(reg, TIMES[-1] + 1)
                    ref = np.real(sbmlgen.ref_simulate(desc.ms, theta, TIMES, outs_q, admin, ev))
                    case.close(got['sim'], ref, rtol=1e-6, atol=1e-8,
                               what='simulation under the reported regimen vs closed form')
        with case.clause('copies_independent'):
            for label, obj, onet, rec in others:
                now = observe(desc, onet, obj)
                compare(case, '%s re-observed after %s' % (label, s['ops'][:step + 1]), now, rec)

    for step, op in enumerate(s['ops']):
        wrapped = net.fixed is not None
        n_fail = len(case.fails)
        with case.clause('operation'):
            if op in ('A0', 'A1', 'A2', 'A3'):
                if wrapped:
                    continue
                # A0 / A1: first compartment, direct / indirect; A2: the LAST dosable variable, A3: the first variable of
                # 'global' (two variables of one component when there are several), both direct
                ci = len(desc.comps) - 1 if op == 'A2' else \
                    min(desc.n_compartments, len(desc.comps) - 1) if op == 'A3' else 0
                direct = op != 'A1'
                comp, avar = desc.comps[ci]
                cur.set_administration(comp, amount_var=avar, direct=direct)
                old = net.admin
                net.admin = (ci, direct)
                net.sens = False
                valid = set(desc.params(net.admin))
                net.pren = {q: v for q, v in net.pren.items() if q in valid}
                if net.outputs is not None:
                    net.outputs = [q for q in net.outputs if q != 'dose.drug_amount' or not direct]
                    if not net.outputs:
                        # no selected output survives the new route: chi falls back to the states of the model
                        # (the class default, not a selection a library function may have made at construction)
                        net.outputs = sorted(desc.states)
                        net.oren = {}
            elif op in REGIMENS:
                r = REGIMENS[op]
                try:
                    cur.set_dosing_regimen(dose=r['dose'], start=r['start'], duration=r['duration'],
                                           period=r['period'], num=r['num'])
                except ValueError:
                    case.true(net.admin is None, 'set_dosing_regimen was rejected although a route is set')
            elif op == 'RP':
                # Protocol form: the user keeps ONE protocol object, schedules a further event and passes it again
                import myokit
                if proto[0] is None:
                    proto[0], proto[1] = myokit.Protocol(), 0
                k = proto[1]
                proto[0].schedule(level=[1.5, 0.7, 2.2][k % 3], start=0.3 + 0.9 * k, duration=0.15, period=0, multiplier=0)
                proto[1] += 1
                try:
                    cur.set_dosing_regimen(proto[0])
                except ValueError:
                    case.true(net.admin is None, 'set_dosing_regimen(Protocol) was rejected although a route is set')
                    proto[0] = None
            elif op in ('O0', 'O1', 'O2'):
                if op == 'O2':
                    # the dose compartment only (exists with an indirect route); the last state otherwise
                    sel = ['dose.drug_amount'] if (net.admin is not None and not net.admin[1]) else [desc.states[-1]]
                else:
                    sel = [desc.states[0]] if op == 'O0' else (list(reversed(desc.states)) + desc.inter[:1])
                cur.set_outputs(list(sel))
                net.outputs = list(sel)
                net.sens = False
                # a name assigned to an output belongs to the selected output: de-selecting it
                # ends the assignment (set_output_names is documented to name "the model outputs")
                net.oren = {q: v for q, v in net.oren.items() if q in sel}
            elif op == 'NP':
                qn = [q for q in desc.params(net.admin) if not (net.fixed and q in net.fixed)]
                if not qn:
                    continue          # no free parameter to rename
                q = qn[0]
                net.n_ren += 1
                new = 'parameter display name no. %d (longer than any name of the model)' % net.n_ren
                cur.set_parameter_names({net.pren.get(q, q): new})
                net.pren[q] = new
            elif op == 'NO':
                outs_q = net.outputs if net.outputs is not None else desc.default_outputs()
                q = outs_q[0]
                net.n_ren += 1
                new = 'O%d' % net.n_ren
                # (the second entry's key is no CURRENT output name - it is the name the first entry assigns -, so it names
                # nothing: the entries of one call are not applied one after another)
                cur.set_output_names({net.oren.get(q, q): new, new: 'chained ' + new})
                net.oren[q] = new
            elif op in ('S1', 'S0'):
                cur.enable_sensitivities(op == 'S1')
                net.sens = op == 'S1'
            elif op in ('C', 'K'):
                cp = cur.copy()
                cnet = net.clone()
                cnet.sens = False                      # documented: copying resets sensitivities
                if op == 'C':
                    others.append(('original', cur, net, observe(desc, net, cur)))
                    cur, net = cp, cnet
                    proto[0] = None                    # the protocol object stays with the original
                else:
                    others.append(('copy', cp, cnet, observe(desc, cnet, cp)))
            elif op == 'F':
                qn = desc.params(net.admin)
                if not wrapped:
                    cur = chi.ReducedMechanisticModel(cur)
                    net.fixed = {}
                free = [q for q in qn if q not in net.fixed]
                if len(free) >= 2:
                    q = free[-1]
                    v = gen.r6(value_of(q) * 1.5)
                    cur.fix_parameters({net.pren.get(q, q): v})
                    net.fixed[q] = v
                elif net.fixed:
                    q = sorted(net.fixed)[0]
                    cur.fix_parameters({net.pren.get(q, q): None})
                    del net.fixed[q]
            elif op == 'G':
                # every free parameter is fixed in one call (a model without free parameters); if nothing is free any
                # more, everything is released
                qn = desc.params(net.admin)
                if not wrapped:
                    cur = chi.ReducedMechanisticModel(cur)
                    net.fixed = {}
                free = [q for q in qn if q not in net.fixed]
                if free:
                    vals = {q: gen.r6(value_of(q) * 1.1) for q in free}
                    cur.fix_parameters({net.pren.get(q, q): v for q, v in vals.items()})
                    net.fixed.update(vals)
                else:
                    cur.fix_parameters({net.pren.get(q, q): None for q in net.fixed})
                    net.fixed = {}
            elif op == 'E':
                # configuration calls that are REJECTED change nothing: a renaming in which the second new name
                # collides with an existing name, an output selection whose second entry is not a variable, a route
                # into a compartment that does not exist
                qn = [q for q in desc.params(net.admin) if not (net.fixed and q in net.fixed)]
                disp = [net.pren.get(q, q) for q in qn]
                if len(qn) >= 2:
                    try:
                        cur.set_parameter_names({disp[0]: 'Ptmp', disp[1]: disp[-1] if len(qn) > 2 else disp[0]})
                    except ValueError:
                        pass
                    else:
                        case.fail('accepted', 'a renaming onto an existing parameter name was accepted')
                try:
                    cur.set_outputs([desc.states[0], 'no_such_compartment.no_such_variable'])
                except (KeyError, ValueError):
                    pass
                else:
                    case.fail('accepted', 'an output selection with an unknown variable was accepted')
                if not wrapped:
                    try:
                        cur.set_administration('no_such_compartment', amount_var='drug_amount', direct=True)
                    except (KeyError, ValueError):
                        pass
                    else:
                        case.fail('accepted', 'a route into an unknown compartment was accepted')
            elif op == 'X':
                # one fix_parameters call that releases a fixed parameter and fixes a free one (the number of free
                # parameters stays the same); a plain fix if nothing is fixed yet
                qn = desc.params(net.admin)
                if not wrapped:
                    cur = chi.ReducedMechanisticModel(cur)
                    net.fixed = {}
                free = [q for q in qn if q not in net.fixed]
                if net.fixed and free:
                    q_rel, q_fix = sorted(net.fixed)[0], free[0]
                    v = gen.r6(value_of(q_fix) * 1.25)
                    cur.fix_parameters({net.pren.get(q_rel, q_rel): None, net.pren.get(q_fix, q_fix): v})
                    del net.fixed[q_rel]
                    net.fixed[q_fix] = v
                elif len(free) >= 2:
                    q = free[0]
                    v = gen.r6(value_of(q) * 1.25)
                    cur.fix_parameters({net.pren.get(q, q): v})
                    net.fixed[q] = v
        if len(case.fails) > n_fail:
            return
        if s['every']:
            verify(step)
            if case.fails:
                return
    if not s['every']:
        verify(len(s['ops']) - 1)


RULE += (' Classes and clauses added in later rounds of the seeded-change protocol (DESIGN 9.4) are named in REQUIRED '
         'and in seeded/HISTORY.json; the evidence counts every one of them under classes.')
