"""C14 - Problem controller builds exactly the posterior the dataset describes."""
import numpy as np
from hypothesis import strategies as st

from vf import gen, ref, popgen, llbuild, sbmlgen
from vf.analytic_model import AnalyticModel, ref_outputs

ID = 'C14'
BUDGET = {'quick': 600, 'thorough': 25000}
RULE = (
    'Hypothesis draws a modelling problem: mechanistic model (analytic, no dosing; or a generated linear PKPD model '
    'with a direct/indirect route through the reference integrator), 1-2 outputs with one of the four error models '
    'each, 1-5 individuals (int / numpy-int / str IDs) with unbalanced per-output time series (non-decreasing within '
    'a series), NaN values and NaN times, per-individual dose rows (amount, optional duration, bolus default) for '
    'PKPD models, optional population model of matching dimension (at most one covariate part) with covariate rows, '
    'optional fixed parameters, a prior, custom column keys, explicit or default output->observable and '
    'covariate->observable maps, unrelated observables / columns / all-NaN rows, and a seed that interleaves the '
    'rows of the series (order inside each series kept). Non-trivial: >=2 individuals with different time grids and '
    '(different regimens or covariates or a population model). Distinct = structural projection.')
RULE += (' ' + 'Added: an explicit output-observable map whose keys are listed in another order than the model outputs.')
ASSUMPTIONS = [
    'oracle: the posterior assembled by hand from the generating spec (not from the frame): reference error densities, '
    'analytic outputs or closed-form solution under the individual\'s own dose events, reference population density, '
    'reference prior; hierarchical individuals ordered by first appearance in the frame',
    'times are non-decreasing within one (ID, observable) series (LogLikelihood documents and enforces increasing times)',
    'reference integrator vf/simshim.py for PKPD models']
REQUIRED = ['mech:analytic', 'mech:pkpd', 'pop', 'nopop', 'cov', 'doses', 'fixed', 'ids:int', 'ids:str', 'ids:npint',
            'custom_keys', 'explicit_map', 'nan_values', 'nan_times', 'unrelated', 'multi_output',
            'explicit_map:other_order', 'dose_row_with_measurement', 'pop_model_replaced',
            'controller_reused', 'unrelated_row_first:default_map_single_output', 'unmeasured_individual:hierarchical', 'observable_named_like_covariate', 'index:not_unique', 'two_covariate_parts', 'reduced_part', 'three_outputs']
OBS_TIMES_POOL = 6


@st.composite
def _spec(draw):
    pk = gen.chance(draw, 0.45)
    n_ids = draw(st.integers(1, 5))
    if pk:
        ms = sbmlgen.draw_model(draw, max_states=3)
        ci = draw(st.integers(0, len(ms['comps']) - 1))
        admin = dict(comp=ci, direct=not gen.chance(draw, 0.35))
        qn = sbmlgen.published_parameters(ms, admin)
        sq = sbmlgen.state_qnames(ms)
        n_out = draw(st.integers(1, min(3, len(sq))))
        outs = list(draw(st.permutations(sq))[:n_out])
        mech = dict(kind='pkpd', ms=ms, admin=admin, outputs=outs, n_par=len(qn))
    else:
        n_out = draw(st.sampled_from([1, 1, 2, 2, 3]))
        mech = dict(kind='analytic', n_out=n_out, n_par=draw(st.integers(1, 3)))
    ems = [draw(st.sampled_from(llbuild.EM_KINDS)) for _ in range(n_out)]
    n_sig = sum(ref.EM_NPAR[k] for k in ems)
    n_ll = mech['n_par'] + n_sig

    indiv = []
    for i in range(n_ids):
        series = []
        for o in range(n_out):
            # every mapped observable occurs in the frame (documented precondition of set_data)
            n = draw(st.integers(0 if (n_out > 1 and o > 0 and i > 0) else 1, 4))
            ts = sorted(draw(gen.vec(gen.logu(0.1, 6.0), n)))
            vals = draw(gen.vec(gen.logu(0.05, 20.0), n))
            nan_v = [gen.chance(draw, 0.12) for _ in range(n)]
            nan_t = [gen.chance(draw, 0.08) for _ in range(n)]
            series.append(dict(t=ts, v=vals, nan_v=nan_v, nan_t=nan_t))
        usable = sum(1 for s_ in series for a, b in zip(s_['nan_v'], s_['nan_t']) if not a and not b)
        if i > 0 and gen.chance(draw, 0.08):
            # an individual without any usable measurement (only missing values): it keeps its place in the
            # hierarchical model and contributes its population term only
            for s_ in series:
                s_['nan_v'] = [True] * len(s_['t'])
        elif usable == 0:
            series[0]['nan_v'] = [False] * len(series[0]['t'])
            series[0]['nan_t'] = [False] * len(series[0]['t'])
        doses = []
        if pk:
            n_d = draw(st.integers(0, 2))
            ts = sorted(gen.distinct(draw(gen.vec(gen.logu(0.05, 3.0), n_d))))
            ts = [gen.r6(t + 1.6 * j) for j, t in enumerate(ts)]
            for t in ts:
                doses.append(dict(t=t, dose=draw(gen.logu(0.2, 5.0)),
                                  dur=None if gen.chance(draw, 0.4) else draw(gen.logu(0.02, 1.0))))
        indiv.append(dict(series=series, doses=doses))

    pop = None
    cov = None
    if gen.chance(draw, 0.5):
        pop = popgen.draw_pop_for_dim(draw, n_ll, n_ids, max_cov_parts=2)
        cov = popgen.draw_cov_matrix(draw, n_ids, ref.pop_n_cov(pop))
        theta = popgen.draw_theta(draw, pop, n_ids, cov, positive=True)
        # (a part may itself be a reduced model in which some or all of its parameters are fixed)
        pop, theta, nested_red = popgen.nest_reduced(draw, pop, n_ids, theta, p=0.15)
        z = draw(gen.mat(gen.real(-2.5, 2.5), n_ids, n_ll))
        x = popgen.x_from_z(pop, n_ids, theta, z, cov)
        hd = ref.hier_layout(pop, n_ids)[2]
        vec = [gen.r6(float(v)) for v in x[:, hd].flatten()] + list(theta)
        n_top = len(theta)
    else:
        vec = gen.distinct(draw(gen.vec(gen.logu(0.2, 3.0), mech['n_par']))) + draw(gen.vec(gen.logu(0.05, 3.0), n_sig))
        n_top = len(vec)
    if pk:
        # Conditioning (not a restriction of chi's domain): keep exp(-rate * t) above ~3e-4 so that
        # outputs stay far above the absolute tolerance of any ODE solver (multiplicative and
        # log-normal error models divide by / take logs of the output).
        if pop is not None:
            xs, th = ref.hier_split(pop, n_ids, np.array(vec, dtype=float), None if cov is None else np.array(cov))
            psis = np.real(ref.pop_indiv(pop, n_ids, th, xs, None if cov is None else np.array(cov)))
        else:
            psis = np.array([vec] * n_ids)
        for i in range(n_ids):
            R = sbmlgen.max_out_rate(ms, psis[i][:mech['n_par']], admin)
            tmax = max([t for s_ in indiv[i]['series'] for t in s_['t']] + [1e-9])
            f = min(1.0, 8.0 / max(R * tmax, 1e-9))
            if f < 1.0:
                for s_ in indiv[i]['series']:
                    s_['t'] = [gen.r6(t * f) for t in s_['t']]
    if pk and gen.chance(draw, 0.3):
        # a sample taken at dosing (trough / pre-dose sample): ONE row of the frame carries the dose and the
        # measurement; the measurement moves to the time of the dose
        for ind in indiv:
            s0 = ind['series'][0]
            ok = [k for k in range(len(s0['t'])) if not s0['nan_t'][k] and not s0['nan_v'][k]]
            cands = [j for j, d in enumerate(ind['doses']) if ok and d['t'] <= max(s0['t'][k] for k in ok)]
            if not cands:
                continue
            j = cands[0]
            k = min(ok, key=lambda q: abs(s0['t'][q] - ind['doses'][j]['t']))
            s0['t'][k] = ind['doses'][j]['t']
            order = sorted(range(len(s0['t'])), key=lambda q: (s0['t'][q], q != k))
            for key in ('t', 'v', 'nan_v', 'nan_t'):
                s0[key] = [s0[key][q] for q in order]
            ind['merge'] = [order.index(k), j]
    fixed = None
    if n_top >= 2 and gen.chance(draw, 0.3):
        idx = draw(gen.subset(n_top, min_size=1, max_size=n_top - 1))
        off = len(vec) - n_top
        fixed = {str(i): vec[off + i] for i in idx}
    n_free_top = n_top - (len(fixed) if fixed else 0)
    free_top_vals = [v for i, v in enumerate(vec[len(vec) - n_top:]) if not (fixed and str(i) in fixed)]
    prior = llbuild.draw_prior(draw, n_free_top, free_top_vals)
    deco = dict(
        ids=draw(st.sampled_from(['int', 'str', 'npint', 'intstr'])),
        keys=draw(st.sampled_from([None, None, dict(id='Subject', time='t [h]', obs='Biom', value='Meas',
                                                    dose='Amt', dur='Dur')])),
        explicit_map=draw(st.booleans()),
        unrelated=draw(st.integers(0, 3)),
        extra_col=draw(st.booleans()),
        nan_rows=draw(st.integers(0, 2)),
        no_dur_col=pk and gen.chance(draw, 0.2),
        order_seed=draw(st.integers(0, 10 ** 6)),
        pop_first=draw(st.booleans()),
        unrelated_first=draw(st.booleans()),
        cov_decoy=draw(st.booleans()))
    if pop is not None and ref.pop_n_cov(pop) > 0 and deco['explicit_map']:
        # set_population_model after set_data resets the data when the default covariate names are
        # not observables of the frame (documented: "Please set the data again")
        deco['pop_first'] = True
    return dict(mech=mech, ems=ems, n_ids=n_ids, indiv=indiv, pop=pop, cov=cov, vec=vec, fixed=fixed, prior=prior,
                deco=deco, probe=draw(st.integers(0, 4)))


def strategy(tier):
    return _spec()


def classify(spec):
    d = spec['deco']
    labs = ['mech:' + spec['mech']['kind'], 'ids:' + d['ids'], 'pop' if spec['pop'] else 'nopop']
    if spec['pop'] and ref.pop_n_cov(spec['pop']) > 0:
        labs.append('cov')
    if any(i['doses'] for i in spec['indiv']):
        labs.append('doses')
    if spec['fixed']:
        labs.append('fixed')
    if d['keys']:
        labs.append('custom_keys')
    if d['explicit_map']:
        labs.append('explicit_map')
        if len(spec['ems']) > 1:
            labs.append('explicit_map:other_order')
    if any(any(s['nan_v']) for i in spec['indiv'] for s in i['series']):
        labs.append('nan_values')
    if any(any(s['nan_t']) for i in spec['indiv'] for s in i['series']):
        labs.append('nan_times')
    for i, ind in enumerate(spec['indiv']):
        if not any(not a and not b for s_ in ind['series'] for a, b in zip(s_['nan_v'], s_['nan_t'])):
            labs.append('unmeasured_individual')
            if spec['pop'] is not None:
                labs.append('unmeasured_individual:hierarchical')
    if spec['pop'] is not None and spec['cov'] is not None and len(spec['cov'][0]) and d['explicit_map'] and d.get('cov_decoy'):
        labs.append('observable_named_like_covariate')
    if d['order_seed'] % 3:
        labs.append('index:not_unique')
    if spec['pop'] is not None and _n_cov_parts(spec['pop']) >= 2:
        labs.append('two_covariate_parts')
    if spec['pop'] is not None and popgen.has(spec['pop'], 'red'):
        labs.append('reduced_part')
    if len(spec['ems']) >= 3:
        labs.append('three_outputs')
    if d['unrelated'] or d['extra_col'] or d['nan_rows']:
        labs.append('unrelated')
    if d['unrelated'] and d.get('unrelated_first'):
        labs.append('unrelated_row_first')
        if not d['explicit_map'] and len(spec['ems']) == 1:
            labs.append('unrelated_row_first:default_map_single_output')
    if len(spec['ems']) > 1:
        labs.append('multi_output')
    if replaced_pop(spec):
        labs.append('pop_model_replaced')
    if reused_controller(spec):
        labs.append('controller_reused')
    if any(i.get('merge') for i in spec['indiv']):
        labs.append('dose_row_with_measurement')
    return labs


def nontrivial(spec):
    if spec['n_ids'] < 2:
        return False
    grids = {tuple(tuple(s['t']) for s in i['series']) for i in spec['indiv']}
    regs = {tuple((d['t'], d['dose'], d['dur']) for d in i['doses']) for i in spec['indiv']}
    return len(grids) > 1 and (len(regs) > 1 or spec['pop'] is not None)


def structure(spec):
    m = spec['mech']
    return [m['kind'], m.get('n_par'), spec['ems'], spec['n_ids'],
            [[len(s['t']) for s in i['series']] + [len(i['doses'])] for i in spec['indiv']],
            popgen.structure(spec['pop']) if spec['pop'] else None,
            sorted(spec['fixed']) if spec['fixed'] else None,
            spec['deco']['ids'], bool(spec['deco']['keys']), spec['deco']['explicit_map']]


# ------------------------------------------------------------------------------------------------
def _ids(spec):
    n, style = spec['n_ids'], spec['deco']['ids']
    if style == 'str':
        return ['pat-%s' % chr(65 + i) for i in range(n)]
    if style == 'npint':
        return [np.int64(7 * (i + 1)) for i in range(n)]
    if style == 'intstr':
        return [str(7 * (i + 1)) for i in range(n)]
    return [7 * (i + 1) for i in range(n)]


def _out_names(spec):
    m = spec['mech']
    return m['outputs'] if m['kind'] == 'pkpd' else ['out %d' % (o + 1) for o in range(m['n_out'])]


def _par_names(spec):
    m = spec['mech']
    if m['kind'] == 'pkpd':
        return sbmlgen.published_parameters(m['ms'], m['admin'])
    return ['psi %d' % (j + 1) for j in range(m['n_par'])]


def _ll_names(spec):
    names = list(_par_names(spec))
    outs = _out_names(spec)
    for o, k in enumerate(spec['ems']):
        for nm in ref.EM_DEFAULT_NAMES[k]:
            names.append(('%s %s' % (outs[o], nm)) if len(outs) > 1 else nm)
    return names


def _observables(spec):
    outs = _out_names(spec)
    if spec['deco']['explicit_map']:
        return {o: 'biomarker %d' % (k + 1) for k, o in enumerate(outs)}
    return {o: o for o in outs}


def build_frame(spec, deco):
    """Long-format data frame from the spec; rows of different series interleaved."""
    import pandas as pd
    K = deco['keys'] or dict(id='ID', time='Time', obs='Observable', value='Value', dose='Dose', dur='Duration')
    ids = _ids(spec)
    outs = _out_names(spec)
    omap = _observables(spec)
    pk = spec['mech']['kind'] == 'pkpd'
    blocks = []
    for i, ind in enumerate(spec['indiv']):
        merge = ind.get('merge')
        for o, s in enumerate(ind['series']):
            rows = []
            for k, (t, v, nv, nt) in enumerate(zip(s['t'], s['v'], s['nan_v'], s['nan_t'])):
                row = {K['id']: ids[i], K['time']: np.nan if nt else t, K['obs']: omap[outs[o]],
                       K['value']: np.nan if nv else v, K['dose']: np.nan, K['dur']: np.nan}
                if merge and o == 0 and k == merge[0]:
                    d = ind['doses'][merge[1]]
                    row[K['dose']] = d['dose']
                    row[K['dur']] = np.nan if d['dur'] is None else d['dur']
                rows.append(row)
            blocks.append(rows)
        if pk:
            rows = []
            for j, d in enumerate(ind['doses']):
                if merge and j == merge[1]:
                    continue
                rows.append({K['id']: ids[i], K['time']: d['t'], K['obs']: np.nan, K['value']: np.nan,
                             K['dose']: d['dose'], K['dur']: np.nan if d['dur'] is None else d['dur']})
            blocks.append(rows)
        if spec['pop'] is not None and spec['cov'] is not None:
            rows = []
            for c in range(len(spec['cov'][i])):
                rows.append({K['id']: ids[i], K['time']: np.nan, K['obs']: _cov_observable(spec, c),
                             K['value']: spec['cov'][i][c], K['dose']: np.nan, K['dur']: np.nan})
            blocks.append(rows)
        if spec['pop'] is not None and spec['cov'] is not None and deco['explicit_map'] and deco.get('cov_decoy'):
            # an unrelated observable that carries the NAME of a model covariate (one value per individual) although
            # the explicit map sends that covariate to another observable
            for c in range(len(spec['cov'][i])):
                blocks.append([{K['id']: ids[i], K['time']: np.nan, K['obs']: 'Cov. %d' % (c + 1),
                                K['value']: 100.0 + 10 * c + i, K['dose']: np.nan, K['dur']: np.nan}])
        for u in range(deco['unrelated']):
            blocks.append([{K['id']: ids[i], K['time']: 0.5 + u, K['obs']: 'unrelated %d' % u, K['value']: 3.0 + u,
                            K['dose']: np.nan, K['dur']: np.nan}])
    for r in range(deco['nan_rows']):
        blocks.append([{K['id']: ids[r % len(ids)], K['time']: np.nan, K['obs']: np.nan, K['value']: np.nan,
                        K['dose']: np.nan, K['dur']: np.nan}])
    # interleave, keeping the order inside each block; the first row stays the first row of
    # individual 0 so that "order of first appearance" is the order of the spec
    rng = np.random.RandomState(deco['order_seed'])
    if deco.get('unrelated_first') and deco['unrelated']:
        # the frame starts with a row of an observable that no output is mapped to
        for k, b in enumerate(blocks):
            if b and str(b[0][K['id']]) == str(ids[0]) and str(b[0][K['obs']]).startswith('unrelated'):
                blocks.insert(0, blocks.pop(k))
                break
    first = None
    for b in blocks:
        if b:
            first = b.pop(0)
            break
    # individuals must first appear in spec order: emit one leading row per individual in order
    lead = []
    seen = {str(first[K['id']])} if first else set()
    for i in range(len(ids)):
        if str(ids[i]) in seen:
            continue
        for b in blocks:
            if b and str(b[0][K['id']]) == str(ids[i]):
                lead.append(b.pop(0))
                seen.add(str(ids[i]))
                break
    rest = []
    live = [b for b in blocks if b]
    while live:
        k = rng.randint(len(live))
        rest.append(live[k].pop(0))
        live = [b for b in live if b]
    rows = ([first] if first else []) + lead + rest
    df = pd.DataFrame(rows, columns=[K['id'], K['time'], K['obs'], K['value'], K['dose'], K['dur']])
    # index labels as they come out of pd.concat([measurements, covariates, doses]) without ignore_index: not unique
    if deco['order_seed'] % 3 == 1:
        df.index = [k % 4 for k in range(len(df))]
    elif deco['order_seed'] % 3 == 2:
        df.index = [0] * len(df)
    if deco['extra_col']:
        df['Comment'] = ['note %d' % k for k in range(len(df))]
    if not pk:
        df = df.drop(columns=[K['dose'], K['dur']])
    elif deco['no_dur_col']:
        df = df.drop(columns=[K['dur']])
    return df, K


def _cov_observable(spec, c):
    return ('covariate obs %d' % (c + 1)) if spec['deco']['explicit_map'] else 'Cov. %d' % (c + 1)


def build_controller(spec, df, K):
    import chi
    m = spec['mech']
    if m['kind'] == 'pkpd':
        M = sbmlgen.build(m['ms'], chi.PKPDModel)
        comp = m['ms']['comps'][m['admin']['comp']]
        M.set_administration(comp['id'], amount_var='%s_amount' % comp['sid'], direct=m['admin']['direct'])
        outputs = list(m['outputs'])
    else:
        M = AnalyticModel(m['n_out'], m['n_par'], _par_names(spec), _out_names(spec))
        outputs = None
    ems = [ref.em_class(k)() for k in spec['ems']]
    ctrl = chi.ProblemModellingController(M, ems, outputs=outputs)
    # the user goes on using THEIR model object: a second controller over the outputs in reverse order is built from it
    # (and the object's outputs stay changed)
    if (outputs is not None and len(outputs) >= 2) or (outputs is None and m['n_out'] >= 2):
        rev = list(reversed(outputs if outputs is not None else M.outputs()))
        chi.ProblemModellingController(M, [ref.em_class(k)() for k in reversed(spec['ems'])], outputs=rev)
        M.set_outputs(rev)
    pm = None
    if spec['pop'] is not None:
        pm = ref.build_pop(spec['pop'], None, None if not popgen.has(spec['pop'], 'hetero') else spec['n_ids'])
        cparts = _cov_parts(pm)
        if len(cparts) >= 2:
            # several covariate sub-models: the user names their covariates so that every name occurs once (the
            # columns of the covariate matrix follow the order of the sub-models)
            off = 0
            for q in cparts:
                k = q.n_covariates()
                q.set_covariate_names(['Cov. %d' % (off + c + 1) for c in range(k)])
                off += k
    omap = _observables(spec) if spec['deco']['explicit_map'] else None
    if omap is not None and len(omap) >= 2:
        # a dictionary has no meaningful order: its keys are listed in another order than the model's outputs
        import random
        items = list(omap.items())
        random.Random(spec['deco']['order_seed'] + 1).shuffle(items)
        if [k for k, _ in items] == list(omap):
            items = items[1:] + items[:1]
        omap = dict(items)
    cmap = None
    if spec['pop'] is not None and ref.pop_n_cov(spec['pop']) > 0 and spec['deco']['explicit_map']:
        cmap = {'Cov. %d' % (c + 1): _cov_observable(spec, c) for c in range(ref.pop_n_cov(spec['pop']))}
    kw = dict(output_observable_dict=omap, covariate_dict=cmap, id_key=K['id'], time_key=K['time'],
              obs_key=K['obs'], value_key=K['value'])
    if m['kind'] == 'pkpd':
        kw['dose_key'] = K['dose']
        kw['dose_duration_key'] = None if spec['deco']['no_dur_col'] else K['dur']
    if pm is not None and spec['deco']['pop_first']:
        ctrl.set_population_model(pm)
    if reused_controller(spec):
        # the controller was used before with another dataset of the same individuals that contained dose rows;
        # the dataset of the spec has no dosing information at all (no dose columns)
        import pints
        import pandas as pd
        first = df.iloc[0]
        extra = {K['id']: first[K['id']], K['time']: 0.1, K['obs']: np.nan, K['value']: np.nan, K['dose']: 3.0}
        if K['dur'] in df.columns:
            extra[K['dur']] = 0.5
        decoy_df = pd.concat([df, pd.DataFrame([extra])], ignore_index=True)
        ctrl.set_data(decoy_df, **kw)
        ctrl.set_log_prior(pints.ComposedLogPrior(*[pints.GaussianLogPrior(1.0, 10.0)
                                                    for _ in range(ctrl.get_n_parameters())]))
        ctrl.get_log_posterior()
        df = df.drop(columns=[c for c in (K['dose'], K['dur']) if c in df.columns])
        kw = dict(kw, dose_key=None, dose_duration_key=None)
    ctrl.set_data(df, **kw)
    if pm is not None and replaced_pop(spec):
        # another population model was tried first on the same data (its covariates are the same observables in
        # another order) and a posterior was built; then the model of the spec is set
        import copy
        import pints
        decoy = copy.deepcopy(pm)
        parts = _cov_parts(decoy)
        names = list(reversed([n for q in parts for n in q.get_covariate_names()]))
        for q in parts:
            k = len(q.get_covariate_names())
            q.set_covariate_names(names[:k])
            names = names[k:]
        if list(decoy.get_covariate_names()) == list(pm.get_covariate_names()):
            raise AssertionError('C14 harness: the decoy population model has the covariates of the real one')
        ctrl.set_population_model(decoy)
        ctrl.set_log_prior(pints.ComposedLogPrior(*[pints.GaussianLogPrior(1.0, 10.0)
                                                    for _ in range(ctrl.get_n_parameters())]))
        ctrl.get_log_posterior()
        ctrl.set_population_model(pm)
    elif pm is not None and not spec['deco']['pop_first']:
        ctrl.set_population_model(pm)
    return ctrl


def _n_cov_parts(pop):
    k = pop['kind']
    if k == 'cov':
        return 1
    if k == 'red':
        return _n_cov_parts(pop['base'])
    if k == 'comp':
        return sum(_n_cov_parts(q) for q in pop['parts'])
    return 0


def _cov_parts(m):
    """The CovariatePopulationModel instances inside a (composed / reduced) population model, in order."""
    import chi
    if isinstance(m, chi.CovariatePopulationModel):
        return [m]
    if isinstance(m, chi.ReducedPopulationModel):
        return _cov_parts(m.get_population_model())
    if isinstance(m, chi.ComposedPopulationModel):
        out = []
        for q in m.get_population_models():
            out += _cov_parts(q)
        return out
    return []


def reused_controller(spec):
    return spec['mech']['kind'] == 'pkpd' and spec['pop'] is None and spec['deco']['order_seed'] % 3 != 0 and \
        all(not i['doses'] for i in spec['indiv'])


def replaced_pop(spec):
    return spec['pop'] is not None and ref.pop_n_cov(spec['pop']) >= 2 and not spec['deco']['explicit_map'] \
        and spec['deco']['order_seed'] % 2 == 0


def events_of(spec, i, t_end):
    ev = []
    for d in spec['indiv'][i]['doses']:
        dur = 0.01 if (d['dur'] is None or spec['deco']['no_dur_col']) else d['dur']
        if d['t'] <= t_end:
            ev.append((d['t'], dur, d['dose'] / dur))
    return ev


def ref_ll_individual(spec, i, params):
    """Reference log-likelihood of individual i at its full parameter vector (complex-safe)."""
    m = spec['mech']
    params = np.asarray(params)
    psi = params[:m['n_par']]
    pos = m['n_par']
    tot = 0.0
    for o, k in enumerate(spec['ems']):
        s = spec['indiv'][i]['series'][o]
        keep = [j for j in range(len(s['t'])) if not s['nan_v'][j] and not s['nan_t'][j]]
        sig = params[pos:pos + ref.EM_NPAR[k]]
        pos += ref.EM_NPAR[k]
        if not keep:
            continue
        t = np.array([s['t'][j] for j in keep], dtype=float)
        y = np.array([s['v'][j] for j in keep], dtype=float)
        if m['kind'] == 'pkpd':
            ybar = sbmlgen.ref_simulate(m['ms'], psi, t, [m['outputs'][o]], m['admin'],
                                        events_of(spec, i, float(t.max()) + 1.0))[0]
        else:
            ybar = ref_outputs(psi, t, m['n_out'], [o])[0]
        tot = tot + ref.em_loglik(k, sig, ybar, y)
    return tot


def check(case):
    import chi
    from vf import simshim
    simshim.install()
    s = case.spec
    deco = s['deco']
    ids = [str(i) for i in _ids(s)]
    n_ids = s['n_ids']
    pop = s['pop']
    ll_names = _ll_names(s)
    n_ll = len(ll_names)
    vec = np.array(s['vec'], dtype=float)
    fixed = {int(k): v for k, v in (s['fixed'] or {}).items()}
    cov = None if (pop is None or s['cov'] is None) else np.array(s['cov'], dtype=float)

    with case.clause('construct'):
        df, K = build_frame(s, deco)
        before = df.copy(deep=True)
        ctrl = build_controller(s, df, K)
    if case.fails:
        return

    if pop is None:
        top_names = list(ll_names)
        nb = 0
    else:
        nb, nt, hd = ref.hier_layout(pop, n_ids)
        n_cov_parts = _n_cov_parts(pop)
        top_names = ref.pop_names(pop, n_ids, ll_names,
                                  ['Cov. %d' % (c + 1) for c in range(ref.pop_n_cov(pop))] if n_cov_parts >= 2 else None)
    n_top = len(top_names)

    with case.clause('names_before_fixing'):
        case.equal(ctrl.get_parameter_names(), top_names, 'get_parameter_names()')
        case.equal(ctrl.get_n_parameters(), n_top, 'get_n_parameters()')
        case.equal(ctrl.get_parameter_names(exclude_pop_model=True), ll_names, 'bottom-level names')

    if fixed:
        with case.clause('fix'):
            ctrl.fix_parameters({top_names[i]: float(v) for i, v in fixed.items()})
            free_names = [n for i, n in enumerate(top_names) if i not in fixed]
            case.equal(ctrl.get_parameter_names(), free_names, 'names after fixing')
            case.equal(ctrl.get_n_parameters(), len(free_names), 'count after fixing')
        if 'fix' not in case.checked:
            return
    free_top = [i for i in range(n_top) if i not in fixed]

    with case.clause('prior'):
        ctrl.set_log_prior(llbuild.build_prior(s['prior']))
    if 'prior' not in case.checked:
        return

    top_full = vec[len(vec) - n_top:]

    def ref_post(v_free):
        """v_free: [bottom entries, free top entries] -> reference posterior."""
        v_free = np.asarray(v_free)
        bottom = v_free[:nb]
        top = np.array(top_full, dtype=v_free.dtype)
        for k, i in enumerate(free_top):
            top[i] = v_free[nb + k]
        lp = llbuild.ref_prior(s['prior'], v_free[nb:])
        if pop is None:
            return lp, top
        full = np.concatenate([bottom, top])
        x, theta = ref.hier_split(pop, n_ids, full, cov)
        psi = ref.pop_indiv(pop, n_ids, theta, x, cov)
        tot = lp + ref.pop_loglik(pop, n_ids, theta, x, cov)
        for i in range(n_ids):
            tot = tot + ref_ll_individual(s, i, psi[i])
        return tot, top

    v_free = np.concatenate([vec[:nb], top_full[free_top]])

    if pop is None:
        with case.clause('posterior_individuals'):
            lp, top = ref_post(v_free)
            for i in range(n_ids):
                P = ctrl.get_log_posterior(individual=ids[i])
                case.true(isinstance(P, chi.LogPosterior), 'individual posterior has type %s' % type(P).__name__)
                want = float(np.real(lp + ref_ll_individual(s, i, top)))
                case.close(P(v_free.copy()), want if np.isfinite(np.real(lp)) else -np.inf, rtol=1e-6, atol=1e-8,
                           what='log-posterior of individual %s' % ids[i])
                case.equal(P.get_id(), ids[i], 'posterior id')
                case.equal(P.get_parameter_names(), [top_names[k] for k in free_top], 'posterior parameter names')
            P0 = ctrl.get_log_posterior()
            want0 = float(np.real(lp + ref_ll_individual(s, 0, top)))
            case.close(P0(v_free.copy()), want0 if np.isfinite(np.real(lp)) else -np.inf, rtol=1e-6, atol=1e-8,
                       what='default (first individual) log-posterior')
        if 'posterior_individuals' in case.checked:
            with case.clause('gradient'):
                i = s['probe'] % n_ids
                P = ctrl.get_log_posterior(individual=ids[i])
                sc, g = P.evaluateS1(v_free.copy())

                def f(v):
                    lp_, top_ = ref_post(v)
                    return lp_ + ref_ll_individual(s, i, top_)
                if np.isfinite(np.real(f(v_free))):
                    gw = ref.cgrad(f, v_free)
                    pk_ = s['mech']['kind'] == 'pkpd'
                    case.close(g, gw, rtol=1e-5 if pk_ else 1e-6,
                               atol=(1e-7 * float(np.max(np.abs(gw))) + 1e-8) if pk_ else 1e-8,
                               what='gradient of the individual posterior')
                    # the posterior handed out keeps scoring the same data and regimen after a gradient evaluation
                    case.close(sc, float(np.real(f(v_free))), rtol=1e-6, atol=1e-8,
                               what='score returned with the gradient of the individual posterior')
                    case.close(P(v_free.copy()), float(np.real(f(v_free))), rtol=1e-6, atol=1e-8,
                               what='log-posterior of individual %s evaluated AFTER its gradient' % ids[i])
    else:
        with case.clause('posterior_hierarchical'):
            P = ctrl.get_log_posterior()
            case.true(isinstance(P, chi.HierarchicalLogPosterior), 'posterior has type %s' % type(P).__name__)
            want = float(np.real(ref_post(v_free)[0]))
            lp = float(np.real(llbuild.ref_prior(s['prior'], v_free[nb:])))
            case.equal(P.n_parameters(), len(v_free), 'n_parameters of the hierarchical posterior')
            case.close(P(v_free.copy()), want if np.isfinite(lp) else -np.inf, rtol=1e-6, atol=1e-8,
                       what='hierarchical log-posterior')
            hd = ref.hier_layout(pop, n_ids)[2]
            want_ids = [ids[i] for i in range(n_ids) for _ in hd] + [None] * len(free_top)
            case.equal(P.get_id(), want_ids, 'ids of the hierarchical posterior')
            case.equal(P.get_id(unique=True), ids, 'unique ids (order of first appearance)')
            want_names = [ll_names[d] for _ in range(n_ids) for d in hd] + [top_names[k] for k in free_top]
            case.equal(P.get_parameter_names(), want_names, 'names of the hierarchical posterior')
        if 'posterior_hierarchical' in case.checked:
            with case.clause('gradient'):
                P = ctrl.get_log_posterior()
                if np.isfinite(np.real(ref_post(v_free)[0])):
                    sc, g = P.evaluateS1(v_free.copy())
                    gw = ref.cgrad(lambda v: ref_post(v)[0], v_free)
                    pk_ = s['mech']['kind'] == 'pkpd'
                    case.close(g, gw, rtol=1e-5 if pk_ else 1e-6,
                               atol=(1e-7 * float(np.max(np.abs(gw))) + 1e-8) if pk_ else 1e-8,
                               what='gradient of the hierarchical posterior')
                    want_ = float(np.real(ref_post(v_free)[0]))
                    case.close(sc, want_, rtol=1e-6, atol=1e-8, what='score returned with the gradient of the hierarchical '
                               'posterior')
                    case.close(P(v_free.copy()), want_, rtol=1e-6, atol=1e-8,
                               what='hierarchical log-posterior evaluated AFTER its gradient')

    if s['mech']['kind'] == 'pkpd':
        with case.clause('dosing_regimens'):
            regs = ctrl.get_dosing_regimens()
            if reused_controller(s):
                # the dataset in use has no dosing information: nothing of the earlier dataset is reported
                case.true(not regs, 'get_dosing_regimens() reports %r for a dataset without dose columns' % (regs,))
                regs = {i: type('P', (), {'events': lambda self: []})() for i in ids}
            case.equal(sorted(regs.keys()), sorted(ids), 'keys of get_dosing_regimens()')
            for i in range(n_ids):
                got = sorted((e.start(), e.duration(), e.level()) for e in regs[ids[i]].events())
                want = sorted(events_of(s, i, np.inf))
                case.equal(len(got), len(want), 'number of dose events of %s' % ids[i])
                case.close(np.array(got).reshape(-1, 3), np.array(want).reshape(-1, 3), rtol=1e-12,
                           what='dose events of %s' % ids[i])

    with case.clause('predictive_model'):
        pm = ctrl.get_predictive_model()
        case.equal(pm.get_parameter_names(), [top_names[k] for k in free_top] if pop is not None else
                   [n for i, n in enumerate(ll_names) if i not in fixed], 'predictive model parameter names')
        case.true(isinstance(pm, chi.PopulationPredictiveModel) == (pop is not None),
                  'predictive model type %s' % type(pm).__name__)

    with case.clause('input_unchanged'):
        case.true(df.equals(before) and list(df.columns) == list(before.columns)
                  and all(a == b for a, b in zip(df.dtypes, before.dtypes)), "the caller's data frame was modified")

    # ---- metamorphic: decoration does not matter ---------------------------------------------
    with case.clause('decoration_invariance'):
        deco2 = dict(deco, ids={'int': 'intstr', 'npint': 'int', 'intstr': 'npint', 'str': 'str'}[deco['ids']],
                     unrelated=(deco['unrelated'] + 2) % 4, extra_col=not deco['extra_col'],
                     nan_rows=(deco['nan_rows'] + 1) % 3, order_seed=deco['order_seed'] + 17)
        df2, K2 = build_frame(s, deco2)
        ctrl2 = build_controller(dict(s, deco=deco2), df2, K2)
        if fixed:
            ctrl2.fix_parameters({top_names[i]: float(v) for i, v in fixed.items()})
        ctrl2.set_log_prior(llbuild.build_prior(s['prior']))
        if pop is None:
            for i in range(n_ids):
                a = ctrl.get_log_posterior(individual=ids[i])(v_free.copy())
                b = ctrl2.get_log_posterior(individual=ids[i])(v_free.copy())
                case.close(b, a, rtol=1e-9, what='posterior of %s with other unrelated rows/columns/row order' % ids[i])
        else:
            a = ctrl.get_log_posterior()(v_free.copy())
            b = ctrl2.get_log_posterior()(v_free.copy())
            case.close(b, a, rtol=1e-9, what='hierarchical posterior with other unrelated rows/columns/row order')


RULE += (' Classes and clauses added in later rounds of the seeded-change protocol (DESIGN 9.4) are named in REQUIRED '
         'and in seeded/HISTORY.json; the evidence counts every one of them under classes.')
