"""Reference model, written from chi's *docstring formulas*, sharing no code with chi.

All functions are complex-safe (so exact derivatives are available by the
complex-step method) and deliberately loop-based / explicit.
"""
import cmath
import math

import numpy as np
from scipy import special

LOG2PI = math.log(2.0 * math.pi)

# --------------------------------------------------------------------------
# complex-step helper
# --------------------------------------------------------------------------
H = 1e-30


def cgrad(f, x):
    """Exact gradient of analytic scalar function f at real vector x by the
    complex-step method."""
    x = np.asarray(x, dtype=float)
    g = np.empty(len(x))
    for k in range(len(x)):
        z = x.astype(complex)
        z[k] += 1j * H
        g[k] = np.imag(f(z)) / H
    return g


def clog(z):
    return np.log(z)


# --------------------------------------------------------------------------
# error models:   kinds 'gauss', 'mult', 'cm', 'lognorm'
# --------------------------------------------------------------------------
EM_NPAR = {'gauss': 1, 'mult': 1, 'cm': 2, 'lognorm': 1}
EM_DEFAULT_NAMES = {
    'gauss': ['Sigma'], 'mult': ['Sigma rel.'],
    'cm': ['Sigma base', 'Sigma rel.'], 'lognorm': ['Sigma log']}


def em_class(kind):
    import chi
    return {
        'gauss': chi.GaussianErrorModel,
        'mult': chi.MultiplicativeGaussianErrorModel,
        'cm': chi.ConstantAndMultiplicativeGaussianErrorModel,
        'lognorm': chi.LogNormalErrorModel}[kind]


def em_in_support(kind, sig, ybar):
    sig = np.real(np.asarray(sig))
    if np.any(sig <= 0):
        return False
    if kind == 'lognorm' and np.any(np.real(np.asarray(ybar)) <= 0):
        return False
    return True


def em_pointwise(kind, sig, ybar, y):
    """Documented log-density of each observation y_j given output ybar_j.
    Returns a vector (complex-safe). -inf outside the documented support."""
    ybar = np.asarray(ybar)
    y = np.asarray(y)
    n = len(y)
    if not em_in_support(kind, sig, ybar):
        return np.full(n, -np.inf)
    out = []
    for j in range(n):
        if kind == 'gauss':
            s = sig[0]
            lp = -0.5 * LOG2PI - np.log(s) - (y[j] - ybar[j]) ** 2 / (2 * s ** 2)
        elif kind == 'mult':
            s = sig[0] * ybar[j]
            lp = -0.5 * LOG2PI - np.log(s) - (y[j] - ybar[j]) ** 2 / (2 * s ** 2)
        elif kind == 'cm':
            s = sig[0] + sig[1] * ybar[j]
            lp = -0.5 * LOG2PI - np.log(s) - (y[j] - ybar[j]) ** 2 / (2 * s ** 2)
        elif kind == 'lognorm':
            s = sig[0]
            mu = np.log(ybar[j]) - s ** 2 / 2
            lp = -0.5 * LOG2PI - np.log(s) - np.log(y[j]) \
                - (np.log(y[j]) - mu) ** 2 / (2 * s ** 2)
        else:
            raise ValueError(kind)
        out.append(lp)
    return np.array(out)


def em_loglik(kind, sig, ybar, y):
    pw = em_pointwise(kind, sig, ybar, y)
    tot = 0.0
    for v in pw:
        tot = tot + v
    return tot


def em_cdf(kind, sig, ybar, y):
    """Reference CDF of one observation (real arithmetic), for PIT tests."""
    from scipy import stats
    if kind == 'gauss':
        return stats.norm.cdf(y, loc=ybar, scale=sig[0])
    if kind == 'mult':
        return stats.norm.cdf(y, loc=ybar, scale=sig[0] * ybar)
    if kind == 'cm':
        return stats.norm.cdf(y, loc=ybar, scale=sig[0] + sig[1] * ybar)
    if kind == 'lognorm':
        return stats.lognorm.cdf(y, s=sig[0], scale=np.exp(np.log(ybar) - sig[0] ** 2 / 2))
    raise ValueError(kind)


def em_mean_std(kind, sig, ybar):
    if kind == 'gauss':
        return ybar, sig[0] + 0 * ybar
    if kind == 'mult':
        return ybar, sig[0] * ybar
    if kind == 'cm':
        return ybar, sig[0] + sig[1] * ybar
    if kind == 'lognorm':
        s = sig[0]
        return ybar, ybar * np.sqrt(np.exp(s ** 2) - 1)
    raise ValueError(kind)
