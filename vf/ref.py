"""Reference model, written from chi's *docstring formulas*, sharing no code with chi.

All functions are complex-safe (so exact derivatives are available by the
complex-step method) and deliberately loop-based / explicit.
"""
import cmath
import math

import numpy as np
from scipy import special

LOG2PI = math.log(2.0 * math.pi)

# --------------------------------------------------------------------------
# complex-step helper
# --------------------------------------------------------------------------
H = 1e-30


def cgrad(f, x):
    """Exact gradient of analytic scalar function f at real vector x by the
    complex-step method."""
    x = np.asarray(x, dtype=float)
    g = np.empty(len(x))
    for k in range(len(x)):
        z = x.astype(complex)
        z[k] += 1j * H
        g[k] = np.imag(f(z)) / H
    return g


def clog(z):
    return np.log(z)


# --------------------------------------------------------------------------
# error models:   kinds 'gauss', 'mult', 'cm', 'lognorm'
# --------------------------------------------------------------------------
EM_NPAR = {'gauss': 1, 'mult': 1, 'cm': 2, 'lognorm': 1, 'user3': 3}
EM_DEFAULT_NAMES = {
    'gauss': ['Sigma'], 'mult': ['Sigma rel.'],
    'cm': ['Sigma base', 'Sigma rel.'], 'lognorm': ['Sigma log'], 'user3': ['Sigma base', 'Sigma rel.', 'Power']}


def em_class(kind):
    import chi
    if kind == 'user3':
        # a user-defined error model with three parameters (vf/user_em.py); only offered where a check asks for it
        from vf.user_em import PowerGaussianErrorModel
        return PowerGaussianErrorModel
    return {
        'gauss': chi.GaussianErrorModel,
        'mult': chi.MultiplicativeGaussianErrorModel,
        'cm': chi.ConstantAndMultiplicativeGaussianErrorModel,
        'lognorm': chi.LogNormalErrorModel}[kind]


def em_in_support(kind, sig, ybar):
    sig = np.real(np.asarray(sig))
    if np.any(sig <= 0):
        return False
    if kind == 'lognorm' and np.any(np.real(np.asarray(ybar)) <= 0):
        return False
    return True


def em_pointwise(kind, sig, ybar, y):
    """Documented log-density of each observation y_j given output ybar_j.
    Returns a vector (complex-safe). -inf outside the documented support."""
    ybar = np.asarray(ybar)
    y = np.asarray(y)
    n = len(y)
    if not em_in_support(kind, sig, ybar):
        return np.full(n, -np.inf)
    out = []
    for j in range(n):
        if kind == 'gauss':
            s = sig[0]
            lp = -0.5 * LOG2PI - np.log(s) - (y[j] - ybar[j]) ** 2 / (2 * s ** 2)
        elif kind == 'mult':
            s = sig[0] * ybar[j]
            lp = -0.5 * LOG2PI - np.log(s) - (y[j] - ybar[j]) ** 2 / (2 * s ** 2)
        elif kind == 'cm':
            s = sig[0] + sig[1] * ybar[j]
            lp = -0.5 * LOG2PI - np.log(s) - (y[j] - ybar[j]) ** 2 / (2 * s ** 2)
        elif kind == 'lognorm':
            s = sig[0]
            mu = np.log(ybar[j]) - s ** 2 / 2
            lp = -0.5 * LOG2PI - np.log(s) - np.log(y[j]) \
                - (np.log(y[j]) - mu) ** 2 / (2 * s ** 2)
        else:
            raise ValueError(kind)
        out.append(lp)
    return np.array(out)


def em_pointwise_vec(kind, sig, ybar, y):
    """Vectorised form of em_pointwise (same docstring formulas) for long observation vectors;
    complex-safe. The terms are separable in ybar, so a simultaneous complex step on every
    ybar_j gives d/d ybar_j of the sum in one evaluation."""
    ybar = np.asarray(ybar)
    y = np.asarray(y)
    if not em_in_support(kind, sig, ybar):
        return np.full(len(y), -np.inf)
    if kind == 'gauss':
        s = sig[0] + 0 * ybar
    elif kind == 'mult':
        s = sig[0] * ybar
    elif kind == 'cm':
        s = sig[0] + sig[1] * ybar
    elif kind == 'lognorm':
        s = sig[0]
        mu = np.log(ybar) - s ** 2 / 2
        return -0.5 * LOG2PI - np.log(s) - np.log(y) - (np.log(y) - mu) ** 2 / (2 * s ** 2)
    else:
        raise ValueError(kind)
    return -0.5 * LOG2PI - np.log(s) - (y - ybar) ** 2 / (2 * s ** 2)


def em_loglik(kind, sig, ybar, y):
    pw = em_pointwise(kind, sig, ybar, y)
    tot = 0.0
    for v in pw:
        tot = tot + v
    return tot


def em_cdf(kind, sig, ybar, y):
    """Reference CDF of one observation (real arithmetic), for PIT tests."""
    from scipy import stats
    if kind == 'gauss':
        return stats.norm.cdf(y, loc=ybar, scale=sig[0])
    if kind == 'mult':
        return stats.norm.cdf(y, loc=ybar, scale=sig[0] * ybar)
    if kind == 'cm':
        return stats.norm.cdf(y, loc=ybar, scale=sig[0] + sig[1] * ybar)
    if kind == 'lognorm':
        return stats.lognorm.cdf(y, s=sig[0], scale=np.exp(np.log(ybar) - sig[0] ** 2 / 2))
    raise ValueError(kind)


def em_mean_std(kind, sig, ybar):
    if kind == 'gauss':
        return ybar, sig[0] + 0 * ybar
    if kind == 'mult':
        return ybar, sig[0] * ybar
    if kind == 'cm':
        return ybar, sig[0] + sig[1] * ybar
    if kind == 'lognorm':
        s = sig[0]
        return ybar, ybar * np.sqrt(np.exp(s ** 2) - 1)
    raise ValueError(kind)


# --------------------------------------------------------------------------
# population models
#
# spec kinds:
#   {'kind': 'gauss'|'lognorm', 'n_dim': d, 'centered': bool}
#   {'kind': 'trunc'|'pooled'|'hetero', 'n_dim': d}
#   {'kind': 'cov', 'base': <elementary>, 'n_cov': c, 'sel': None | [[p, d], ...]}
#   {'kind': 'comp', 'parts': [...]}
#   {'kind': 'red', 'base': <any>, 'fixed': [indices into base parameters], 'values': [...]}
#
# Flat parameter layout of an elementary model (docstrings): parameter-major,
# i.e. reshape(n_param_per_dim, n_dim): [p0 d0, p0 d1, ..., p1 d0, ...].
# Heterogeneous: (n_ids, n_dim) flattened.  Covariate model: base parameters,
# then beta[s, c] for the selected pairs s (sorted unique by (p, d)), covariate-minor.
# --------------------------------------------------------------------------
ELEM = ('gauss', 'lognorm', 'trunc', 'pooled', 'hetero')
BASE_NAMES = {
    'gauss': ['Mean', 'Std.'], 'lognorm': ['Log mean', 'Log std.'],
    'trunc': ['Mu', 'Sigma'], 'pooled': ['Pooled']}


def _phi_cdf(z):
    return 0.5 * (1.0 + special.erf(z / math.sqrt(2.0)))


def pop_n_dim(spec):
    k = spec['kind']
    if k in ELEM:
        return spec['n_dim']
    if k in ('cov', 'red'):
        return pop_n_dim(spec['base'])
    return sum(pop_n_dim(p) for p in spec['parts'])


def pop_n_cov(spec):
    k = spec['kind']
    if k in ELEM:
        return 0
    if k == 'cov':
        return spec['n_cov']
    if k == 'red':
        return pop_n_cov(spec['base'])
    return sum(pop_n_cov(p) for p in spec['parts'])


def pop_per_dim(spec, n_ids):
    k = spec['kind']
    if k in ('gauss', 'lognorm', 'trunc'):
        return 2
    if k == 'pooled':
        return 1
    if k == 'hetero':
        return n_ids
    raise ValueError(k)


def cov_selection(spec, n_ids):
    """Sorted unique selected (p, d) pairs of a covariate model."""
    base = spec['base']
    if spec.get('sel') is None:
        npd = pop_per_dim(base, n_ids)
        return [(p, d) for p in range(npd) for d in range(base['n_dim'])]
    return sorted({(int(p), int(d)) for p, d in spec['sel']})


def pop_n_par(spec, n_ids):
    """Number of (free) population parameters."""
    k = spec['kind']
    if k in ELEM:
        return pop_per_dim(spec, n_ids) * spec['n_dim']
    if k == 'cov':
        return pop_n_par(spec['base'], n_ids) + len(cov_selection(spec, n_ids)) * spec['n_cov']
    if k == 'red':
        return pop_n_par(spec['base'], n_ids) - len(spec['fixed'])
    return sum(pop_n_par(p, n_ids) for p in spec['parts'])


def pop_special(spec):
    """Per dimension: 'pooled', 'hetero' or None (dimension has bottom-level entries)."""
    k = spec['kind']
    if k in ELEM:
        return [k if k in ('pooled', 'hetero') else None] * spec['n_dim']
    if k in ('cov', 'red'):
        return pop_special(spec['base'])
    out = []
    for p in spec['parts']:
        out += pop_special(p)
    return out


def pop_noncentered(spec):
    k = spec['kind']
    if k in ELEM:
        return [k in ('gauss', 'lognorm') and not spec.get('centered', True)] * spec['n_dim']
    if k in ('cov', 'red'):
        return pop_noncentered(spec['base'])
    out = []
    for p in spec['parts']:
        out += pop_noncentered(p)
    return out


def pop_full_theta(spec, theta):
    """Expand free parameters of reduced wrappers (recursively) -- returns the
    parameter vector of the spec with every 'red' node replaced by its base."""
    return theta  # expansion is done node-locally in _walk


def _expand_red(spec, theta, n_ids):
    n_full = pop_n_par(spec['base'], n_ids)
    full = np.empty(n_full, dtype=complex if np.iscomplexobj(theta) else float)
    fixed = list(spec['fixed'])
    free = [j for j in range(n_full) if j not in fixed]
    for j, v in zip(fixed, spec['values']):
        full[j] = v
    for j, v in zip(free, theta):
        full[j] = v
    return full


def _elem_theta_matrix(spec, theta, n_ids):
    npd = pop_per_dim(spec, n_ids)
    return np.asarray(theta).reshape(npd, spec['n_dim'])


def _vartheta(spec, theta, n_ids, cov_i):
    """Covariate model: parameters of the sub-population of one individual."""
    base = spec['base']
    n_base = pop_n_par(base, n_ids)
    P = np.array(_elem_theta_matrix(base, theta[:n_base], n_ids),
                 dtype=complex if (np.iscomplexobj(theta) or np.iscomplexobj(cov_i)) else float)
    sel = cov_selection(spec, n_ids)
    beta = np.asarray(theta[n_base:]).reshape(len(sel), spec['n_cov'])
    for s, (p, d) in enumerate(sel):
        for c in range(spec['n_cov']):
            P[p, d] = P[p, d] + beta[s, c] * cov_i[c]
    return P


def _same(a, b):
    """Point-mass membership up to rounding of the covariate shift (1e-12 relative)."""
    a, b = float(np.real(a)), float(np.real(b))
    return abs(a - b) <= 1e-12 * max(1.0, abs(a), abs(b))


def _elem_logpdf(spec, P, xi, i):
    """Documented log-density of one individual's values xi (n_dim,) given the
    parameter matrix P (n_per_dim, n_dim)."""
    k = spec['kind']
    tot = 0.0
    for d in range(spec['n_dim']):
        x = xi[d]
        if k in ('gauss', 'lognorm') and not spec.get('centered', True):
            tot = tot - 0.5 * LOG2PI - x ** 2 / 2
        elif k == 'gauss':
            mu, s = P[0, d], P[1, d]
            if np.real(s) < 0:
                return -np.inf
            tot = tot - 0.5 * LOG2PI - np.log(s) - (x - mu) ** 2 / (2 * s ** 2)
        elif k == 'lognorm':
            mu, s = P[0, d], P[1, d]
            if np.real(s) < 0 or np.real(x) <= 0:
                return -np.inf
            tot = tot - 0.5 * LOG2PI - np.log(s) - np.log(x) - (np.log(x) - mu) ** 2 / (2 * s ** 2)
        elif k == 'trunc':
            mu, s = P[0, d], P[1, d]
            if np.real(s) <= 0 or np.real(x) < 0:
                return -np.inf
            # log(1 - Phi(-mu/s)) = log Phi(mu/s), evaluated tail-safe (complex-safe as well)
            tot = tot - 0.5 * LOG2PI - np.log(s) - (x - mu) ** 2 / (2 * s ** 2) \
                - special.log_ndtr(mu / s)
        elif k == 'pooled':
            if not _same(x, P[0, d]):
                return -np.inf
        elif k == 'hetero':
            if not _same(x, P[i, d]):
                return -np.inf
    return tot


def _elem_indiv(spec, P, xi, i):
    k = spec['kind']
    out = []
    for d in range(spec['n_dim']):
        if k == 'gauss' and not spec.get('centered', True):
            out.append(P[0, d] + P[1, d] * xi[d])
        elif k == 'lognorm' and not spec.get('centered', True):
            out.append(np.exp(P[0, d] + P[1, d] * xi[d]))
        elif k == 'pooled':
            out.append(P[0, d])
        elif k == 'hetero':
            out.append(P[i, d])
        else:
            out.append(xi[d])
    return out


def _walk(spec, n_ids, theta, x, cov, fn):
    """Apply fn(elem_spec, P_i, x_i(dims of the elem), i) for every individual and
    every elementary leaf; returns list over leaves of list over individuals."""
    k = spec['kind']
    if k == 'comp':
        out = []
        t0 = d0 = c0 = 0
        for part in spec['parts']:
            nt, nd, nc = pop_n_par(part, n_ids), pop_n_dim(part), pop_n_cov(part)
            out += _walk(part, n_ids, theta[t0:t0 + nt], x[:, d0:d0 + nd],
                         None if cov is None else cov[:, c0:c0 + nc], fn)
            t0, d0, c0 = t0 + nt, d0 + nd, c0 + nc
        return out
    if k == 'red':
        return _walk(spec['base'], n_ids, _expand_red(spec, theta, n_ids), x, cov, fn)
    if k == 'cov':
        res = []
        for i in range(n_ids):
            P = _vartheta(spec, theta, n_ids, cov[i])
            res.append(fn(spec['base'], P, x[i], i))
        return [res]
    P = _elem_theta_matrix(spec, theta, n_ids)
    return [[fn(spec, P, x[i], i) for i in range(n_ids)]]


def pop_loglik(spec, n_ids, theta, x, cov=None):
    """Sum over individuals and dimensions of the documented log-density."""
    x = np.asarray(x)
    tot = 0.0
    for leaf in _walk(spec, n_ids, np.asarray(theta), x, cov, _elem_logpdf):
        for v in leaf:
            tot = tot + v
    return tot


def pop_indiv(spec, n_ids, theta, x, cov=None):
    """psi (n_ids, n_dim) from (theta, eta/psi matrix x)."""
    x = np.asarray(x)
    leaves = _walk(spec, n_ids, np.asarray(theta), x, cov, _elem_indiv)
    rows = []
    for i in range(n_ids):
        r = []
        for leaf in leaves:
            r += list(leaf[i])
        rows.append(r)
    return np.array(rows)


def pop_names(spec, n_ids, dim_names, cov_names=None):
    """Default parameter names (with dimension names) in parameter order."""
    k = spec['kind']
    if k in ELEM:
        if k == 'hetero':
            base = ['ID %d' % (i + 1) for i in range(n_ids)]
        else:
            base = BASE_NAMES[k]
        return ['%s %s' % (b, dn) for b in base for dn in dim_names]
    if k == 'cov':
        base = spec['base']
        bn = pop_names(base, n_ids, dim_names)
        nd = base['n_dim']
        if cov_names is None:
            cov_names = ['Cov. %d' % (c + 1) for c in range(spec['n_cov'])]
        out = list(bn)
        for (p, d) in cov_selection(spec, n_ids):
            for c in range(spec['n_cov']):
                out.append('%s %s' % (bn[p * nd + d], cov_names[c]))
        return out
    if k == 'red':
        full = pop_names(spec['base'], n_ids, dim_names, cov_names)
        return [n for j, n in enumerate(full) if j not in spec['fixed']]
    out = []
    d0 = c0 = 0
    for part in spec['parts']:
        nd, nc = pop_n_dim(part), pop_n_cov(part)
        out += pop_names(part, n_ids, dim_names[d0:d0 + nd],
                         None if cov_names is None else cov_names[c0:c0 + nc])
        d0, c0 = d0 + nd, c0 + nc
    return out


def hier_layout(spec, n_ids):
    """(n_bottom, n_top, list of non-special dims)."""
    special = pop_special(spec)
    hd = [d for d, s in enumerate(special) if s is None]
    return n_ids * len(hd), pop_n_par(spec, n_ids), hd


def hier_split(spec, n_ids, vec, cov=None):
    """Hierarchical flat vector -> (x matrix (n_ids, n_dim), theta). Special
    dimensions of x are filled with the value the population parameters dictate."""
    nb, nt, hd = hier_layout(spec, n_ids)
    vec = np.asarray(vec)
    n_dim = pop_n_dim(spec)
    theta = vec[nb:nb + nt]
    x = np.zeros((n_ids, n_dim), dtype=complex if np.iscomplexobj(vec) else float)
    for i in range(n_ids):
        for j, d in enumerate(hd):
            x[i, d] = vec[i * len(hd) + j]
    if len(hd) < n_dim:
        psi = pop_indiv(spec, n_ids, theta, x, cov)
        if np.iscomplexobj(psi) and not np.iscomplexobj(x):
            x = x.astype(complex)
        for d in range(n_dim):
            if d not in hd:
                x[:, d] = psi[:, d]
    return x, theta


# --------------------------------------------------------------------------
# builders for chi population models
# --------------------------------------------------------------------------
_LAST_ONLY = [None]


def n_hetero_leaves(spec):
    k = spec['kind']
    if k == 'hetero':
        return 1
    if k in ('cov', 'red'):
        return n_hetero_leaves(spec['base'])
    if k == 'comp':
        return sum(n_hetero_leaves(p) for p in spec['parts'])
    return 0


def build_pop_last_explicit(spec, dim_names, n_ids):
    """build_pop, but of several heterogeneous parts of a (flat) composition only the last one is constructed with
    n_ids (HeterogeneousModel(n_ids=k)); the others keep their default of one individual until the composed model
    propagates the number."""
    _LAST_ONLY[0] = n_hetero_leaves(spec)
    try:
        return build_pop(spec, dim_names, n_ids)
    finally:
        _LAST_ONLY[0] = None


def build_pop(spec, dim_names=None, n_ids=None):
    import chi
    k = spec['kind']
    if k == 'gauss':
        return chi.GaussianModel(n_dim=spec['n_dim'], dim_names=dim_names, centered=spec.get('centered', True))
    if k == 'lognorm':
        return chi.LogNormalModel(n_dim=spec['n_dim'], dim_names=dim_names, centered=spec.get('centered', True))
    if k == 'trunc':
        return chi.TruncatedGaussianModel(n_dim=spec['n_dim'], dim_names=dim_names)
    if k == 'pooled':
        return chi.PooledModel(n_dim=spec['n_dim'], dim_names=dim_names)
    if k == 'hetero':
        if _LAST_ONLY[0] is not None:
            # (only the LAST heterogeneous part is constructed with the number of individuals; the composed model around
            # them passes it on to the others)
            _LAST_ONLY[0] -= 1
            if _LAST_ONLY[0] > 0:
                return chi.HeterogeneousModel(n_dim=spec['n_dim'], dim_names=dim_names)
        if n_ids is None:
            return chi.HeterogeneousModel(n_dim=spec['n_dim'], dim_names=dim_names)
        return chi.HeterogeneousModel(n_dim=spec['n_dim'], dim_names=dim_names, n_ids=n_ids)
    if k == 'cov':
        base = build_pop(spec['base'], None, n_ids)
        m = chi.CovariatePopulationModel(
            base, chi.LinearCovariateModel(n_cov=spec['n_cov']), dim_names=dim_names)
        if spec.get('sel') is not None:
            m.set_population_parameters([list(p) for p in spec['sel']])
        return m
    if k == 'comp':
        parts = []
        d0 = 0
        for part in spec['parts']:
            nd = pop_n_dim(part)
            parts.append(build_pop(part, None if dim_names is None else dim_names[d0:d0 + nd], n_ids))
            d0 += nd
        return chi.ComposedPopulationModel(parts)
    if k == 'red':
        base = build_pop(spec['base'], dim_names, n_ids)
        m = chi.ReducedPopulationModel(base)
        if n_ids is not None:
            m.set_n_ids(n_ids)
        names = base.get_parameter_names()
        pairs = [(names[j], float(v)) for j, v in zip(spec['fixed'], spec['values'])]
        # (several parameters are fixed in two separate calls: the fixed set is the union)
        k = (len(pairs) + 1) // 2 if (len(pairs) >= 2 and sum(spec['fixed']) % 2 == 0) else len(pairs)
        m.fix_parameters(dict(pairs[:k]))
        if pairs[k:]:
            m.fix_parameters(dict(pairs[k:]))
        return m
    raise ValueError(k)


def cov_parts(m):
    """The CovariatePopulationModel instances inside a (composed / reduced) chi population model, in order."""
    import chi
    if isinstance(m, chi.CovariatePopulationModel):
        return [m]
    if isinstance(m, chi.ReducedPopulationModel):
        return cov_parts(m.get_population_model())
    if isinstance(m, chi.ComposedPopulationModel):
        out = []
        for q in m.get_population_models():
            out += cov_parts(q)
        return out
    return []


def name_covariates_uniquely(m):
    """With two or more covariate sub-models the user names the covariates so that every name occurs once
    ('Cov. 1' ... 'Cov. k' in the order of the columns of the covariate matrix). Returns the number of sub-models."""
    parts = cov_parts(m)
    if len(parts) >= 2:
        off = 0
        for q in parts:
            k = q.n_covariates()
            q.set_covariate_names(['Cov. %d' % (off + c + 1) for c in range(k)])
            off += k
    return len(parts)
