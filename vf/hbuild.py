"""Hierarchical log-likelihood specs: strategy, chi builder, reference score and layout.

spec: {'pop': <pop spec>, 'n_ids': n, 'lls': [ll spec per individual], 'ids': [labels or None],
       'cov': matrix or None, 'vec': flat parameter vector (bottom entries, then population
       parameters), 'prior': prior spec for the population parameters or None}
"""
import numpy as np
from hypothesis import strategies as st

from vf import gen, ref, popgen, llbuild


def draw_hier(draw, max_ids=5, max_parts=4, max_dim=3, p_red=0.2, p_cov=0.3, kinds=popgen.ELEM_KINDS,
              p_nested=0.05, with_prior=True):
    n_ids = draw(st.integers(1, max_ids))
    pop = popgen.draw_pop(draw, n_ids, kinds=kinds, max_parts=max_parts, max_dim=max_dim, p_cov=p_cov,
                          p_nested=p_nested)
    n_dim = ref.pop_n_dim(pop)
    cov = popgen.draw_cov_matrix(draw, n_ids, ref.pop_n_cov(pop))
    if p_red and gen.chance(draw, p_red):
        pop, theta = popgen.draw_reduced(draw, pop, n_ids, cov, positive=True)
    else:
        theta = popgen.draw_theta(draw, pop, n_ids, cov, positive=True)
    zero = False
    if pop['kind'] != 'red':
        theta, zero = popgen.zero_scale(draw, pop, n_ids, theta, p=0.3)
    nested_red = None
    if pop['kind'] == 'comp':
        pop, theta, nested_red = popgen.nest_reduced(draw, pop, n_ids, theta, p=0.12)
    base = llbuild.draw_ll_for_dim(draw, n_dim)
    lls = [base] + [llbuild.draw_ll_like(draw, base) for _ in range(n_ids - 1)]
    ids = None
    if gen.chance(draw, 0.5):
        ids = draw(st.sampled_from([[str(10 * (i + 1)) for i in range(n_ids)],
                                    ['id-%s' % chr(97 + i) for i in range(n_ids)]]))
    z = draw(gen.mat(gen.real(-2.5, 2.5), n_ids, n_dim))
    x = popgen.x_from_z(pop, n_ids, theta, z, cov)
    psi_zero = False
    if popgen.has(pop, 'trunc') and gen.chance(draw, 0.15):
        # an individual value exactly ON the truncation point 0 (inside the support: the density is finite there); only
        # for dimensions that are mechanistic parameters of the individual model (a scale of 0 is outside ITS domain)
        d0_, cands_ = 0, []
        for lf in popgen.leaves(pop):
            if lf['kind'] == 'trunc':
                cands_ += [d for d in range(d0_, d0_ + lf['n_dim']) if d < base['n_par']]
            d0_ += lf['n_dim']
        if cands_:
            x = np.array(x, dtype=float)
            x[draw(st.integers(0, n_ids - 1)), cands_[draw(st.integers(0, len(cands_) - 1))]] = 0.0
            psi_zero = True
    _, _, hd = ref.hier_layout(pop, n_ids)
    vec = [gen.r6(float(v)) for v in x[:, hd].flatten()] + list(theta)
    late = False
    if pop['kind'] == 'red' and popgen.has(pop, 'hetero') and not _cov_hetero(pop) and n_ids >= 2:
        # a reduced model built for its default single individual: possible when the fixed parameters are no
        # per-individual (heterogeneous) ones, i.e. exist under the same name for every number of individuals
        dims = ['d%d' % k for k in range(n_dim)]
        full = ref.pop_names(pop['base'], n_ids, dims)
        small = ref.pop_names(pop['base'], 1, dims)
        if all(full[j] in small for j in pop['fixed']):
            late = gen.chance(draw, 0.6)
    if popgen.has(pop, 'hetero') and not popgen.has(pop, 'red') and not _cov_hetero(pop):
        # heterogeneous models constructed with their default n_ids=1; the hierarchical
        # likelihood is then responsible for setting the number of individuals
        late = gen.chance(draw, 0.6)
    explicit_last = False
    if pop['kind'] == 'comp' and ref.n_hetero_leaves(pop) >= 2 and not _cov_hetero(pop) and not late \
            and all(q['kind'] in ref.ELEM for q in pop['parts']):
        explicit_last = bool(gen.chance(draw, 0.6))
    prior = llbuild.draw_prior(draw, ref.pop_n_par(pop, n_ids), list(theta)) if with_prior else None
    unneeded = None
    bare_nc = pop['kind'] in ('gauss', 'lognorm') and not pop.get('centered', True)
    if cov is None and gen.chance(draw, 0.6 if bare_nc else 0.12):
        # covariates supplied although the population model uses none (documented: they are ignored)
        k = draw(st.integers(1, 2))
        unneeded = [[float(1 + i + 2 * c) for c in range(k)] for i in range(n_ids)]
        if gen.chance(draw, 0.3):
            unneeded[0][0] = 0.0
    return dict(unneeded_cov=unneeded, pop=pop, n_ids=n_ids, lls=lls, ids=ids, cov=cov, vec=vec, prior=prior, late=late, zero_scale=zero, nested_red=nested_red,
                explicit_last=explicit_last, psi_zero=psi_zero)


def unneeded_cov_cases():
    """Enumerated: a bare non-centred model (which takes no covariates) under a hierarchical likelihood that is handed
    covariates anyway: one individual with a covariate of 1 / 0, two individuals."""
    ll = dict(n_out=1, n_par=1, ems=[dict(kind='gauss', fixed=None)], times=[[0.5, 1.0]], obs=[[1.0, 1.4]],
              tmode='single', tied=False)
    out = []
    for kind in ('gauss', 'lognorm'):
        for n_ids, ucov in ((1, [[1.0]]), (1, [[0.0]]), (2, [[1.0], [2.0]]), (2, [[1.0, 0.0], [2.0, 3.0]])):
            pop = dict(kind=kind, n_dim=2, centered=False)
            top = [1.0, 0.5, 0.4, 0.2] if kind == 'gauss' else [0.1, -0.6, 0.4, 0.2]
            bottom = [0.3 - 0.5 * i + 0.2 * d for i in range(n_ids) for d in range(2)]
            out.append(dict(pop=pop, n_ids=n_ids, lls=[ll] * n_ids, ids=None, cov=None, unneeded_cov=ucov,
                            vec=bottom + top, prior=[dict(kind='lognormal', a=0.0, b=1.0)] * 2 +
                            [dict(kind='lognormal', a=-1.0, b=1.0)] * 2 if kind == 'gauss' else
                            [dict(kind='gaussian', a=0.0, b=1.0)] * 2 + [dict(kind='lognormal', a=-1.0, b=1.0)] * 2,
                            late=False))
    return out


def _cov_hetero(pop):
    k = pop['kind']
    if k == 'cov':
        return pop['base']['kind'] == 'hetero'
    if k == 'red':
        return _cov_hetero(pop['base'])
    if k == 'comp':
        return any(_cov_hetero(p) for p in pop['parts'])
    return False


def ll_param_names(spec):
    return llbuild.ll_names(spec['lls'][0])


def build_hier(spec):
    import chi
    n_ids = spec['n_ids']
    lls = []
    for i, ll in enumerate(spec['lls']):
        lls.append(llbuild.build_ll(ll, ident=None if spec['ids'] is None else spec['ids'][i]))
    pm = build_population(spec, ll_param_names(spec))
    cov = None if spec['cov'] is None else np.array(spec['cov'], dtype=float)
    if cov is None and spec.get('unneeded_cov') is not None:
        cov = np.array(spec['unneeded_cov'], dtype=float)
    return chi.HierarchicalLogLikelihood(lls, pm, covariates=cov)


def build_population(spec, dim_names):
    """The population model of a hierarchical spec (late = still configured for its default single individual; a
    reduced one is then fixed by name, as a user would)."""
    import chi
    n_ids = spec['n_ids']
    if spec.get('late') and spec['pop']['kind'] == 'red':
        pop = spec['pop']
        names_full = ref.build_pop(pop['base'], dim_names, n_ids).get_parameter_names()
        base = ref.build_pop(pop['base'], dim_names, None)
        pm = chi.ReducedPopulationModel(base)
        pm.fix_parameters({names_full[j]: float(v) for j, v in zip(pop['fixed'], pop['values'])})
        return pm
    if spec.get('explicit_last') and not spec.get('late'):
        return ref.build_pop_last_explicit(spec['pop'], dim_names, n_ids)
    return ref.build_pop(spec['pop'], dim_names, None if spec.get('late') else n_ids)


def expected_ids(spec):
    if spec['ids'] is not None:
        return [str(i) for i in spec['ids']]
    return ['Log-likelihood %d' % (i + 1) for i in range(spec['n_ids'])]


def layout(spec):
    """Independent layout model: for every position of the flat vector (name, id)."""
    pop, n_ids = spec['pop'], spec['n_ids']
    nb, nt, hd = ref.hier_layout(pop, n_ids)
    lnames = ll_param_names(spec)
    ids = expected_ids(spec)
    names, idl = [], []
    for i in range(n_ids):
        for d in hd:
            names.append(lnames[d])
            idl.append(ids[i])
    names += ref.pop_names(pop, n_ids, lnames)
    idl += [None] * nt
    return names, idl, nb, nt


def ref_hier(spec, vec):
    """Reference hierarchical score (complex-safe): individuals + population density."""
    pop, n_ids = spec['pop'], spec['n_ids']
    cov = None if spec['cov'] is None else np.array(spec['cov'], dtype=float)
    x, theta = ref.hier_split(pop, n_ids, vec, cov)
    psi = ref.pop_indiv(pop, n_ids, theta, x, cov)
    tot = ref.pop_loglik(pop, n_ids, theta, x, cov)
    for i, ll in enumerate(spec['lls']):
        tot = tot + llbuild.ref_ll(ll, psi[i])
    return tot


def ref_terms(spec, vec):
    pop, n_ids = spec['pop'], spec['n_ids']
    cov = None if spec['cov'] is None else np.array(spec['cov'], dtype=float)
    x, theta = ref.hier_split(pop, n_ids, vec, cov)
    psi = ref.pop_indiv(pop, n_ids, theta, x, cov)
    return psi, [llbuild.ref_ll(ll, psi[i]) for i, ll in enumerate(spec['lls'])], \
        ref.pop_loglik(pop, n_ids, theta, x, cov)


def structure(spec):
    return [popgen.structure(spec['pop']), spec['n_ids'], llbuild.ll_structure(spec['lls'][0])[:3],
            spec['ids'] is not None]


def classify(spec):
    pop = spec['pop']
    labs = []
    for lf in popgen.leaves(pop):
        labs.append('kind:' + lf['kind'])
        if lf['kind'] in ('gauss', 'lognorm') and not lf.get('centered', True):
            labs.append('noncentered')
    for k in ('cov', 'comp', 'red'):
        if popgen.has(pop, k):
            labs.append(k)
    if spec.get('unneeded_cov') is not None:
        labs.append('unneeded_covariates')
        if pop['kind'] in ('gauss', 'lognorm') and not pop.get('centered', True):
            labs.append('unneeded_covariates:bare_noncentered')
    if pop['kind'] != 'comp':
        labs.append('bare')
    special = ref.pop_special(pop)
    if any(special) and not all(special):
        labs.append('mixed_special')
    if any(special[:-1]):
        labs.append('special_not_last')
    if spec['n_ids'] == 1:
        labs.append('n_ids=1')
    if spec.get('late'):
        labs.append('late_n_ids')
        if pop['kind'] == 'red':
            labs.append('late_n_ids:reduced')
    if spec.get('explicit_last'):
        labs.append('hetero_last_explicit')
    if spec.get('psi_zero'):
        labs.append('trunc_value_on_boundary')
    if spec.get('zero_scale'):
        labs.append('noncentered_zero_scale')
    if spec.get('nested_red'):
        labs.append('reduced_part')
        if spec['nested_red'] == 'all':
            labs.append('reduced_part:all_fixed')
    if popgen.has(pop, 'trunc') and 'vec' in spec:
        from vf.props.c06 import leaf_table
        nb = ref.hier_layout(pop, spec['n_ids'])[0]
        for lf in leaf_table(pop, spec['n_ids'], spec['vec'][nb:], spec.get('cov')):
            if lf['kind'] == 'trunc' and np.any(lf['P'][:, 0] / lf['P'][:, 1] <= -4):
                labs.append('trunc_far_tail')
    return sorted(set(labs))
