"""Analytic mechanistic back-end: a pure-Python chi.MechanisticModel with closed-form
outputs and exact output sensitivities (complex step of its own formula).

    ybar_o(t; psi) = sum_j w[o][j] * psi_j * (1 + t * psi_k / (1 + psi_k**2 + t)),   k = (j+1) mod P

with fixed weights w[o][j] = 0.5 + ((3*o + 5*j) mod 7) / 7. For positive psi and t >= 0
every output is positive. It has no myokit dependency and is part of the harness (trusted):
what is under test is chi's bookkeeping around the mechanistic model.

`ref_outputs(psi, times, n_out)` is the same formula as a free function that accepts complex
psi, used by the reference scores (so they can be differentiated by complex step).
"""
import copy

import numpy as np

import chi


def weight(o, j):
    return 0.5 + ((3 * o + 5 * j) % 7) / 7.0


def ref_outputs(psi, times, n_out, outputs=None):
    """(n_out_selected, n_times) array; complex-safe."""
    psi = np.asarray(psi)
    P = len(psi)
    times = np.asarray(times, dtype=float)
    idx = list(range(n_out)) if outputs is None else list(outputs)
    out = np.zeros((len(idx), len(times)), dtype=complex if np.iscomplexobj(psi) else float)
    for r, o in enumerate(idx):
        for j in range(P):
            k = (j + 1) % P
            out[r] = out[r] + weight(o, j) * psi[j] * (1.0 + times * psi[k] / (1.0 + psi[k] ** 2 + times))
    return out


# when set to a list, every simulate call of every AnalyticModel appends its parameter vector (a spy for the harness)
SIM_LOG = [None]
# when set to a number, simulate raises for parameter vectors whose first entry lies below it (a model that cannot be
# solved at some points; chi turns the failure into a score of -infinity)
FAIL_BELOW = [None]


class AnalyticModel(chi.MechanisticModel):
    def __init__(self, n_out=1, n_par=2, par_names=None, out_names=None):
        super(AnalyticModel, self).__init__()
        self._n_out_total = int(n_out)
        self._n_par = int(n_par)
        self._par_names = list(par_names) if par_names else ['psi %d' % (j + 1) for j in range(n_par)]
        self._all_out_names = list(out_names) if out_names else ['out %d' % (o + 1) for o in range(n_out)]
        self._sel = list(range(self._n_out_total))
        self._has_sens = False
        self._sens_idx = list(range(self._n_par))
        self.n_simulate_calls = 0

    # -- chi.MechanisticModel interface -------------------------------------
    def copy(self):
        return copy.deepcopy(self)

    def enable_sensitivities(self, enabled, parameter_names=None):
        self._has_sens = bool(enabled)
        if not enabled:
            return
        if parameter_names is None:
            self._sens_idx = list(range(self._n_par))
        else:
            names = [str(n) for n in parameter_names]
            self._sens_idx = [self._par_names.index(n) for n in names]

    def has_sensitivities(self):
        return self._has_sens

    def n_outputs(self):
        return len(self._sel)

    def n_parameters(self):
        return self._n_par

    def outputs(self):
        return [self._all_out_names[o] for o in self._sel]

    def parameters(self):
        return copy.copy(self._par_names)

    def set_outputs(self, outputs):
        outputs = list(outputs)
        for o in outputs:
            if o not in self._all_out_names:
                raise KeyError('The variable <' + str(o) + '> does not exist in the model.')
        self._sel = [self._all_out_names.index(o) for o in outputs]
        # like chi.SBMLModel: changing outputs resets sensitivities
        self._has_sens = False

    def set_output_names(self, names):
        for k, v in dict(names).items():
            if k in self._all_out_names:
                self._all_out_names[self._all_out_names.index(k)] = str(v)

    def set_parameter_names(self, names):
        for k, v in dict(names).items():
            if k in self._par_names:
                self._par_names[self._par_names.index(k)] = str(v)

    def simulate(self, parameters, times):
        self.n_simulate_calls += 1
        psi = np.array(parameters, dtype=float)
        if SIM_LOG[0] is not None:
            SIM_LOG[0].append(tuple(psi.tolist()))
        if FAIL_BELOW[0] is not None and psi.size and psi[0] < FAIL_BELOW[0]:
            raise ArithmeticError('AnalyticModel: the model cannot be solved at these parameters (requested by the harness)')
        if psi.shape != (self._n_par,):
            raise ValueError('AnalyticModel: expected %d parameters, got shape %s' % (self._n_par, psi.shape))
        times = np.array(times, dtype=float)
        out = ref_outputs(psi, times, self._n_out_total, self._sel)
        if not self._has_sens:
            return out
        sens = np.empty((len(times), len(self._sel), len(self._sens_idx)))
        for c, j in enumerate(self._sens_idx):
            z = psi.astype(complex)
            z[j] += 1e-30j
            sens[:, :, c] = (np.imag(ref_outputs(z, times, self._n_out_total, self._sel)) / 1e-30).T
        return out, sens

    def supports_dosing(self):
        return False
