"""Reference model of chi's population filters, written from the class docstrings of
chi/_population_filters.py and the text of property C12. Shares no code with chi.

Everything is an explicit loop over (time point, observable, measured individual,
simulated individual); missing measurements (NaN) are skipped, never masked. All functions
are complex-safe in the simulated values so that `ref.cgrad` gives exact derivatives.

A filter is described by a list of parts that partition the time axis in order
    parts = [dict(kind=<kind>, nt=<number of time points>, nk=<n_kernels, gmix only>), ...]
kinds:  'gauss'   GaussianFilter         N(y | mean, var) of the simulated values
        'lognorm' LogNormalFilter        LN(y | mean, sd of the simulated log-values)
        'gkde'    GaussianKDEFilter      1/n_s sum_s N(y | x_s, bw^2)
        'lnkde'   LogNormalKDEFilter     1/n_s sum_s LN(y | log x_s, bw)
        'gmix'    GaussianMixtureFilter  sum_m 1/M N(y | mean_m, var_m), m-th consecutive block
A single part is a plain filter, several parts a ComposedPopulationFilter (sum of the parts).
"""
import math

import numpy as np

from vf import ref

KINDS = ('gauss', 'lognorm', 'gkde', 'lnkde', 'gmix')
LOGNORMAL = ('lognorm', 'lnkde')
CLASS_NAMES = {
    'gauss': 'GaussianFilter', 'lognorm': 'LogNormalFilter', 'gkde': 'GaussianKDEFilter',
    'lnkde': 'LogNormalKDEFilter', 'gmix': 'GaussianMixtureFilter'}
LOG2PI = math.log(2.0 * math.pi)


# --------------------------------------------------------------------------
# empirical estimates (explicit sums)
# --------------------------------------------------------------------------
def emp_mean(xs):
    t = 0.0
    for x in xs:
        t = t + x
    return t / len(xs)


def emp_var(xs):
    """Empirical variance with the 1/(n-1) normalisation of the docstrings."""
    m = emp_mean(xs)
    t = 0.0
    for x in xs:
        t = t + (x - m) ** 2
    return t / (len(xs) - 1)


def rule_of_thumb_bw2(xs):
    """Squared rule-of-thumb bandwidth: ((4 / (3 n_s))^(1/5) * sd)^2."""
    n_s = len(xs)
    bw = (4.0 / (3.0 * n_s)) ** (1.0 / 5.0) * np.sqrt(emp_var(xs))
    return bw * bw


# --------------------------------------------------------------------------
# log-densities
# --------------------------------------------------------------------------
def log_normal_pdf(y, mu, var):
    return -0.5 * LOG2PI - 0.5 * np.log(var) - (y - mu) ** 2 / (2.0 * var)


def log_lognormal_pdf(y, mu, var):
    """log LN(y | mu, sigma): Gaussian density of log y times the Jacobian 1/y."""
    ly = math.log(y)
    return log_normal_pdf(ly, mu, var) - ly


def log_sum_exp(terms):
    """Complex-safe log(sum(exp(terms))), shifted by the largest real part."""
    mx = max(float(np.real(t)) for t in terms)
    if mx == -np.inf:
        return -np.inf
    tot = 0.0
    for t in terms:
        tot = tot + np.exp(t - mx)
    return mx + np.log(tot)


# --------------------------------------------------------------------------
# one (observable, time point) cell
# --------------------------------------------------------------------------
def cell_loglik(kind, ys, xs, n_kernels=None):
    """Log-likelihood contribution of one (observable, time point) cell.

    ys: the non-missing measurements of the cell (real)
    xs: the simulated values of the cell, in input order (may be complex)
    """
    xs = list(xs)
    n_s = len(xs)
    total = 0.0
    if kind == 'gauss':
        mu, var = emp_mean(xs), emp_var(xs)
        for y in ys:
            total = total + log_normal_pdf(y, mu, var)
    elif kind == 'lognorm':
        lx = [np.log(x) for x in xs]
        mu, var = emp_mean(lx), emp_var(lx)
        for y in ys:
            total = total + log_lognormal_pdf(y, mu, var)
    elif kind == 'gkde':
        bw2 = rule_of_thumb_bw2(xs)
        for y in ys:
            total = total + log_sum_exp([log_normal_pdf(y, x, bw2) for x in xs]) - math.log(n_s)
    elif kind == 'lnkde':
        lx = [np.log(x) for x in xs]
        bw2 = rule_of_thumb_bw2(lx)
        for y in ys:
            total = total + log_sum_exp([log_lognormal_pdf(y, l, bw2) for l in lx]) - math.log(n_s)
    elif kind == 'gmix':
        M = int(n_kernels)
        if n_s % M:
            raise ValueError('n_sim must be a multiple of n_kernels')
        n = n_s // M
        stats = []
        for m in range(M):
            block = xs[m * n:(m + 1) * n]
            stats.append((emp_mean(block), emp_var(block)))
        for y in ys:
            total = total + log_sum_exp([log_normal_pdf(y, mu, var) for mu, var in stats]) - math.log(M)
    else:
        raise ValueError(kind)
    return total


def _cells(parts, obs):
    """Yields (kind, nk, r, j, measurements of the cell)."""
    obs = np.asarray(obs, dtype=float)
    n_ids, n_obs, n_times = obs.shape
    if sum(p['nt'] for p in parts) != n_times:
        raise ValueError('parts do not partition the time axis')
    j0 = 0
    for p in parts:
        for j in range(j0, j0 + p['nt']):
            for r in range(n_obs):
                ys = []
                for i in range(n_ids):
                    y = float(obs[i, r, j])
                    if y == y:          # skip missing values
                        ys.append(y)
                yield p['kind'], p.get('nk'), r, j, ys
        j0 += p['nt']


def filter_loglik(parts, obs, sim):
    """Sum over all non-missing measurements of the documented log-density.

    obs: (n_ids, n_observables, n_times), NaN = missing;   sim: (n_sim, n_observables, n_times)
    """
    sim = np.asarray(sim)
    total = 0.0
    for kind, nk, r, j, ys in _cells(parts, obs):
        total = total + cell_loglik(kind, ys, [sim[s, r, j] for s in range(sim.shape[0])], nk)
    return total


def filter_grad_full(parts, obs, sim):
    """Complex-step gradient of filter_loglik w.r.t. every simulated value (slow, direct)."""
    sim = np.asarray(sim, dtype=float)
    g = ref.cgrad(lambda z: filter_loglik(parts, obs, z.reshape(sim.shape)), sim.flatten())
    return g.reshape(sim.shape)


def filter_grad(parts, obs, sim):
    """Same gradient, using that the reference is a sum over cells and the term of cell (r, j)
    depends on sim[:, r, j] only (complex-step per cell)."""
    sim = np.asarray(sim, dtype=float)
    g = np.zeros(sim.shape)
    for kind, nk, r, j, ys in _cells(parts, obs):
        g[:, r, j] = ref.cgrad(lambda z: cell_loglik(kind, ys, list(z), nk), sim[:, r, j])
    return g


# --------------------------------------------------------------------------
# data transformations used by the metamorphic relations
# --------------------------------------------------------------------------
def compact(obs):
    """Equivalent smaller dataset: in every (observable, time) cell the non-missing values are
    moved to the first rows (order kept) and rows that are empty everywhere are removed."""
    obs = np.asarray(obs, dtype=float)
    n_ids, n_obs, n_times = obs.shape
    out = np.full(obs.shape, np.nan)
    most = 0
    for r in range(n_obs):
        for j in range(n_times):
            k = 0
            for i in range(n_ids):
                if obs[i, r, j] == obs[i, r, j]:
                    out[k, r, j] = obs[i, r, j]
                    k += 1
            most = max(most, k)
    return out[:most]


def build(parts, obs, composed=None, dtype=np.float64, as_list=False):
    """chi filter for the description (input construction; the only place that touches chi).
    dtype / as_list: type of the arrays handed to the constructors (whole-number data as int arrays / nested lists)."""
    import chi
    obs = np.asarray(obs, dtype=float)
    fs = []
    given = []
    j0 = 0
    for p in parts:
        o = np.ascontiguousarray(obs[:, :, j0:j0 + p['nt']].copy(), dtype=dtype)   # the user's own array
        given.append((o, o.copy()))
        if as_list:
            o = o.tolist()
        cls = getattr(chi, CLASS_NAMES[p['kind']])
        fs.append(cls(o, n_kernels=p['nk']) if p['kind'] == 'gmix' else cls(o))
        j0 += p['nt']
    if composed is None:
        composed = len(parts) > 1
    if composed:
        f = chi.ComposedPopulationFilter(fs)
    elif len(fs) != 1:
        raise ValueError('a plain filter has exactly one part')
    else:
        f = fs[0]
    if len(GIVEN) > 8:
        GIVEN.clear()
    GIVEN[id(f)] = given
    return f


GIVEN = {}      # id(filter) -> [(array handed to the constructor, pristine copy)] (harness bookkeeping)


def inputs_of(f):
    return GIVEN.get(id(f), [])
