"""Individual log-likelihood specs: strategy pieces, chi builders and the reference score.

ll spec (JSON-able):
  {'n_out': k, 'n_par': P,
   'ems': [{'kind': 'gauss'|'mult'|'cm'|'lognorm', 'fixed': None | {idx: value}} per output],
   'times': [[...] per output], 'obs': [[...] per output]}
Parameter vector of the likelihood (documented): mechanistic parameters, then the error
models' (free) parameters in output order.
"""
import numpy as np
from hypothesis import strategies as st

from vf import gen, ref
from vf.analytic_model import AnalyticModel, ref_outputs

EM_KINDS = ['gauss', 'mult', 'cm', 'lognorm']
TIME_MODES = ['identical', 'disjoint', 'nested', 'overlap', 'free']


def draw_time_grids(draw, n_out, mode=None, allow_tied=True):
    """Per-output non-decreasing time grids built from a shared pool by a relation class."""
    if mode is None:
        mode = draw(st.sampled_from(TIME_MODES))
    n_pool = draw(st.integers(max(1, n_out if mode == 'disjoint' else 1), 8))
    pool = sorted(gen.distinct(draw(gen.vec(gen.logu(0.05, 20.0), n_pool))))
    if gen.chance(draw, 0.2):
        pool[0] = 0.0
    idx = list(range(n_pool))
    grids = []
    if mode == 'identical' or n_out == 1:
        sub = draw(gen.subset(n_pool, min_size=1))
        grids = [list(sub) for _ in range(n_out)]
    elif mode == 'disjoint':
        owner = [draw(st.integers(0, n_out - 1)) for _ in idx]
        for o in range(n_out):
            owner[o] = o          # every output gets at least one time
        grids = [[i for i in idx if owner[i] == o] for o in range(n_out)]
    elif mode == 'nested':
        cur = list(idx)
        for o in range(n_out):
            grids.append(list(cur))
            if len(cur) > 1:
                k = draw(st.integers(1, len(cur)))
                cur = sorted(draw(st.permutations(cur))[:k])
    else:
        for o in range(n_out):
            grids.append(draw(gen.subset(n_pool, min_size=1)))
    tied = False
    if allow_tied and gen.chance(draw, 0.25):
        o = draw(st.integers(0, n_out - 1))
        i = draw(st.sampled_from(grids[o]))
        reps = draw(st.integers(1, 2))
        grids[o] = sorted(grids[o] + [i] * reps)
        tied = True
    times = [[pool[i] for i in g] for g in grids]
    return times, mode if n_out > 1 else 'single', tied


def draw_ll(draw, n_out=None, n_par=None, kinds=EM_KINDS, p_fixed=0.15, positive_obs=True,
            max_out=4, max_par=5, mode=None, allow_tied=True, allow_empty=False):
    if n_out is None:
        n_out = draw(st.integers(1, max_out))
    if n_par is None:
        n_par = draw(st.integers(1, max_par))
    ems = []
    for o in range(n_out):
        k = draw(st.sampled_from(kinds))
        fixed = None
        if p_fixed and gen.chance(draw, p_fixed):
            sub = draw(gen.subset(ref.EM_NPAR[k], min_size=1))
            fixed = {str(j): draw(gen.logu(0.05, 5.0)) for j in sub}
        ems.append(dict(kind=k, fixed=fixed))
    times, mode, tied = draw_time_grids(draw, n_out, mode, allow_tied)
    if allow_empty and gen.chance(draw, 0.15 if n_out >= 2 else 0.04):
        # outputs that were never measured (empty observation lists), also in front of measured ones; now and then no
        # output was measured at all (an individual of a dataset whose measurements are all missing)
        k = n_out if (n_out == 1 or gen.chance(draw, 0.15)) else draw(st.integers(1, n_out - 1))
        for o in (list(range(k)) if draw(st.booleans()) else list(draw(st.permutations(list(range(n_out))))[:k])):
            times[o] = []
    obs = []
    for o in range(n_out):
        n = len(times[o])
        if ems[o]['kind'] == 'gauss' and not positive_obs:
            obs.append(draw(gen.vec(gen.signed_logu(0.05, 50.0), n)))
        else:
            obs.append(draw(gen.vec(gen.logu(0.05, 50.0), n)))
    return dict(n_out=n_out, n_par=n_par, ems=ems, times=times, obs=obs, tmode=mode, tied=tied)


def draw_ll_like(draw, base, allow_tied=True):
    """A structurally identical likelihood (same model and error models) with its own
    time grids and observations."""
    times, mode, tied = draw_time_grids(draw, base['n_out'], None, allow_tied)
    obs = [draw(gen.vec(gen.logu(0.05, 50.0), len(t))) for t in times]
    return dict(base, times=times, obs=obs, tmode=mode, tied=tied)


def draw_ll_for_dim(draw, n_dim, max_out=3):
    """A likelihood structure with exactly n_dim parameters (mechanistic + free error
    parameters), as a population model of that dimensionality requires."""
    n_out = draw(st.integers(1, max_out))
    ems = []
    for o in range(n_out):
        ems.append(dict(kind=draw(st.sampled_from(EM_KINDS)), fixed=None))
    # fix error parameters until at least one mechanistic parameter remains
    def nsig():
        return sum(ref.EM_NPAR[e['kind']] - (len(e['fixed']) if e['fixed'] else 0) for e in ems)
    o = 0
    while nsig() > n_dim - 1:
        e = ems[o % n_out]
        free = [j for j in range(ref.EM_NPAR[e['kind']]) if not (e['fixed'] and str(j) in e['fixed'])]
        if free:
            e['fixed'] = dict(e['fixed'] or {})
            e['fixed'][str(free[-1])] = draw(gen.logu(0.05, 5.0))
        o += 1
    n_par = n_dim - nsig()
    times, mode, tied = draw_time_grids(draw, n_out)
    obs = [draw(gen.vec(gen.logu(0.05, 50.0), len(t))) for t in times]
    return dict(n_out=n_out, n_par=n_par, ems=ems, times=times, obs=obs, tmode=mode, tied=tied)


def ll_n_sigma(ll):
    """Number of free error parameters per output."""
    return [ref.EM_NPAR[e['kind']] - (len(e['fixed']) if e['fixed'] else 0) for e in ll['ems']]


def ll_n_parameters(ll):
    return ll['n_par'] + sum(ll_n_sigma(ll))


def draw_ll_params(draw, ll, psi_lo=0.1, psi_hi=10.0):
    psi = draw(gen.vec(gen.logu(psi_lo, psi_hi), ll['n_par']))
    sig = draw(gen.vec(gen.logu(0.05, 5.0), sum(ll_n_sigma(ll))))
    return psi + sig


def draw_signed_params(draw, ll, params):
    """Negative mechanistic parameters (negative model outputs, e.g. change-from-baseline biomarkers) where every
    error model admits them: Gaussian, and constant+multiplicative as long as sigma_base + sigma_rel * ybar > 0 at
    every measured time (its sigma_base is raised accordingly). Returns the new vector or None."""
    if any(e['kind'] not in ('gauss', 'cm') or e['fixed'] for e in ll['ems']):
        return None
    from vf.analytic_model import ref_outputs
    n_par = ll['n_par']
    out = list(params)
    flip = draw(subset_nonempty(n_par))
    for j in flip:
        out[j] = -out[j]
    pos = n_par
    for o, e in enumerate(ll['ems']):
        if e['kind'] == 'cm':
            if ll['times'][o]:
                yb = np.real(ref_outputs(np.array(out[:n_par]), np.array(ll['times'][o], dtype=float), ll['n_out']))[o]
                low = float(min(0.0, np.min(yb)))
                out[pos] = gen.r6(out[pos] + 1.25 * out[pos + 1] * (-low))
            pos += 2
        else:
            pos += 1
    return out


def subset_nonempty(n):
    return gen.subset(n, min_size=1)


def par_names(ll):
    return ['psi %d' % (j + 1) for j in range(ll['n_par'])]


def out_names(ll):
    return ['out %d' % (o + 1) for o in range(ll['n_out'])]


def ll_names(ll):
    """Documented names: mechanistic names, then error-model names, prefixed by the output
    name when there is more than one output; fixed parameters removed."""
    names = par_names(ll)
    for o, e in enumerate(ll['ems']):
        for j, nm in enumerate(ref.EM_DEFAULT_NAMES[e['kind']]):
            if e['fixed'] and str(j) in e['fixed']:
                continue
            names.append(('%s %s' % (out_names(ll)[o], nm)) if ll['n_out'] > 1 else nm)
    return names


def build_model(ll):
    return AnalyticModel(ll['n_out'], ll['n_par'], par_names(ll), out_names(ll))


def build_error_models(ll):
    import chi
    ems = []
    for e in ll['ems']:
        em = ref.em_class(e['kind'])()
        if e['fixed']:
            names = em.get_parameter_names()
            em = chi.ReducedErrorModel(em)
            em.fix_parameters({names[int(j)]: float(v) for j, v in e['fixed'].items()})
        ems.append(em)
    return ems


def build_ll(ll, model=None, ident=None):
    import chi
    model = model if model is not None else build_model(ll)
    ems = build_error_models(ll)
    obs = [np.array(o, dtype=float) for o in ll['obs']]
    times = [np.array(t, dtype=float) for t in ll['times']]
    if ll['n_out'] == 1 and ll.get('flat_single', False):
        obs, times = obs[0], times[0]
    L = chi.LogLikelihood(model, ems, obs, times)
    if ident is not None:
        L.set_id(ident)
    return L


def split_sigmas(ll, params):
    """Full sigma vector per output from the likelihood's (free) parameter vector."""
    params = np.asarray(params)
    pos = ll['n_par']
    out = []
    for e in ll['ems']:
        full = []
        for j in range(ref.EM_NPAR[e['kind']]):
            if e['fixed'] and str(j) in e['fixed']:
                full.append(e['fixed'][str(j)])
            else:
                full.append(params[pos])
                pos += 1
        out.append(full)
    return out


def ref_pointwise(ll, params):
    """List per output of the per-measurement reference log-densities (time order)."""
    params = np.asarray(params)
    psi = params[:ll['n_par']]
    sigs = split_sigmas(ll, params)
    res = []
    for o, e in enumerate(ll['ems']):
        t = np.array(ll['times'][o], dtype=float)
        ybar = ref_outputs(psi, t, ll['n_out'], [o])[0]
        res.append(ref.em_pointwise(e['kind'], sigs[o], ybar, np.array(ll['obs'][o], dtype=float)))
    return res


def ref_ll(ll, params):
    tot = 0.0
    for pw in ref_pointwise(ll, params):
        for v in pw:
            tot = tot + v
    return tot


def ll_structure(ll):
    return [ll['n_out'], ll['n_par'], [[e['kind'], sorted(e['fixed']) if e['fixed'] else None] for e in ll['ems']],
            [len(t) for t in ll['times']], ll.get('tmode'), ll.get('tied')]


# ---- pints priors ---------------------------------------------------------
def draw_prior(draw, n, values=None):
    """List of per-parameter prior specs. If values are given, a prior whose support
    excludes the value is chosen only rarely (prior-rejected class)."""
    out = []
    for i in range(n):
        k = draw(st.sampled_from(['lognormal', 'gaussian', 'uniform', 'halfcauchy']))
        if values is not None and values[i] <= 0 and not gen.chance(draw, 0.1):
            k = 'gaussian'
        if k == 'lognormal':
            out.append(dict(kind=k, a=draw(gen.real(-1, 1)), b=draw(gen.logu(0.2, 2.0))))
        elif k == 'gaussian':
            out.append(dict(kind=k, a=draw(gen.real(-2, 5)), b=draw(gen.logu(0.2, 5.0))))
        elif k == 'uniform':
            out.append(dict(kind=k, a=0.0, b=draw(gen.logu(20.0, 200.0))))
        else:
            out.append(dict(kind=k, a=0.0, b=draw(gen.logu(0.5, 5.0))))
    return out


def build_prior(pspec):
    import pints
    ps = []
    for p in pspec:
        if p['kind'] == 'lognormal':
            ps.append(pints.LogNormalLogPrior(p['a'], p['b']))
        elif p['kind'] == 'gaussian':
            ps.append(pints.GaussianLogPrior(p['a'], p['b']))
        elif p['kind'] == 'uniform':
            ps.append(pints.UniformLogPrior(p['a'], p['b']))
        else:
            ps.append(pints.HalfCauchyLogPrior(p['a'], p['b']))
    return pints.ComposedLogPrior(*ps)


def ref_prior(pspec, x):
    """Reference log-prior (complex-safe); -inf outside the support."""
    tot = 0.0
    for p, v in zip(pspec, x):
        a, b = p['a'], p['b']
        if p['kind'] == 'lognormal':
            if np.real(v) <= 0:
                return -np.inf
            tot = tot - 0.5 * ref.LOG2PI - np.log(b) - np.log(v) - (np.log(v) - a) ** 2 / (2 * b ** 2)
        elif p['kind'] == 'gaussian':
            tot = tot - 0.5 * ref.LOG2PI - np.log(b) - (v - a) ** 2 / (2 * b ** 2)
        elif p['kind'] == 'uniform':
            if np.real(v) < a or np.real(v) >= b:      # pints: support [a, b)
                return -np.inf
            tot = tot - np.log(b - a)
        else:
            if np.real(v) <= 0:                          # pints: support x > 0
                return -np.inf
            tot = tot + np.log(2.0) - np.log(np.pi * b) - np.log(1 + ((v - a) / b) ** 2)
    return tot
