"""Reference integrator standing in for myokit.Simulation (CVODES is absent in this sandbox).

Implements exactly the calls chi makes, with myokit's documented semantics:

    Simulation(model, protocol=None, sensitivities=None)   (clones the model; keeps it as ._model)
    reset(), set_state(values), set_constant(qname, value), set_protocol(protocol or None)
    run(duration, log=[qnames], log_times=times) -> log  |  (log, sens) with
        sens[t][dependent][independent] when constructed with sensitivities=(dependents, independents),
        independents being literal constants (qname) or 'init(state qname)'.

The right-hand side is generated once per model with myokit's own NumPy expression writer; the
'pace'-bound variable is driven by myokit.PacingSystem (myokit's pure-Python protocol semantics);
integration is piecewise between pacing discontinuities with scipy DOP853 (rtol 1e-10, atol 1e-12).
Sensitivities: complex-step differentiation through the whole integration (one extra complex
integration per independent; exact derivative of the numerical solution).

`install()` replaces myokit.Simulation inside the harness process only. chi itself is unchanged.
"""
import numpy as np
import myokit
import myokit.formats.python as mfp
from scipy.integrate import solve_ivp

RTOL = 1e-10
ATOL = 1e-12
CSTEP = 1e-30
N_RUNS = [0]


def _toposort(model):
    """All variables in an order in which each only depends on earlier ones (states are
    known up-front)."""
    vs = list(model.variables(deep=True))
    deps = {}
    for v in vs:
        d = set()
        if not v.is_bound():
            for r in v.rhs().references():
                w = r.var()
                if isinstance(r, myokit.Derivative):
                    d.add(('dot', w.qname()))
                elif not w.is_state():
                    d.add(('var', w.qname()))
        deps[v.qname()] = d
    done, order = set(), []
    todo = list(vs)
    while todo:
        progressed = False
        rest = []
        for v in todo:
            key = ('dot', v.qname()) if v.is_state() else ('var', v.qname())
            if deps[v.qname()] <= done:
                order.append(v)
                done.add(key)
                progressed = True
            else:
                rest.append(v)
        if not progressed:
            raise RuntimeError('simshim: cyclic dependency in model: %s' % [v.qname() for v in rest])
        todo = rest
    return order


class RefSimulation(object):
    def __init__(self, model, protocol=None, sensitivities=None, path=None):
        if not isinstance(model, myokit.Model):
            raise ValueError('RefSimulation needs a myokit.Model')
        model.validate()
        self._model = model.clone()
        self._protocol = None if protocol is None else protocol.clone()
        m = self._model
        self._states = [v.qname() for v in m.states()]
        self._default_state = np.array([float(v) for v in m.initial_values(as_floats=True)], dtype=float)
        self._consts = {}
        for v in m.variables(const=True, deep=True):
            if v.is_literal():
                self._consts[v.qname()] = float(v.rhs().eval())
        self._sens = None
        if sensitivities is not None:
            deps, indeps = sensitivities
            deps = [str(d) for d in deps]
            indeps = [str(i) for i in indeps]
            parsed = []
            for name in indeps:
                if name.startswith('init(') and name.endswith(')'):
                    q = name[5:-1]
                    if q not in self._states:
                        raise ValueError('simshim: init() of unknown state %r' % q)
                    parsed.append(('init', q))
                else:
                    if name not in self._consts:
                        raise ValueError('simshim: sensitivity w.r.t. unknown / non-literal constant %r' % name)
                    parsed.append(('const', name))
            for d in deps:
                m.get(d)
            self._sens = (deps, parsed)
        self._fn = None
        self._pyname = None
        self.reset()

    # -- pickling / deepcopy: the compiled function is rebuilt lazily -----------------
    def __getstate__(self):
        d = dict(self.__dict__)
        d['_fn'] = None
        return d

    def _compile(self):
        m = self._model
        w = mfp.NumPyExpressionWriter()
        names = {}

        def pyname(q):
            if q not in names:
                names[q] = 'v%d' % len(names)
            return names[q]

        def lhs(e):
            if isinstance(e, myokit.Derivative):
                return 'd_' + pyname(e.var().qname())
            return pyname(e.var().qname())
        w.set_lhs_function(lhs)
        lines = ['def rhs(t, x, c, pace):']
        for i, s in enumerate(self._states):
            lines.append('    %s = x[%d]' % (pyname(s), i))
        for v in _toposort(m):
            q = v.qname()
            if v.is_state():
                lines.append('    d_%s = %s' % (pyname(q), w.ex(v.rhs())))
            elif v.is_bound():
                b = v.binding()
                if b == 'time':
                    lines.append('    %s = t' % pyname(q))
                elif b == 'pace':
                    lines.append('    %s = pace' % pyname(q))
                else:
                    lines.append('    %s = %s' % (pyname(q), w.ex(v.rhs())))
            elif q in self._consts:
                lines.append('    %s = c[%r]' % (pyname(q), q))
            else:
                lines.append('    %s = %s' % (pyname(q), w.ex(v.rhs())))
        lines.append('    return [%s], locals()' % ', '.join('d_' + pyname(s) for s in self._states))
        ns = {'numpy': np}
        exec('\n'.join(lines), ns)
        self._fn = ns['rhs']
        self._pyname = names

    # -- myokit.Simulation API (subset used by chi) ------------------------------------
    def reset(self):
        self._t = 0.0
        self._x = self._default_state.copy()

    def time(self):
        return self._t

    def state(self):
        return list(self._x)

    def set_state(self, state):
        state = np.array([float(v) for v in state], dtype=float)
        if state.shape != self._default_state.shape:
            raise ValueError('simshim: state must have length %d, got %s' % (len(self._default_state), state.shape))
        self._x = state

    def set_constant(self, var, value):
        q = var.qname() if isinstance(var, myokit.Variable) else str(var)
        if q not in self._consts:
            raise ValueError('simshim: %r is not a literal constant of the model' % q)
        self._consts[q] = float(value)

    def set_protocol(self, protocol, label='pace'):
        self._protocol = None if protocol is None else protocol.clone()

    # -- integration -------------------------------------------------------------------
    def _integrate(self, x0, consts, t0, tend, times, log):
        """Integrate from t0 to tend, returning (x_end, dict name -> values at times)."""
        if self._fn is None:
            self._compile()
        fn = self._fn
        cplx = np.iscomplexobj(x0) or any(isinstance(v, complex) for v in consts.values())
        x = np.array(x0, dtype=complex if cplx else float)
        out = {name: [None] * len(times) for name in log}
        ps = myokit.PacingSystem(self._protocol) if self._protocol is not None else None
        t = float(t0)
        if ps is not None and t > 0:
            ps.advance(t)
        order = np.argsort(times, kind='stable')
        pos = 0

        def record(k, tt, xx, pace):
            loc = fn(tt, xx, consts, pace)[1]
            for name in log:
                out[name][k] = loc[self._pyname[name]]

        n_t = len(times)
        n_seg = 0
        while True:
            n_seg += 1
            if n_seg > 100000:
                raise myokit.SimulationError('simshim: more than 100000 pacing segments')
            pace = 0.0
            tnext = tend
            if ps is not None:
                pace = ps.pace()
                tnext = min(tend, ps.next_time())
            # log times in [t, tnext)  (and == tend in the last segment)
            seg = []
            while pos < n_t and (times[order[pos]] < tnext or (tnext >= tend and times[order[pos]] <= tend)):
                seg.append(order[pos])
                pos += 1
            if tnext > t:
                # every requested time is the END of an integration interval: the values do not go through the
                # integrator's dense output (whose interpolation error is not covered by rtol / atol when the step
                # size is limited by stability rather than accuracy)
                tev = sorted({float(times[k]) for k in seg if times[k] > t})
                stops = tev + ([float(tnext)] if (not tev or tev[-1] < tnext) else [])
                cols = {}
                tcur, xcur = t, x
                for stop in stops:
                    sol = solve_ivp(lambda tt, xx: np.array(fn(tt, xx, consts, pace)[0], dtype=x.dtype),
                                    (tcur, stop), xcur, method='DOP853', rtol=RTOL, atol=ATOL)
                    if not sol.success:
                        raise myokit.SimulationError('simshim: integration failed: %s' % sol.message)
                    tcur, xcur = stop, sol.y[:, -1]
                    cols[stop] = xcur
                for k in seg:
                    tk = float(times[k])
                    record(k, tk, x if tk == t else cols[tk], pace)
                x = cols[float(tnext)]
            else:
                for k in seg:
                    record(k, float(times[k]), x, pace)
            t = tnext
            if t >= tend:
                break
            if ps is not None:
                ps.advance(t)
        return x, out

    def run(self, duration, log=None, log_interval=None, log_times=None, sensitivities=None,
            apd_variable=None, apd_threshold=None, progress=None, msg='Running simulation'):
        N_RUNS[0] += 1
        if log is None or log_times is None:
            raise NotImplementedError('simshim: run() needs log=[names] and log_times')
        log = [str(n) for n in log]
        for n in log:
            self._model.get(n)
        times = np.array(log_times, dtype=float)
        if not np.isfinite(float(duration)) or float(duration) < 0 or not np.all(np.isfinite(times)):
            raise ValueError('simshim: duration and log_times must be finite (myokit rejects them too)')
        if len(times) and (np.any(np.diff(times) < 0)):
            raise ValueError('simshim: log_times must be non-decreasing')
        if not (np.all(np.isfinite(self._x)) and all(np.isfinite(v) for v in self._consts.values())):
            # (CVODES fails on the first step; an explicit integrator would shrink its step for a long time)
            raise myokit.SimulationError('simshim: non-finite initial state or constant')
        t0 = self._t
        tend = t0 + float(duration)
        # myokit logs a requested time once the solver has passed it (`while (t > tlog)`): times before the start
        # and times at or after t0 + duration are silently left out of the log
        times = times[(times >= t0) & (times < tend)]
        x_end, out = self._integrate(self._x, dict(self._consts), t0, tend, times, log)
        reslog = {name: [float(np.real(v)) for v in out[name]] for name in log}
        result = reslog
        if self._sens is not None:
            deps, indeps = self._sens
            n_t = len(times)
            sens = np.zeros((n_t, len(deps), len(indeps)))
            for j, (kind, q) in enumerate(indeps):
                x0 = np.array(self._x, dtype=complex)
                consts = dict(self._consts)
                if kind == 'init':
                    x0[self._states.index(q)] += 1j * CSTEP
                else:
                    consts[q] = complex(consts[q], CSTEP)
                _, o2 = self._integrate(x0, consts, t0, tend, times, deps)
                for d, name in enumerate(deps):
                    sens[:, d, j] = [np.imag(v) / CSTEP for v in o2[name]]
            result = (reslog, sens.tolist())
        self._t = tend
        self._x = np.real(x_end).astype(float)
        return result


_ORIGINAL = [None]


def install():
    """Replace myokit.Simulation by the reference integrator (harness process only)."""
    if _ORIGINAL[0] is None:
        _ORIGINAL[0] = myokit.Simulation
    myokit.Simulation = RefSimulation
    return RefSimulation
