"""Predicates of known findings: each takes (spec, fail) and returns True when the
failure is explained by the recorded defect. Kept as narrow as the root cause."""
