"""Predicates of known findings: each takes (spec, fail) and returns True when the
failure is explained by the recorded defect. Kept as narrow as the root cause."""


def cm_sampler(spec, fail):
    """F07: ConstantAndMultiplicativeGaussianErrorModel.sample adds two independent noise terms
    (variance sigma_b^2 + (sigma_r*ybar)^2) while the log-likelihood uses sd = sigma_b + sigma_r*ybar.
    Only the constant+multiplicative error-model cases of C06 are explained by it."""
    return spec.get('mode') == 'em' and spec.get('kind') == 'cm'
