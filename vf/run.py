"""Runner: ./check <ID> --tier quick|thorough [--replay file] [--examples N]

Exit codes: 0 property held on everything explored; 1 violation (prints
"VIOLATION property=<id> replay=<path>"); 2 harness error / inconclusive.
"""
import argparse
import fnmatch
import glob
import hashlib
import importlib
import json
import multiprocessing as mp
import os
import sys
import time
import traceback
from collections import Counter

HERE = os.path.dirname(os.path.dirname(os.path.abspath(__file__)))
N_SHARDS = int(os.environ.get('VERIF_SHARDS', '16'))


class _NoDaemonProcess(mp.get_context('fork').Process):
    """Pool workers that may have children (pints.ParallelEvaluator forks inside a check)."""
    @property
    def daemon(self):
        return False

    @daemon.setter
    def daemon(self, value):
        pass


class _NoDaemonContext(type(mp.get_context('fork'))):
    Process = _NoDaemonProcess


def _load(prop):
    return importlib.import_module('vf.props.%s' % prop.lower())


def _shard_seed(seed, shard):
    return (int(seed) * 1000003 + shard * 7919 + 12345) % (2 ** 32)


def _h(obj):
    from vf.core import spec_key
    return hashlib.blake2b(spec_key(obj).encode(), digest_size=8).hexdigest()


def load_known(prop):
    path = os.path.join(HERE, 'known_findings.json')
    if not os.path.exists(path):
        return []
    with open(path) as f:
        entries = json.load(f)
    return [e for e in entries if prop in e.get('properties', [e.get('property')])]


def match_known(fail, spec, known):
    """Return id of the open known finding that explains this failure, or None."""
    from vf import known as known_preds
    for e in known:
        if e.get('status') != 'open':
            continue
        if not fnmatch.fnmatch(fail['clause'], e.get('clause', '*')):
            continue
        if not fnmatch.fnmatch(fail['kind'], e.get('kind', '*')):
            continue
        pred = e.get('predicate')
        if pred and not getattr(known_preds, pred)(spec, fail):
            continue
        return e['id']
    return None


class Shard(object):
    """Accumulates what one worker saw."""
    def __init__(self):
        self.evaluations = 0
        self.nontrivial = 0
        self.struct_nontrivial = set()
        self.classes = Counter()
        self.clauses = Counter()
        self.inconclusive = Counter()
        self.excluded_known = Counter()
        self.buckets = {}       # key -> dict(count, spec, fail, size)
        self.samples = {}       # label -> spec
        self.t = 0.0

    def absorb(self, mod, case, known):
        from vf.core import spec_key
        spec = case.spec
        self.evaluations += 1
        labels = list(mod.classify(spec)) + list(case.labels)
        nt = bool(mod.nontrivial(spec))
        if nt:
            self.nontrivial += 1
            self.struct_nontrivial.add(_h(mod.structure(spec)))
            labels.append('nontrivial')
        for lab in labels:
            self.classes[lab] += 1
            if lab not in self.samples and len(self.samples) < 40:
                self.samples[lab] = spec
        self.clauses.update(case.checked)
        self.inconclusive.update(case.inconclusive)
        for fl in case.fails:
            kid = match_known(fl, spec, known)
            if kid is not None:
                self.excluded_known[kid] += 1
                continue
            key = '%s|%s' % (fl['clause'], fl['kind'])
            size = len(spec_key(spec))
            b = self.buckets.get(key)
            if b is None:
                self.buckets[key] = dict(count=1, spec=spec, fail=fl, size=size)
            else:
                b['count'] += 1
                if size < b['size']:
                    b.update(spec=spec, fail=fl, size=size)

    def as_dict(self):
        d = dict(self.__dict__)
        d['struct_nontrivial'] = list(self.struct_nontrivial)
        return d


def _settings(n, shrink):
    from hypothesis import settings, HealthCheck, Phase
    phases = [Phase.generate, Phase.shrink] if shrink else [Phase.generate]
    return settings(
        max_examples=max(1, n), database=None, deadline=None, derandomize=False,
        report_multiple_bugs=False, suppress_health_check=list(HealthCheck),
        phases=phases, print_blob=False)


CASE_TIMEOUT = int(os.environ.get('VERIF_CASE_TIMEOUT', '300'))


def _guarded_check(mod, case):
    """Run mod.check(case) under a per-case watchdog: a hung case makes the run inconclusive
    (harness error, exit 2), never a violation and never an endless run."""
    import signal
    from vf.core import CaseTimeout

    def on_alarm(signum, frame):
        raise CaseTimeout()
    old = signal.signal(signal.SIGALRM, on_alarm)
    signal.alarm(CASE_TIMEOUT)
    try:
        mod.check(case)
        return True
    except CaseTimeout:
        # inconclusive, never a violation: the case is dropped and counted
        case.fails = []
        case.checked.clear()
        case.inconclusive['case_timeout'] += 1
        try:
            with open(os.path.join(HERE, 'evidence', 'timeout_%s_%d.json' % (getattr(mod, 'ID', 'X'), os.getpid())), 'w') as f:
                json.dump(dict(note='case exceeded the %d s watchdog' % CASE_TIMEOUT, spec=case.spec), f)
        except Exception:
            pass
        return False
    finally:
        signal.alarm(0)
        signal.signal(signal.SIGALRM, old)


def run_shard(args):
    """Pass 1: generate, run, collect. Never raises for property failures."""
    prop, tier, seed, shard, n = args
    t0 = time.time()
    try:
        from vf.core import Case, install_warning_policy, ensure_chi_path
        ensure_chi_path()
        install_warning_policy()
        from hypothesis import given, seed as hseed
        mod = _load(prop)
        known = load_known(prop)
        st = Shard()
        if os.environ.get('VERIF_FAULT'):
            import faulthandler
            faulthandler.dump_traceback_later(
                float(os.environ['VERIF_FAULT']), exit=True,
                file=open(os.path.join(os.environ.get('VERIF_FAULT_DIR', '/tmp'), 'vf_fault_%d.txt' % os.getpid()), 'w'))

        @hseed(_shard_seed(seed, shard))
        @_settings(n, False)
        @given(mod.strategy(tier))
        def t(spec):
            case = Case(spec)
            _guarded_check(mod, case)
            st.absorb(mod, case, known)
        if n > 0:
            t()
        st.t = time.time() - t0
        return ('ok', shard, st.as_dict())
    except BaseException:  # noqa
        return ('error', shard, traceback.format_exc())


def run_extra(args):
    """Enumerated / deterministic cases (chunk of specs)."""
    prop, specs = args
    t0 = time.time()
    try:
        from vf.core import Case, install_warning_policy, ensure_chi_path
        ensure_chi_path()
        install_warning_policy()
        mod = _load(prop)
        known = load_known(prop)
        st = Shard()
        for spec in specs:
            case = Case(spec)
            _guarded_check(mod, case)
            st.absorb(mod, case, known)
        st.t = time.time() - t0
        return ('ok', -1, st.as_dict())
    except BaseException:  # noqa
        return ('error', -1, traceback.format_exc())


def shrink_bucket(args):
    """Pass 2: re-run the shard with the same seed, raising only for failures
    in the target bucket, and let Hypothesis shrink. Bounded by call count."""
    prop, tier, seed, shard, n, key, budget = args
    try:
        from vf.core import Case, install_warning_policy, ensure_chi_path, spec_key
        ensure_chi_path()
        install_warning_policy()
        from hypothesis import given, seed as hseed
        mod = _load(prop)
        known = load_known(prop)
        state = dict(best=None, best_key=None, calls_after=0, fail=None)

        class Hit(Exception):
            pass

        @hseed(_shard_seed(seed, shard))
        @_settings(n, True)
        @given(mod.strategy(tier))
        def t(spec):
            sk = spec_key(spec)
            if state['best'] is not None:
                state['calls_after'] += 1
                if state['calls_after'] > budget:
                    # budget exhausted: only the current best still "fails"
                    if sk == state['best_key']:
                        raise Hit()
                    return
            case = Case(spec)
            mod.check(case)
            for fl in case.fails:
                if match_known(fl, spec, known) is not None:
                    continue
                if '%s|%s' % (fl['clause'], fl['kind']) == key:
                    state.update(best=spec, best_key=sk, fail=fl)
                    raise Hit()
        try:
            t()
        except Hit:
            pass
        except BaseException:  # hypothesis Flaky etc.: keep best so far
            pass
        return ('ok', key, state['best'], state['fail'])
    except BaseException:  # noqa
        return ('error', key, traceback.format_exc(), None)


def replay_specs(mod, prop, specs_with_paths, known):
    """Run committed replay specs directly. Returns list of (path, fails)."""
    from vf.core import Case
    out = []
    for path, spec in specs_with_paths:
        case = Case(spec)
        mod.check(case)
        fails = [f for f in case.fails if match_known(f, spec, known) is None]
        out.append((path, fails, case))
    return out


def emit(line=''):
    try:
        sys.stdout.write(str(line) + '\n')
        sys.stdout.flush()
    except BrokenPipeError:
        try:
            sys.stdout = open(os.devnull, 'w')
        except Exception:
            pass


def main(argv=None):
    ap = argparse.ArgumentParser()
    ap.add_argument('prop')
    ap.add_argument('--tier', default=os.environ.get('VERIF_TIER', 'quick'))
    ap.add_argument('--replay', default=None)
    ap.add_argument('--examples', type=int, default=None)
    ap.add_argument('--no-shrink', action='store_true')
    ap.add_argument('--no-evidence', action='store_true')
    a = ap.parse_args(argv)
    prop = a.prop.upper()
    tier = a.tier if a.tier in ('quick', 'thorough') else 'quick'
    seed = int(os.environ.get('VERIF_SEED', '1'))
    t0 = time.time()
    os.chdir(HERE)

    try:
        from vf.core import (
            Case, install_warning_policy, ensure_chi_path, jsonable, HarnessError)
        ensure_chi_path()
        install_warning_policy()
        mod = _load(prop)
        known = load_known(prop)
    except BaseException:  # noqa
        emit('HARNESS-ERROR property=%s import failed\n%s' % (prop, traceback.format_exc()))
        return 2

    # ---- single replay ---------------------------------------------------
    if a.replay:
        with open(a.replay) as f:
            doc = json.load(f)
        spec = doc['spec'] if isinstance(doc, dict) and 'spec' in doc else doc
        try:
            res = replay_specs(mod, prop, [(a.replay, spec)], known)
        except BaseException:  # noqa
            emit('HARNESS-ERROR property=%s replay crashed\n%s' % (prop, traceback.format_exc()))
            return 2
        _, fails, case = res[0]
        for fl in case.fails:
            emit('  clause=%s kind=%s %s' % (fl['clause'], fl['kind'], fl['detail']))
        if fails:
            emit('VIOLATION property=%s replay=%s' % (prop, a.replay))
            return 1
        emit('replay passed: %s (%d clauses checked)' % (a.replay, sum(case.checked.values())))
        return 0

    violations = []     # (bucket key, replay path, detail)
    harness_errors = []
    known_lines = []
    total = Shard()

    # ---- known findings: witnesses --------------------------------------
    try:
        for e in known:
            w = e.get('witness')
            if e.get('status') == 'open':
                if w is None:
                    continue
                case = Case(w)
                mod.check(case)
                hit = [f for f in case.fails if match_known(f, w, [e]) == e['id']]
                if hit:
                    known_lines.append('KNOWN-FINDING: property=%s %s [%s]' % (prop, e['what'], e['id']))
                else:
                    harness_errors.append('stale known finding %s: witness no longer fails' % e['id'])
                other = [f for f in case.fails if match_known(f, w, known) is None]
                for fl in other:
                    violations.append(('%s|%s' % (fl['clause'], fl['kind']), None, fl['detail'], w))
                total.evaluations += 1
        # ---- replay tier (committed minimal reproductions) ---------------
        rp = sorted(glob.glob(os.path.join(HERE, 'replays', '%s_*.json' % prop)))
        pairs = []
        for p in rp:
            with open(p) as f:
                doc = json.load(f)
            pairs.append((os.path.relpath(p, HERE), doc['spec'] if 'spec' in doc else doc))
        for path, fails, case in replay_specs(mod, prop, pairs, known):
            total.absorb(mod, case, known)
            total.classes['replay'] += 1
            for fl in fails:
                violations.append(('%s|%s' % (fl['clause'], fl['kind']), path, fl['detail'], None))
        total.buckets = {}
    except BaseException:  # noqa
        emit('HARNESS-ERROR property=%s replay tier crashed\n%s' % (prop, traceback.format_exc()))
        return 2

    # ---- generated tier --------------------------------------------------
    n_total = a.examples if a.examples is not None else mod.BUDGET[tier]
    per = [n_total // N_SHARDS + (1 if i < n_total % N_SHARDS else 0) for i in range(N_SHARDS)]
    jobs = [(prop, tier, seed, i, per[i]) for i in range(N_SHARDS) if per[i] > 0]
    extra = []
    if hasattr(mod, 'extra_cases'):
        extra = list(mod.extra_cases(tier))
    chunks = []
    if extra:
        k = max(1, (len(extra) + 4 * N_SHARDS - 1) // (4 * N_SHARDS))
        chunks = [(prop, extra[i:i + k]) for i in range(0, len(extra), k)]
    limit = float(os.environ.get('VERIF_WALL', '1500' if tier == 'quick' else '14000'))
    ctx = _NoDaemonContext()
    results = []
    with ctx.Pool(N_SHARDS) as pool:
        r1 = pool.map_async(run_shard, jobs, chunksize=1)
        r2 = pool.map_async(run_extra, chunks, chunksize=1) if chunks else None
        try:
            results += r1.get(timeout=limit)
            if r2 is not None:
                results += r2.get(timeout=max(1.0, limit - (time.time() - t0)))
        except mp.TimeoutError:
            pool.terminate()
            emit('HARNESS-ERROR property=%s inconclusive: wall-clock guard %.0fs hit' % (prop, limit))
            return 2

    shard_of_bucket = {}
    for status, shard, payload in results:
        if status != 'ok':
            if not any(h.startswith('shard') for h in harness_errors):
                lines = payload.splitlines()
                cut = next((k for k, ln in enumerate(lines) if ln.startswith('Failing test case')), len(lines))
                harness_errors.append('shard %s crashed:\n%s' % (shard, '\n'.join(lines[max(0, cut - 45):cut + 60])))
            else:
                harness_errors.append('shard %s crashed (same run, details omitted)' % shard)
            continue
        total.evaluations += payload['evaluations']
        total.nontrivial += payload['nontrivial']
        total.struct_nontrivial.update(payload['struct_nontrivial'])
        total.classes.update(payload['classes'])
        total.clauses.update(payload['clauses'])
        total.inconclusive.update(payload['inconclusive'])
        total.excluded_known.update(payload['excluded_known'])
        for lab, sp in payload['samples'].items():
            if lab not in total.samples:
                total.samples[lab] = sp
        for key, b in payload['buckets'].items():
            cur = total.buckets.get(key)
            if cur is None:
                total.buckets[key] = dict(b)
                shard_of_bucket[key] = shard
            else:
                cur['count'] += b['count']
                if b['size'] < cur['size']:
                    cur.update(spec=b['spec'], fail=b['fail'], size=b['size'])
                    shard_of_bucket[key] = shard

    # ---- shrink unknown buckets ------------------------------------------
    os.makedirs(os.path.join(HERE, 'evidence'), exist_ok=True)
    for old in glob.glob(os.path.join(HERE, 'evidence', 'replay_%s_*.json' % prop)):
        os.remove(old)
    bucket_report = {}
    if total.buckets:
        keys = sorted(total.buckets, key=lambda k: -total.buckets[k]['count'])
        shrunk = {}
        do = [k for k in keys if shard_of_bucket.get(k, -1) >= 0][:12]
        if do and not a.no_shrink:
            budget = 150 if tier == 'quick' else 1500
            sj = [(prop, tier, seed, shard_of_bucket[k], per[shard_of_bucket[k]], k, budget) for k in do]
            with ctx.Pool(min(N_SHARDS, len(sj))) as pool:
                try:
                    for status, key, best, fl in pool.map_async(shrink_bucket, sj, chunksize=1).get(timeout=900):
                        if status == 'ok' and best is not None:
                            shrunk[key] = (best, fl)
                except mp.TimeoutError:
                    pool.terminate()
        for i, key in enumerate(keys):
            b = total.buckets[key]
            spec, fl = shrunk.get(key, (b['spec'], b['fail']))
            name = 'replay_%s_%s.json' % (prop, hashlib.blake2b(key.encode(), digest_size=4).hexdigest())
            path = os.path.join('evidence', name)
            with open(os.path.join(HERE, path), 'w') as f:
                json.dump(dict(property=prop, bucket=key, fail=fl, count=b['count'],
                               shrunk=key in shrunk, spec=spec), f, indent=1)
            violations.append((key, path, fl['detail'], None))
            bucket_report[key] = dict(count=b['count'], replay=path, detail=fl['detail'])

    # ---- required classes ------------------------------------------------
    # (a case that fails returns early, so classes that are labelled late inside check() may be missing from a run that
    # reports violations: then the violations are the outcome, not the missing labels)
    if a.examples is None:
        for lab in getattr(mod, 'REQUIRED', []):
            if total.classes.get(lab, 0) == 0:
                if violations:
                    emit('  note: required class %r not produced in this run (cases failed before reaching it)' % lab)
                else:
                    harness_errors.append('generator regression: required class %r never produced' % lab)

    # ---- evidence ---------------------------------------------------------
    wall = time.time() - t0
    samples = []
    for lab in sorted(total.samples)[:10]:
        samples.append(dict(label=lab, spec=jsonable(total.samples[lab])))
    ev = dict(
        property_id=prop, tier=tier, seed=seed, level='exploration',
        coverage=dict(
            evaluations=int(total.evaluations),
            distinct_nontrivial=int(len(total.struct_nontrivial)),
            nontrivial_cases=int(total.nontrivial),
            rule=mod.RULE,
            samples=samples,
            classes=dict(total.classes),
            clauses=dict(total.clauses),
            inconclusive=dict(total.inconclusive),
            excluded_known=dict(total.excluded_known),
            buckets=bucket_report,
            exhaustive=bool(getattr(mod, 'EXHAUSTIVE', {}).get(tier, False)),
            enumerated_cases=len(extra),
        ),
        assumptions=list(mod.ASSUMPTIONS),
        wall_s=round(wall, 2),
        violations=len({v[0] for v in violations}),
    )
    if not a.no_evidence:
        with open(os.path.join(HERE, 'evidence', '%s.json' % prop), 'w') as f:
            json.dump(jsonable(ev), f, indent=1)

    # ---- report -------------------------------------------------------------
    emit('%s tier=%s seed=%d evaluations=%d nontrivial=%d distinct_nontrivial=%d wall=%.1fs' % (
        prop, tier, seed, total.evaluations, total.nontrivial, len(total.struct_nontrivial), wall))
    emit('  classes: ' + ', '.join('%s=%d' % kv for kv in sorted(total.classes.items())))
    emit('  clauses: ' + ', '.join('%s=%d' % kv for kv in sorted(total.clauses.items())))
    if total.inconclusive:
        emit('  inconclusive: ' + ', '.join('%s=%d' % kv for kv in sorted(total.inconclusive.items())))
    if total.excluded_known:
        emit('  excluded_known: ' + ', '.join('%s=%d' % kv for kv in sorted(total.excluded_known.items())))
    for line in known_lines:
        emit(line)
    if harness_errors:
        for h in harness_errors:
            emit('HARNESS-ERROR property=%s %s' % (prop, h))
        return 2
    if violations:
        seen = set()
        for key, path, detail, wspec in violations:
            if key in seen:
                continue
            seen.add(key)
            if path is None:
                name = 'replay_%s_%s.json' % (prop, hashlib.blake2b(key.encode(), digest_size=4).hexdigest())
                path = os.path.join('evidence', name)
                with open(os.path.join(HERE, path), 'w') as f:
                    json.dump(dict(property=prop, bucket=key, spec=wspec), f, indent=1)
            emit('  bucket %s: %s' % (key, detail))
            emit('VIOLATION property=%s replay=%s' % (prop, path))
        return 1
    return 0


if __name__ == '__main__':
    try:
        rc = main()
    except BaseException:  # noqa
        emit('HARNESS-ERROR runner crashed\n%s' % traceback.format_exc())
        rc = 2
    try:
        sys.stdout.flush()
    except Exception:
        pass
    os._exit(rc)
