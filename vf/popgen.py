"""Hypothesis strategies for population-model specs (see vf/ref.py for the grammar)
and in-support parameter vectors, constructed rather than filtered."""
import numpy as np
from hypothesis import strategies as st

from vf import gen, ref

ELEM_KINDS = ['gauss', 'lognorm', 'trunc', 'pooled', 'hetero']


def draw_elem(draw, kinds=ELEM_KINDS, max_dim=3):
    k = draw(st.sampled_from(kinds))
    d = draw(st.integers(1, max_dim))
    s = dict(kind=k, n_dim=d)
    if k in ('gauss', 'lognorm'):
        s['centered'] = not gen.chance(draw, 0.4)
    return s


def draw_cov_wrap(draw, base, n_ids, max_cov=3, explicit=True):
    n_cov = draw(st.integers(1, max_cov))
    s = dict(kind='cov', base=base, n_cov=n_cov, sel=None)
    if explicit and gen.chance(draw, 0.5):
        npd = ref.pop_per_dim(base, n_ids)
        pairs = st.tuples(st.integers(0, npd - 1), st.integers(0, base['n_dim'] - 1)).map(list)
        s['sel'] = draw(st.lists(pairs, min_size=1, max_size=4))
    return s


def draw_pop(draw, n_ids, kinds=ELEM_KINDS, max_parts=4, max_dim=3, p_cov=0.3, p_red=0.2,
             p_bare=0.25, p_nested=0.05):
    """A population spec: bare elementary/covariate model or a composition."""
    def leaf():
        e = draw_elem(draw, kinds, max_dim)
        if p_cov and gen.chance(draw, p_cov):
            e = draw_cov_wrap(draw, e, n_ids)
        return e
    if gen.chance(draw, p_bare):
        s = leaf()
    else:
        n = draw(st.integers(1, max_parts))
        parts = [leaf() for _ in range(n)]
        if p_nested and n >= 2 and gen.chance(draw, p_nested):
            parts = [dict(kind='comp', parts=parts[:2])] + parts[2:]
        s = dict(kind='comp', parts=parts)
    return s


def _draw_elem_theta(draw, spec, n_ids, positive=False):
    k, d = spec['kind'], spec['n_dim']
    if positive and k == 'trunc' and gen.chance(draw, 0.15):
        # far upper tail: location well below the truncation point (individual values are |mu + sigma*z| > 0)
        sig = draw(gen.vec(gen.logu(0.3, 3.0), d))
        z = draw(gen.vec(gen.real(-8, -4), d))
        return [gen.r6(a * b) for a, b in zip(z, sig)] + sig
    if positive and k in ('gauss', 'trunc'):
        # individual values mu + sigma*z with |z| <= 3 stay positive
        mu = draw(gen.vec(gen.logu(0.5, 5.0), d))
        f = draw(gen.vec(gen.logu(0.02, 0.3), d))
        return mu + [gen.r6(a * b) for a, b in zip(mu, f)]
    if positive and k == 'lognorm':
        return draw(gen.vec(gen.real(-1, 1), d)) + draw(gen.vec(gen.logu(0.05, 0.5), d))
    if positive and k in ('pooled', 'hetero'):
        n = d if k == 'pooled' else d * n_ids
        return gen.distinct(draw(gen.vec(gen.logu(0.3, 5.0), n)))
    if k == 'gauss':
        return draw(gen.vec(gen.real(-10, 10), d)) + draw(gen.vec(gen.logu(1e-2, 1e2), d))
    if k == 'lognorm':
        return draw(gen.vec(gen.real(-2, 2), d)) + draw(gen.vec(gen.logu(1e-2, 2.0), d))
    if k == 'trunc':
        sig = draw(gen.vec(gen.logu(1e-2, 1e2), d))
        if gen.chance(draw, 0.15):
            z = draw(gen.vec(gen.real(-8, -4), d))      # far upper tail of the Gaussian
        else:
            z = draw(gen.vec(gen.real(-3, 5), d))
        return [gen.r6(a * b) for a, b in zip(z, sig)] + sig
    if k == 'pooled':
        return draw(gen.vec(gen.logu(1e-2, 1e2), d))
    if k == 'hetero':
        return gen.distinct(draw(gen.vec(gen.logu(1e-2, 1e2), d * n_ids)))
    raise ValueError(k)


def draw_theta(draw, spec, n_ids, cov, positive=False):
    """In-support parameter vector (list of floats) for spec, given the covariate
    matrix cov (n_ids x n_cov of this spec) -- scales stay positive for every individual.
    positive=True additionally keeps every individual value psi positive (|z| <= 3)."""
    k = spec['kind']
    if k in ref.ELEM:
        return _draw_elem_theta(draw, spec, n_ids, positive)
    if k == 'comp':
        out = []
        c0 = 0
        for part in spec['parts']:
            nc = ref.pop_n_cov(part)
            sub = [row[c0:c0 + nc] for row in cov] if cov is not None else None
            out += draw_theta(draw, part, n_ids, sub, positive)
            c0 += nc
        return out
    if k == 'cov':
        base = spec['base']
        th0 = _draw_elem_theta(draw, base, n_ids, positive)
        nd = base['n_dim']
        n_cov = spec['n_cov']
        cmax = [max([abs(row[c]) for row in cov] + [1e-9]) for c in range(n_cov)]
        beta = []
        zero_beta = gen.chance(draw, 0.08)
        for (p, d) in ref.cov_selection(spec, n_ids):
            for c in range(n_cov):
                f = draw(gen.real(-0.9, 0.9))
                if base['kind'] == 'trunc':
                    f = f / 3.0   # keeps mu/sigma of every individual above about -4.7
                if zero_beta:
                    b = 0.0
                elif positive and base['kind'] in ('gauss', 'trunc') and p == 0:
                    b = 0.2 * f * th0[d] / (n_cov * cmax[c])       # location shift <= 18 % of mu
                elif positive and base['kind'] == 'lognorm' and p == 0:
                    b = 0.3 * f / (n_cov * cmax[c])
                elif base['kind'] in ('gauss', 'lognorm', 'trunc') and p == 1:
                    # scale parameter: keep sigma + sum_c beta_c chi_c > 0 for every individual
                    b = f * th0[nd + d] / (n_cov * cmax[c])
                elif base['kind'] == 'trunc':
                    b = f * th0[nd + d] / (n_cov * cmax[c])
                elif base['kind'] in ('pooled', 'hetero'):
                    b = f * th0[p * nd + d] / (n_cov * cmax[c])   # keep values positive
                else:
                    b = 4.0 * f / (n_cov * max(cmax[c], 1e-9))     # location shifts by <= 3.6 (units of the covariate cancel)
                beta.append(gen.sig6(b))
        return th0 + beta
    if k == 'red':
        raise ValueError('use draw_reduced')
    raise ValueError(k)


def zero_scale(draw, spec, n_ids, theta, p=0.06):
    """With probability p, the standard deviation of one NON-centred Gaussian / log-normal dimension is put exactly on
    the boundary 0 (the individual values then all equal the location; the standard-normal score of the bottom-level
    entries does not involve the scale at all). Plain or composed (un-nested) specs only. Returns (theta, flag)."""
    parts = [spec] if spec['kind'] in ref.ELEM else (spec['parts'] if spec['kind'] == 'comp' else [])
    if not parts or any(q['kind'] not in ref.ELEM for q in parts):
        return theta, False
    cands, off = [], 0
    for q in parts:
        if q['kind'] in ('gauss', 'lognorm') and not q.get('centered', True):
            cands += [off + q['n_dim'] + d for d in range(q['n_dim'])]
        off += ref.pop_n_par(q, n_ids)
    if not cands or not gen.chance(draw, p):
        return theta, False
    theta = list(theta)
    theta[cands[draw(st.integers(0, len(cands) - 1))]] = 0.0
    return theta, True


def nest_reduced(draw, spec, n_ids, theta, p=0.1):
    """With probability p, one part of an (un-nested) composition is replaced by a reduced model of that part in which a
    subset of its parameters - possibly ALL of them - is fixed at their values (the sub-model then reports fewer, or no,
    parameters, but still scores its dimensions). Returns (spec, theta of the free parameters, flag)."""
    if spec['kind'] != 'comp' or any(q['kind'] not in ref.ELEM + ('cov',) for q in spec['parts']) or not gen.chance(draw, p):
        return spec, theta, None
    cands = [j for j, q in enumerate(spec['parts']) if q['kind'] in ref.ELEM and q['kind'] != 'hetero']
    if not cands:
        return spec, theta, None
    j = cands[draw(st.integers(0, len(cands) - 1))]
    off = sum(ref.pop_n_par(q, n_ids) for q in spec['parts'][:j])
    n = ref.pop_n_par(spec['parts'][j], n_ids)
    if len(theta) - n < 1 and n < 2:
        return spec, theta, None
    if gen.chance(draw, 0.5) and len(theta) - n >= 1:
        fixed = list(range(n))
    else:
        fixed = draw(gen.subset(n, min_size=1, max_size=n if len(theta) - n >= 1 else n - 1))
    parts = list(spec['parts'])
    parts[j] = dict(kind='red', base=parts[j], fixed=list(fixed), values=[theta[off + k] for k in fixed])
    theta = [v for i, v in enumerate(theta) if not (off <= i < off + n and (i - off) in fixed)]
    return dict(spec, parts=parts), theta, ('all' if len(fixed) == n else 'some')


def draw_reduced(draw, spec, n_ids, cov, min_fixed=1, positive=False):
    """Wrap spec in a 'red' node fixing a subset of its parameters; returns
    (red_spec, free theta)."""
    full = draw_theta(draw, spec, n_ids, cov, positive)
    if len(full) < 2:
        return spec, full          # never fix every parameter (an object without parameters)
    fixed = draw(gen.subset(len(full), min_size=min(min_fixed, len(full)), max_size=max(1, len(full) - 1)))
    red = dict(kind='red', base=spec, fixed=fixed, values=[full[j] for j in fixed])
    theta = [v for j, v in enumerate(full) if j not in fixed]
    return red, theta


COV_UNITS = [1e-9, 1e-12, 1e-7, 1e4, 1e9]


def draw_cov_matrix(draw, n_ids, n_cov, units=False):
    """units=True: sometimes the covariates are recorded in other units (e.g. SI: 1e-9 .. 4e-9); draw_theta scales the
    coefficients with 1 / max|covariate|, so the effect sizes stay the same."""
    if n_cov == 0:
        return None
    if gen.chance(draw, 0.06):
        return [[0.0] * n_cov for _ in range(n_ids)]
    m = draw(gen.mat(gen.real(-2, 2), n_ids, n_cov))
    if units and gen.chance(draw, 0.15 if units is True else units):
        k = draw(st.sampled_from(COV_UNITS))
        m = [[float(v * k) for v in row] for row in m]
    return m


def x_from_z(spec, n_ids, theta, z, cov):
    """Deterministic in-support 'observations' (psi for centred, eta for non-centred
    models, the dictated value for pooled/heterogeneous dimensions) from standard
    scores z (n_ids x n_dim)."""
    z = np.asarray(z, dtype=float)

    def fn(e, P, zi, i):
        k = e['kind']
        out = []
        for d in range(e['n_dim']):
            if k in ('gauss', 'lognorm') and not e.get('centered', True):
                out.append(zi[d])
            elif k == 'gauss':
                out.append(P[0, d] + P[1, d] * zi[d])
            elif k == 'lognorm':
                out.append(np.exp(P[0, d] + P[1, d] * zi[d]))
            elif k == 'trunc':
                v = P[0, d] + P[1, d] * zi[d]
                out.append(abs(v) + 1e-3 * P[1, d])
            elif k == 'pooled':
                out.append(P[0, d])
            elif k == 'hetero':
                out.append(P[i, d])
        return out
    cov_a = None if cov is None else np.asarray(cov, dtype=float)
    leaves = ref._walk(spec, n_ids, np.asarray(theta, dtype=float), z, cov_a, fn)
    rows = []
    for i in range(n_ids):
        r = []
        for leaf in leaves:
            r += [float(np.real(v)) for v in leaf[i]]
        rows.append(r)
    return np.array(rows)


def structure(spec):
    """Structural projection of a population spec (no float values)."""
    k = spec['kind']
    if k in ref.ELEM:
        return [k, spec['n_dim'], spec.get('centered', True)]
    if k == 'cov':
        return ['cov', structure(spec['base']), spec['n_cov'],
                None if spec.get('sel') is None else sorted(map(tuple, spec['sel']))]
    if k == 'red':
        return ['red', structure(spec['base']), list(spec['fixed'])]
    return ['comp'] + [structure(p) for p in spec['parts']]


def leaves(spec):
    k = spec['kind']
    if k in ref.ELEM:
        return [spec]
    if k in ('cov', 'red'):
        return leaves(spec['base'])
    out = []
    for p in spec['parts']:
        out += leaves(p)
    return out


def has(spec, kind):
    k = spec['kind']
    if k == kind:
        return True
    if k in ('cov', 'red'):
        return has(spec['base'], kind)
    if k == 'comp':
        return any(has(p, kind) for p in spec['parts'])
    return False


def draw_pop_for_dim(draw, n_dim, n_ids, kinds=ELEM_KINDS, max_cov_parts=1, p_cov=0.3):
    """A composed population spec with exactly n_dim dimensions (at most max_cov_parts
    covariate-wrapped parts, so covariate names stay unique)."""
    parts = []
    remaining = n_dim
    n_cov_parts = 0
    while remaining > 0:
        d = draw(st.integers(1, min(3, remaining)))
        e = draw_elem(draw, kinds, max_dim=d)
        e['n_dim'] = d
        if n_cov_parts < max_cov_parts and gen.chance(draw, p_cov):
            e = draw_cov_wrap(draw, e, n_ids, max_cov=2)
            n_cov_parts += 1
        parts.append(e)
        remaining -= d
    return dict(kind='comp', parts=parts)
