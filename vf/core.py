"""Core of the harness: the Case object (clauses, comparisons, failure records).

A property module exposes

    ID, RULE, ASSUMPTIONS, BUDGET={'quick': n, 'thorough': n}
    strategy(tier)            -> hypothesis strategy drawing a JSON-able spec
    check(case)               -> runs clauses on case.spec (never raises for a
                                 property violation; records it)
    classify(spec)            -> list of class labels
    nontrivial(spec)          -> bool
    structure(spec)           -> JSON-able structural projection (no floats)
    REQUIRED                  -> labels that must be produced at least once
    extra_cases(tier)         -> optional iterable of specs (enumerations)

Everything random lives in the Hypothesis strategy; check(spec) is a pure
function of the spec and of the code under test.
"""
import contextlib
import json
import os
import sys
import traceback
import warnings
from collections import Counter

import numpy as np

CHI_ROOT = os.environ.get('VERIF_CHI_PATH', '/repo')


class ClauseFail(Exception):
    """Raised inside a clause when an oracle comparison fails."""
    def __init__(self, kind, detail):
        super().__init__(detail)
        self.kind = kind
        self.detail = detail


class Inconclusive(Exception):
    """Raised inside a clause when the oracle cannot decide (never a fail)."""


class HarnessError(Exception):
    """An exception that did not pass through chi: a bug of the harness."""


class CaseTimeout(BaseException):
    """Raised by the per-case watchdog. Derives from BaseException because chi's
    likelihoods swallow every Exception raised below simulate()."""


def install_warning_policy():
    """chi swallows every simulate() exception into -inf + RuntimeWarning.
    Turn exactly that warning into an error so harness/shim/chi errors surface.
    """
    warnings.simplefilter('ignore')
    warnings.filterwarnings(
        'error', message='An error occured while solving', category=RuntimeWarning)
    np.seterr(all='ignore')


def _chi_site(exc):
    """Innermost frame of the traceback that lies inside the chi package.
    Returns 'file:function' or None."""
    site = None
    e = exc
    seen = 0
    while e is not None and seen < 5:
        tb = e.__traceback__
        for fr, _ in traceback.walk_tb(tb):
            fn = fr.f_code.co_filename
            if (os.sep + 'chi' + os.sep) in fn and (os.sep + 'vf' + os.sep) not in fn \
                    and 'site-packages' not in fn:
                site = '%s:%s' % (os.path.basename(fn), fr.f_code.co_name)
        if site is not None:
            return site
        e = e.__context__
        seen += 1
    return None


def exc_kind(exc):
    """Bucket kind for an exception raised while executing chi code."""
    root = exc
    # A swallowed simulate() error re-raised as RuntimeWarning: report the cause
    if isinstance(exc, RuntimeWarning) and exc.__context__ is not None:
        root = exc.__context__
    site = _chi_site(root) or _chi_site(exc)
    if site is None:
        return None
    return 'exc:%s@%s' % (type(root).__name__, site)


class Case(object):
    def __init__(self, spec):
        self.spec = spec
        self.fails = []            # list of dict(clause, kind, detail)
        self.checked = Counter()   # clause -> times evaluated to completion
        self.inconclusive = Counter()
        self.labels = []
        self.notes = {}

    # -- clauses ----------------------------------------------------------
    @contextlib.contextmanager
    def clause(self, name, expect_exc=None):
        """Run a block as one clause. ClauseFail / chi exceptions are recorded,
        harness exceptions propagate as HarnessError."""
        try:
            yield
        except ClauseFail as f:
            self.fails.append(dict(clause=name, kind=f.kind, detail=f.detail[:600]))
        except Inconclusive:
            self.inconclusive[name] += 1
        except HarnessError:
            raise
        except (KeyboardInterrupt, SystemExit, MemoryError, CaseTimeout):
            raise
        except BaseException as e:  # noqa
            kind = exc_kind(e)
            if kind is None:
                raise HarnessError(
                    'harness exception in clause %s: %s\n%s' % (
                        name, repr(e), traceback.format_exc())) from e
            root = e.__context__ if (
                isinstance(e, RuntimeWarning) and e.__context__ is not None) else e
            self.fails.append(dict(
                clause=name, kind=kind,
                detail=('%s: %s' % (type(root).__name__, str(root)))[:600]))
        else:
            self.checked[name] += 1

    def fail(self, kind, detail):
        raise ClauseFail(kind, detail)

    # -- comparisons ------------------------------------------------------
    def close(self, got, want, rtol=1e-9, atol=0.0, what='value', kind='mismatch'):
        """Element-wise comparison with exact matching of -inf/+inf and no nan
        tolerated (unless both are nan at a position where want is nan)."""
        g = np.asarray(got, dtype=float)
        w = np.asarray(want, dtype=float)
        if g.shape != w.shape:
            raise ClauseFail(
                'shape', '%s: shape %s != expected %s' % (what, g.shape, w.shape))
        if g.size == 0:
            return
        fin = np.isfinite(w)
        bad = np.zeros(g.shape, dtype=bool)
        # non-finite expected: must match exactly
        bad |= (~fin) & ~((g == w) | (np.isnan(g) & np.isnan(w)))
        # finite expected but non-finite obtained: always a mismatch
        bad |= fin & ~np.isfinite(g)
        with np.errstate(all='ignore'):
            scale = np.maximum(1.0, np.maximum(np.abs(g), np.abs(w)))
            diff = np.abs(g - w)
            bad |= fin & ~(diff <= rtol * scale + atol)
        if np.any(bad):
            idx = tuple(int(i) for i in np.argwhere(bad)[0])
            raise ClauseFail(kind, '%s: got %r expected %r at %s (n_bad=%d of %d)' % (
                what, float(g[idx]), float(w[idx]), idx, int(bad.sum()), g.size))

    def equal(self, got, want, what='value', kind='mismatch'):
        if got != want:
            raise ClauseFail(kind, '%s: got %r expected %r' % (what, _short(got), _short(want)))

    def true(self, cond, detail, kind='mismatch'):
        if not cond:
            raise ClauseFail(kind, detail)


def _short(x, n=300):
    s = repr(x)
    return s if len(s) <= n else s[:n] + '...'


def jsonable(x):
    """Convert numpy scalars/arrays and non-finite floats for evidence files."""
    if isinstance(x, dict):
        return {str(k): jsonable(v) for k, v in x.items()}
    if isinstance(x, (list, tuple)):
        return [jsonable(v) for v in x]
    if isinstance(x, np.ndarray):
        return jsonable(x.tolist())
    if isinstance(x, (np.integer,)):
        return int(x)
    if isinstance(x, (np.floating, float)):
        x = float(x)
        if x != x:
            return 'nan'
        if x in (float('inf'), float('-inf')):
            return 'inf' if x > 0 else '-inf'
        return x
    if isinstance(x, (np.bool_,)):
        return bool(x)
    return x


def spec_key(obj):
    return json.dumps(jsonable(obj), sort_keys=True, separators=(',', ':'))


def ensure_chi_path():
    if CHI_ROOT not in sys.path:
        sys.path.insert(0, CHI_ROOT)
    import chi  # noqa
    root = os.path.realpath(os.path.dirname(os.path.dirname(chi.__file__)))
    if root != os.path.realpath(CHI_ROOT):
        raise HarnessError('chi imported from %s, expected %s' % (root, CHI_ROOT))


def still_writeable(case, arr, what):
    """The caller's (writeable) array must still be writeable after it was passed to the code under test: a caller who
    updates one vector in place between evaluations gets 'assignment destination is read-only' otherwise."""
    if isinstance(arr, np.ndarray) and not arr.flags.writeable:
        case.fail('input_modified', 'the array passed to %s has been made read-only (its writeable flag was cleared)' % what)
        return False
    return True


def array_forms(x):
    """The same numbers in other array forms a caller may hold: a read-only array (e.g. out of a pandas / xarray
    object), a non-contiguous view (every second element of a larger buffer), a Fortran-ordered array (2-D), a
    float32-free plain list. Returns [(label, object)]."""
    import numpy as np
    x = np.asarray(x, dtype=float)
    out = []
    ro = x.copy()
    ro.setflags(write=False)
    out.append(('a read-only array', ro))
    if x.ndim == 1 and x.size:
        buf = np.full(2 * x.size, -777.0)
        buf[::2] = x
        out.append(('a non-contiguous view', buf[::2]))
    if x.ndim == 2:
        out.append(('a Fortran-ordered array', np.asfortranarray(x)))
        buf = np.full((x.shape[0], 2 * x.shape[1]), -777.0)
        buf[:, ::2] = x
        out.append(('a non-contiguous view', buf[:, ::2]))
    return out

