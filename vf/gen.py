"""Shared Hypothesis strategy helpers. All values are rounded to 6 significant
digits so that specs are readable and JSON round-trips exactly."""
import math
from hypothesis import strategies as st


def sig6(v):
    """Six significant digits (for values of any magnitude)."""
    return float('%.6g' % v)


def r6(v):
    return float('%.6g' % v)


def logu(lo=1e-3, hi=1e3):
    """Log-uniform positive float."""
    # parametrised so that the over-sampled shrink target (u=0) is the lower bound, not 1.0
    span = math.log(hi / lo)
    return st.floats(0.0, 1.0, allow_nan=False).map(lambda u: r6(lo * math.exp(u * span)))


def real(lo=-10.0, hi=10.0):
    # rounded to 1e-6 absolute: no denormals / 1e-300 values in specs
    return st.floats(lo, hi, allow_nan=False, allow_infinity=False).map(lambda v: round(r6(v), 6) + 0.0)


def signed_logu(lo=1e-3, hi=1e3):
    return st.tuples(st.booleans(), logu(lo, hi)).map(lambda t: t[1] if t[0] else -t[1])


def vec(elem, n):
    return st.lists(elem, min_size=n, max_size=n)


def mat(elem, n, m):
    return st.lists(st.lists(elem, min_size=m, max_size=m), min_size=n, max_size=n)


def subset(n, min_size=0, max_size=None):
    """Sorted subset of range(n)."""
    if max_size is None:
        max_size = n
    return st.lists(st.integers(0, max(0, n - 1)), min_size=min_size,
                    max_size=max_size, unique=True).map(sorted) if n > 0 else st.just([])


def chance(draw, p):
    """True with probability ~p. Hypothesis over-samples the minimum of an integer
    range (its shrink target), so 0 is mapped to False and the True outcomes sit
    in the interior of the range."""
    v = draw(st.integers(0, 20))
    return 1 <= v <= max(1, int(round(p * 20)))


def distinct(values):
    """Make a list of floats pairwise distinct by nudging later duplicates (Hypothesis
    deliberately repeats list elements; duplicates stay possible through the
    strategies that do not call this)."""
    out = []
    for v in values:
        k = 1
        w = v
        while w in out:
            w = r6(v * (1 + 0.0137 * k) + (0.0137 * k if v == 0 else 0))
            k += 1
        out.append(w)
    return out
