"""A user-defined error model with THREE parameters (chi ships none with more than two): Gaussian noise whose
standard deviation is sigma_base + sigma_rel * ybar^power (positive model outputs)."""
import numpy as np

import chi

LOG2PI = np.log(2 * np.pi)


class PowerGaussianErrorModel(chi.ErrorModel):
    DEFAULT_NAMES = ['Sigma base', 'Sigma rel.', 'Power']

    def __init__(self):
        super(PowerGaussianErrorModel, self).__init__()
        self._parameter_names = list(self.DEFAULT_NAMES)
        self._n_parameters = 3

    @staticmethod
    def _sd(parameters, ybar):
        sb, sr, pw = [float(v) for v in parameters]
        return sb + sr * ybar ** pw

    def compute_pointwise_ll(self, parameters, model_output, observations):
        ybar = np.asarray(model_output, dtype=float)
        y = np.asarray(observations, dtype=float)
        sd = self._sd(parameters, ybar)
        if np.any(sd <= 0):
            return np.full(len(y), -np.inf)
        return -0.5 * LOG2PI - np.log(sd) - (y - ybar) ** 2 / (2 * sd ** 2)

    def compute_log_likelihood(self, parameters, model_output, observations):
        return float(np.sum(self.compute_pointwise_ll(parameters, model_output, observations)))

    def compute_sensitivities(self, parameters, model_output, model_sensitivities, observations):
        ybar = np.asarray(model_output, dtype=float)
        y = np.asarray(observations, dtype=float)
        S = np.asarray(model_sensitivities, dtype=float).reshape(len(ybar), -1)
        sb, sr, pw = [float(v) for v in parameters]
        sd = self._sd(parameters, ybar)
        if np.any(sd <= 0):
            return -np.inf, np.full(S.shape[1] + 3, np.inf)
        score = float(np.sum(-0.5 * LOG2PI - np.log(sd) - (y - ybar) ** 2 / (2 * sd ** 2)))
        g = -1.0 / sd + (y - ybar) ** 2 / sd ** 3                      # d/d sd
        dsd_dy = sr * pw * ybar ** (pw - 1.0)
        dy = (y - ybar) / sd ** 2 + g * dsd_dy
        sens = np.concatenate([dy @ S, [np.sum(g), np.sum(g * ybar ** pw), np.sum(g * sr * ybar ** pw * np.log(ybar))]])
        return score, sens

    def sample(self, parameters, model_output, n_samples=None, seed=None):
        ybar = np.asarray(model_output, dtype=float)
        n = 1 if n_samples is None else int(n_samples)
        rng = np.random.default_rng(seed)
        sd = self._sd(parameters, ybar)
        return ybar[:, np.newaxis] + sd[:, np.newaxis] * rng.normal(size=(len(ybar), n))

    def set_parameter_names(self, names=None):
        if names is None:
            self._parameter_names = list(self.DEFAULT_NAMES)
            return None
        if len(names) != 3:
            raise ValueError('Length of names does not match n_parameters.')
        self._parameter_names = [str(n) for n in names]
