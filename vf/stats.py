"""Statistical oracles with strict false-alarm control (DESIGN.md 2.6).

Everything here is deterministic given its inputs: no random numbers are drawn in this module.
Samples come from chi's public ``sample(..., seed=int)`` with integer seeds that are part of the
case spec; stage-2 seeds are *derived* from the spec's base seed (``derive_seed``), so a run of a
check is a pure function of the spec and of the code under test.

TWO-STAGE rule (``two_stage``): every test statistic is computed on n1 samples; a statistic with
p < P_STAGE1 (1e-4) is re-computed on a fresh, independent draw (derived seed) of
n2 = STAGE2_FACTOR * n1 samples and is reported only if that second p < P_STAGE2 (1e-9). Under the
null hypothesis the per-test false-alarm rate is about 1e-4 * 1e-9 = 1e-13, i.e. a check with 1e5
tests is quiet for every VERIF_SEED; the defects this family of checks is about move the statistics
by many standard errors and have p ~ 0 at both stages.

All p-value functions return ``(p, detail)``; ``p`` is ``None`` when the test is not applicable
(treated as "not evaluated", never as a failure) and ``0.0`` for hard violations (nan in a sample,
value outside the support of the reference distribution), which are therefore reported as soon as
they occur in both stages.

p-value functions (all two-sided):

    ks_uniform(u)                 Kolmogorov-Smirnov of the probability-integral transform u=F_ref(x)
    z_mean(r)                     standardised values r=(x-m_ref)/s_ref have mean 0
    z_var(r, kurt_excess)         ... and variance 1 (standard error from the reference 4th moment)
    chi2_freq(counts, probs)      categorical frequencies
    corr_pearson(a, b)            Pearson correlation of raw values (finite 4th moments assumed)
    corr_scores(a, b)             Pearson correlation of rank-based normal scores (distribution free)
"""
import hashlib
import math

import numpy as np
from scipy import special
from scipy import stats as sps

P_STAGE1 = 1e-4
P_STAGE2 = 1e-9
STAGE2_FACTOR = 4
SEED_MOD = 2 ** 31 - 1


def derive_seed(base, *tags):
    """Deterministic integer seed in [0, 2^31-1) derived from a base seed and tags (no hash())."""
    key = '|'.join([str(int(base))] + [str(t) for t in tags])
    v = int(hashlib.blake2b(key.encode(), digest_size=8).hexdigest(), 16) % SEED_MOD
    if v == int(base):
        v = (v + 1) % SEED_MOD
    return v


# ---------------------------------------------------------------------------------------------
# p-values
# ---------------------------------------------------------------------------------------------
def _norm_two_sided(z):
    """2 * (1 - Phi(|z|)) without cancellation."""
    return float(special.erfc(abs(float(z)) / math.sqrt(2.0)))


def ks_uniform(u):
    """Two-sided Kolmogorov-Smirnov test of u ~ U(0,1). Returns (p, detail)."""
    u = np.asarray(u, dtype=float).ravel()
    n = u.size
    if n == 0:
        return None, 'empty'
    if np.any(~np.isfinite(u)):
        return 0.0, 'PIT value is not finite (%d of %d)' % (int(np.sum(~np.isfinite(u))), n)
    if np.any((u < 0) | (u > 1)):
        return 0.0, 'PIT value outside [0,1]'
    s = np.sort(u)
    i = np.arange(1, n + 1)
    dplus = float(np.max(i / n - s))
    dminus = float(np.max(s - (i - 1) / n))
    d = max(dplus, dminus)
    # asymptotic Kolmogorov distribution (n >= 1000 in every use); sf is accurate in the far tail
    p = float(sps.kstwobign.sf(d * (math.sqrt(n) + 0.12 + 0.11 / math.sqrt(n))))
    return min(1.0, p), 'KS distance %.4f (n=%d), fraction at 0: %.4f, at 1: %.4f' % (
        d, n, float(np.mean(u <= 0.0)), float(np.mean(u >= 1.0)))


def z_mean(r):
    """r: values standardised with the REFERENCE mean and standard deviation (mean 0, variance 1
    under the null; need not be identically distributed)."""
    r = np.asarray(r, dtype=float).ravel()
    n = r.size
    if n == 0:
        return None, 'empty'
    if np.any(~np.isfinite(r)):
        return 0.0, 'standardised value is not finite'
    z = float(np.mean(r)) * math.sqrt(n)
    return _norm_two_sided(z), 'mean of standardised samples %.5f (z=%.2f, n=%d)' % (float(np.mean(r)), z, n)


def z_var(r, kurt_excess=0.0):
    """Second moment of values standardised with the reference moments equals 1. kurt_excess is the
    reference excess kurtosis (scalar or per value): Var(r^2) = kurt_excess + 2."""
    r = np.asarray(r, dtype=float).ravel()
    n = r.size
    if n == 0:
        return None, 'empty'
    if np.any(~np.isfinite(r)):
        return 0.0, 'standardised value is not finite'
    k = np.broadcast_to(np.asarray(kurt_excess, dtype=float), r.shape)
    if np.any(~np.isfinite(k)) or np.any(k + 2.0 <= 0):
        return None, 'reference kurtosis unavailable'
    if float(np.max(k)) > 12.0:
        return None, 'reference too heavy-tailed for a variance z-test'
    m2 = float(np.mean(r ** 2))
    se = math.sqrt(float(np.mean(k + 2.0)) / n)
    z = (m2 - 1.0) / se
    return _norm_two_sided(z), 'variance ratio sample/reference %.5f (z=%.2f, n=%d)' % (m2, z, n)


def chi2_freq(counts, probs=None):
    """Pearson chi-square of observed category counts against probabilities (uniform if None)."""
    c = np.asarray(counts, dtype=float).ravel()
    k = c.size
    n = float(c.sum())
    if k < 2 or n <= 0:
        return None, 'fewer than two categories'
    p = np.full(k, 1.0 / k) if probs is None else np.asarray(probs, dtype=float).ravel()
    p = p / p.sum()
    e = n * p
    if np.any(e < 5):
        return None, 'expected count below 5'
    x2 = float(np.sum((c - e) ** 2 / e))
    return float(sps.chi2.sf(x2, k - 1)), 'chi2=%.2f (dof %d), frequencies %s expected %s' % (
        x2, k - 1, np.round(c / n, 4).tolist(), np.round(p, 4).tolist())


def _corr(a, b):
    a = a - a.mean()
    b = b - b.mean()
    den = math.sqrt(float(a @ a) * float(b @ b))
    if den == 0:
        return None
    return float(a @ b) / den


def corr_pearson(a, b):
    a = np.asarray(a, dtype=float).ravel()
    b = np.asarray(b, dtype=float).ravel()
    n = a.size
    if n < 10 or b.size != n:
        return None, 'too few pairs'
    if np.any(~np.isfinite(a)) or np.any(~np.isfinite(b)):
        return 0.0, 'non-finite value'
    r = _corr(a, b)
    if r is None:
        return None, 'constant variable'
    if abs(r) >= 1.0 - 1e-12:
        return 0.0, 'correlation %.6f (n=%d): the two streams are identical up to scale' % (r, n)
    t = r * math.sqrt((n - 2) / (1.0 - r * r))
    return _norm_two_sided(t) if n > 1000 else float(2 * sps.t.sf(abs(t), n - 2)), \
        'correlation %.5f (n=%d pairs)' % (r, n)


def normal_scores(x):
    """Rank-based normal scores (van der Waerden), average ranks for ties."""
    x = np.asarray(x, dtype=float).ravel()
    rk = sps.rankdata(x)
    return special.ndtri(rk / (x.size + 1.0))


def corr_scores(a, b):
    """Distribution-free independence test for continuous (or tied) variables."""
    a = np.asarray(a, dtype=float).ravel()
    b = np.asarray(b, dtype=float).ravel()
    if a.size < 10 or a.size != b.size:
        return None, 'too few pairs'
    if np.any(~np.isfinite(a)) or np.any(~np.isfinite(b)):
        return 0.0, 'non-finite value'
    return corr_pearson(normal_scores(a), normal_scores(b))


def corr_max(E, cols_a, cols_b=None, max_cols=150):
    """Worst pairwise rank (normal-score) correlation between two sets of columns of E (within one set if cols_b is
    None), with a Bonferroni-adjusted two-sided p-value. Returns (p, detail, (a, b)) or (None, reason, None)."""
    E = np.asarray(E, dtype=float)
    n = E.shape[0]

    def pick(cols):
        cols = [c for c in cols if np.ptp(E[:, c]) > 0]
        if len(cols) > max_cols:
            idx = np.unique(np.linspace(0, len(cols) - 1, max_cols).astype(int))
            cols = [cols[i] for i in idx]
        return cols
    ca = pick(list(cols_a))
    cb = ca if cols_b is None else pick(list(cols_b))
    if n < 10 or not ca or not cb:
        return None, 'nothing to compare', None
    if not np.all(np.isfinite(E[:, sorted(set(ca) | set(cb))])):
        return 0.0, 'non-finite value', None

    def scores(cols):
        Z = np.column_stack([normal_scores(E[:, c]) for c in cols])
        Z = Z - Z.mean(axis=0)
        return Z / np.sqrt(np.sum(Z * Z, axis=0))
    A = scores(ca)
    B = A if cols_b is None else scores(cb)
    R = A.T @ B
    if cols_b is None:
        R = np.triu(R, k=1)
        n_pairs = len(ca) * (len(ca) - 1) // 2
    else:
        same = np.array([[a == b for b in cb] for a in ca])
        R = np.where(same, 0.0, R)
        n_pairs = int(np.sum(~same))
    if n_pairs == 0:
        return None, 'nothing to compare', None
    i, j = np.unravel_index(int(np.argmax(np.abs(R))), R.shape)
    r = float(R[i, j])
    if abs(r) >= 1.0 - 1e-12:
        return 0.0, 'columns %d and %d: correlation %.6f (n=%d): identical up to scale' % (ca[i], cb[j], r, n), (ca[i], cb[j])
    t = r * math.sqrt((n - 2) / (1.0 - r * r))
    p1 = _norm_two_sided(t) if n > 1000 else float(2 * sps.t.sf(abs(t), n - 2))
    return min(1.0, p1 * n_pairs), 'largest of %d pairwise correlations: columns %d and %d, r=%.5f (n=%d), p=%.3g before ' \
        'the Bonferroni factor' % (n_pairs, ca[i], cb[j], r, n, p1), (ca[i], cb[j])


# ---------------------------------------------------------------------------------------------
# two-stage driver
# ---------------------------------------------------------------------------------------------
class Finding(object):
    def __init__(self, key, stat, p1, p2, d1, d2, n1, n2, seeds):
        self.key, self.stat, self.p1, self.p2 = key, stat, p1, p2
        self.d1, self.d2, self.n1, self.n2, self.seeds = d1, d2, n1, n2, seeds

    def text(self):
        return '%s [%s]: stage 1 (n=%d, seed %d) p=%.3g: %s; stage 2 (n=%d, seed %d) p=%.3g: %s' % (
            self.key, self.stat, self.n1, self.seeds[0], self.p1, self.d1,
            self.n2, self.seeds[1], self.p2, self.d2)


class Result(object):
    """evaluated: keys whose stage-1 p-value was available; findings: confirmed at stage 2;
    suspects: keys that were re-tested."""
    def __init__(self):
        self.evaluated = []
        self.suspects = []
        self.findings = []
        self.stage2 = False

    def for_prefix(self, prefix):
        return [f for f in self.findings if f.key[0] == prefix]


def two_stage(draw, tests, seed, n1, factor=STAGE2_FACTOR, p1=P_STAGE1, p2=P_STAGE2, stage2_tag='stage2'):
    """draw(n, seed) -> data (calls chi's samplers with that integer seed);
    tests(data) -> dict key -> (p, stat_name, detail); key is a tuple whose first entry is the
    clause the statistic belongs to. Returns a Result."""
    res = Result()
    seed = int(seed)
    out1 = tests(draw(int(n1), seed))
    suspects = []
    for key, (p, stat, detail) in out1.items():
        if p is None:
            continue
        res.evaluated.append(key)
        if not (p >= p1):           # also catches nan
            suspects.append(key)
    res.suspects = suspects
    if not suspects:
        return res
    seed2 = derive_seed(seed, stage2_tag)
    n2 = int(factor * n1)
    out2 = tests(draw(n2, seed2))
    res.stage2 = True
    for key in suspects:
        if key not in out2:
            continue
        p_2, stat, d2 = out2[key]
        if p_2 is None:
            continue
        if not (p_2 >= p2):
            pa, _, d1 = out1[key]
            res.findings.append(Finding(key, stat, pa, p_2, d1, d2, int(n1), n2, (seed, seed2)))
    return res


def confirm_twice(pred, seeds):
    """For 'must differ' clauses that can coincide by chance with tiny probability (e.g. a sampler
    that re-seeds from an integer in [0, 1e6)): pred(seed) -> bool 'violated'. Reported only if it is
    violated for every seed of the list (independent repetitions)."""
    return all(bool(pred(s)) for s in seeds)
