"""Generated SBML: linear compartmental models with a closed-form solution.

mspec (JSON-able):
  {'comps':   [{'id': 'zeta', 'size': 1.3, 'sid': 'drug'}],      one species (amount) per compartment
   'gstates': [{'id': 'w', 'init': 1.5}],                         global states (rateRule on a parameter)
   'consts':  [{'id': 'k_a', 'value': 0.7}],                      literal constants
   'derived': [{'id': 'kd', 'a': 'k_a', 'b': 'k_b'}],             non-literal constants (product)
   'flows':   [{'src': i, 'dst': j or None, 'rate': id}],          first-order transfer src -> dst / elimination
   'inter':   [{'id': 'obs', 'terms': [[coef, state index], ...]}],intermediate = linear combination of states
   'perm':    {'species': [...], 'params': [...], 'rules': [...]}  declaration order (permutations)}
States are indexed: compartment species first (in 'comps' order), then global states.

Naming convention of myokit's SBML importer (observed, and asserted by `names_check`): species s in
compartment c -> 'c.s_amount' and 'c.s_concentration' (= amount / c.size); compartment size -> 'c.size';
parameter p -> 'global.p'.
"""
import os
import tempfile

import numpy as np
from hypothesis import strategies as st
from scipy.linalg import expm

from vf import gen

NAME_POOL = ['alpha', 'zeta', 'Zed', 'm1', 'b_2', 'Kx', 'aa', 'Y', 'beta9', 'c', 'Q_', 'delta', 'x0', 'B', 'mu', 'tau']
MATH = 'xmlns="http://www.w3.org/1998/Math/MathML"'


# ---------------------------------------------------------------------------------------
# strategy
# ---------------------------------------------------------------------------------------
EXTRA_POOL = ['nu', 'K2', 'rho_', 'w9', 'Psi', 'h', 'j_1', 'Omega', 'e5', 'Lm', 'q', 'Tz', 'u_u', 'G7']


def draw_model(draw, max_states=5, big=False):
    """big: a model with 8-9 states and 6-8 constants (more than 16 published parameters)."""
    names = list(draw(st.permutations(NAME_POOL)))
    if big:
        names = list(draw(st.permutations(EXTRA_POOL))) + names
    n_comp = draw(st.integers(1, 3))
    n_g = draw(st.integers(8 - n_comp, 9 - n_comp)) if big else draw(st.integers(0, max(0, max_states - n_comp)))
    n_states = n_comp + n_g
    comps = [dict(id=names.pop(), size=draw(gen.logu(0.3, 5.0)), sid=None) for _ in range(n_comp)]
    for c in comps:
        c['sid'] = 'drug' if (c is comps[0] and draw(st.booleans())) else names.pop()
    gstates = [dict(id=names.pop(), init=draw(gen.logu(0.2, 5.0))) for _ in range(n_g)]
    n_const = draw(st.integers(6, 8)) if big else draw(st.integers(1, 4))
    consts = [dict(id=names.pop(), value=draw(gen.logu(0.05, 2.0))) for _ in range(n_const)]
    derived = []
    if n_const >= 2 and gen.chance(draw, 0.4):
        a, b = draw(st.permutations(range(n_const)))[:2]
        derived.append(dict(id=names.pop(), a=consts[a]['id'], b=consts[b]['id']))
    rate_ids = [c['id'] for c in consts] + [d['id'] for d in derived]
    flows = []
    # every state is the source of at least one flow, so it is a genuine state
    for i in range(n_states):
        dst = draw(st.sampled_from([None] + [j for j in range(n_states) if j != i]))
        flows.append(dict(src=i, dst=dst, rate=draw(st.sampled_from(rate_ids))))
    for _ in range(draw(st.integers(0, 3))):
        i = draw(st.integers(0, n_states - 1))
        dst = draw(st.sampled_from([None] + [j for j in range(n_states) if j != i]))
        flows.append(dict(src=i, dst=dst, rate=draw(st.sampled_from(rate_ids))))
    inter = []
    for _ in range(draw(st.integers(0, 2))):
        k = draw(st.integers(1, min(3, n_states)))
        idx = draw(st.permutations(range(n_states)))[:k]
        inter.append(dict(id=names.pop(), terms=[[draw(gen.logu(0.2, 3.0)), int(i)] for i in idx]))
    n_params = n_g + n_const + len(derived) + len(inter)
    n_rules = n_states + len(derived) + len(inter)
    perm = dict(species=list(draw(st.permutations(range(n_comp)))),
                params=list(draw(st.permutations(range(n_params)))),
                rules=list(draw(st.permutations(range(n_rules)))),
                comps=list(draw(st.permutations(range(n_comp)))))
    inits = [draw(gen.logu(0.2, 5.0)) for _ in range(n_comp)]
    for c, v in zip(comps, inits):
        c['init'] = v
    return dict(comps=comps, gstates=gstates, consts=consts, derived=derived, flows=flows, inter=inter, perm=perm)


# ---------------------------------------------------------------------------------------
# names
# ---------------------------------------------------------------------------------------
def state_qnames(ms):
    return ['%s.%s_amount' % (c['id'], c['sid']) for c in ms['comps']] + ['global.%s' % g['id'] for g in ms['gstates']]


def const_qnames(ms):
    """qname -> default value of every literal constant."""
    d = {}
    for c in ms['comps']:
        d['%s.size' % c['id']] = c['size']
    for k in ms['consts']:
        d['global.%s' % k['id']] = k['value']
    return d


def intermediate_qnames(ms):
    # (species are declared hasOnlySubstanceUnits, so the importer creates no concentration variable)
    return ['global.%s' % i['id'] for i in ms['inter']]


def depot(ms):
    """Name of the dose compartment an indirect administration adds: 'dose', or 'dose_1' when the model has a
    compartment of that name already (myokit's add_component_allow_renaming; asserted by c09 on the unchanged
    library)."""
    return 'dose_1' if any(c['id'] == 'dose' for c in ms['comps']) else 'dose'


def published_parameters(ms, admin=None):
    """The documented rule: initial values of states alphabetically, then constants
    alphabetically (recomputed here with sorted(), independently of chi).
    admin = None | {'comp': index, 'direct': bool}: an indirect route adds the depot state
    'dose.drug_amount' and the constant 'dose.absorption_rate'."""
    s = state_qnames(ms)
    c = list(const_qnames(ms))
    if admin is not None and not admin['direct']:
        s = s + [depot(ms) + '.drug_amount']
        c = c + [depot(ms) + '.absorption_rate']
    return sorted(s) + sorted(c)


def default_values(ms, admin=None):
    vals = {}
    for q, c in zip(state_qnames(ms), ms['comps'] + ms['gstates']):
        vals[q] = c['init']
    vals.update(const_qnames(ms))
    if admin is not None and not admin['direct']:
        vals[depot(ms) + '.drug_amount'] = 0.0
        vals[depot(ms) + '.absorption_rate'] = 1.0
    return vals


# ---------------------------------------------------------------------------------------
# SBML text
# ---------------------------------------------------------------------------------------
def _sym(ms, i):
    """SBML symbol of state i."""
    nc = len(ms['comps'])
    return ms['comps'][i]['sid'] + '__' + ms['comps'][i]['id'] if False else (
        _species_id(ms, i) if i < nc else ms['gstates'][i - nc]['id'])


def _species_id(ms, i):
    return ms['comps'][i]['sid']


def to_sbml(ms):
    nc = len(ms['comps'])
    n_states = nc + len(ms['gstates'])
    sid = [_sym(ms, i) for i in range(n_states)]
    if len(set(sid)) != len(sid):
        raise ValueError('duplicate symbols')

    def term(rate, i):
        return '<apply><times/><ci>%s</ci><ci>%s</ci></apply>' % (rate, sid[i])

    rhs = [[] for _ in range(n_states)]     # list of (sign, mathml)
    for f in ms['flows']:
        rhs[f['src']].append(('-', term(f['rate'], f['src'])))
        if f['dst'] is not None:
            rhs[f['dst']].append(('+', term(f['rate'], f['src'])))

    def summ(items):
        expr = None
        for sign, t in items:
            if expr is None:
                expr = t if sign == '+' else '<apply><minus/>%s</apply>' % t
            else:
                expr = '<apply><%s/>%s%s</apply>' % ('plus' if sign == '+' else 'minus', expr, t)
        return expr if expr is not None else '<cn>0</cn>'

    comps = ['<compartment id="%s" name="%s" size="%r" constant="true"/>' % (c['id'], c['id'], c['size'])
             for c in ms['comps']]
    comps = [comps[i] for i in ms['perm']['comps']]
    species = ['<species id="%s" name="%s" compartment="%s" initialAmount="%r" hasOnlySubstanceUnits="true" '
               'boundaryCondition="true" constant="false"/>' % (c['sid'], c['sid'], c['id'], c['init'])
               for c in ms['comps']]
    species = [species[i] for i in ms['perm']['species']]
    params = ['<parameter id="%s" value="%r" constant="false"/>' % (g['id'], g['init']) for g in ms['gstates']]
    params += ['<parameter id="%s" value="%r" constant="true"/>' % (k['id'], k['value']) for k in ms['consts']]
    params += ['<parameter id="%s" constant="false"/>' % d['id'] for d in ms['derived']]
    params += ['<parameter id="%s" constant="false"/>' % i['id'] for i in ms['inter']]
    params = [params[i] for i in ms['perm']['params']]
    rules = ['<rateRule variable="%s"><math %s>%s</math></rateRule>' % (sid[i], MATH, summ(rhs[i]))
             for i in range(n_states)]
    rules += ['<assignmentRule variable="%s"><math %s><apply><times/><ci>%s</ci><ci>%s</ci></apply></math>'
              '</assignmentRule>' % (d['id'], MATH, d['a'], d['b']) for d in ms['derived']]
    for it in ms['inter']:
        items = [('+', '<apply><times/><cn>%r</cn><ci>%s</ci></apply>' % (c, sid[i])) for c, i in it['terms']]
        rules.append('<assignmentRule variable="%s"><math %s>%s</math></assignmentRule>' % (it['id'], MATH, summ(items)))
    rules = [rules[i] for i in ms['perm']['rules']]
    return '\n'.join([
        '<?xml version="1.0" encoding="UTF-8"?>',
        '<sbml xmlns="http://www.sbml.org/sbml/level3/version2/core" level="3" version="2">',
        '<model id="generated" timeUnits="second">',
        '<listOfCompartments>'] + comps + ['</listOfCompartments>', '<listOfSpecies>'] + species + [
        '</listOfSpecies>', '<listOfParameters>'] + params + ['</listOfParameters>', '<listOfRules>'] + rules + [
        '</listOfRules>', '</model>', '</sbml>'])


import contextlib


@contextlib.contextmanager
def model_file(ms):
    """Context manager: path of a scratch SBML file, removed on exit (myokit only reads it
    while the chi model is constructed)."""
    d = os.path.join(tempfile.gettempdir(), 'vf_sbml')
    os.makedirs(d, exist_ok=True)
    fd, path = tempfile.mkstemp(suffix='.xml', prefix='m%d_' % os.getpid(), dir=d)
    try:
        with os.fdopen(fd, 'w') as f:
            f.write(to_sbml(ms))
        yield path
    finally:
        try:
            os.remove(path)
        except OSError:
            pass


def build(ms, cls=None):
    """chi model (SBMLModel by default) from a generated spec."""
    import chi
    cls = cls or chi.SBMLModel
    with model_file(ms) as path:
        return cls(path)


def model_state_order(ms):
    """State qnames in the order of the imported myokit model (declaration order)."""
    import myokit.formats.sbml as sbml
    with model_file(ms) as path:
        m = sbml.SBMLImporter().model(path)
    return [v.qname() for v in m.states()]


# ---------------------------------------------------------------------------------------
# closed-form reference
# ---------------------------------------------------------------------------------------
def regimen_events(dose, start, duration, period, num, t_end):
    """Dose events (start, duration, rate) scheduled by the regimen up to t_end -- built from
    the regimen arguments only. period None/0 => single dose; num None/0 => indefinitely."""
    rate = dose / duration
    if not period:
        return [(start, duration, rate)] if start <= t_end else []
    ev = []
    k = 0
    while True:
        s = start + k * period
        if s > t_end or (num and k >= num):
            break
        ev.append((s, duration, rate))
        k += 1
    return ev


def ref_simulate(ms, theta, times, outputs, admin=None, events=None):
    """Closed-form solution at `times` for the outputs (qnames), with the i-th entry of theta
    assigned to the i-th published parameter name. Complex-safe in theta.
    admin = {'comp': i, 'direct': bool} | None; events = [(start, duration, rate), ...]."""
    theta = np.asarray(theta)
    names = published_parameters(ms, admin)
    if len(theta) != len(names):
        raise ValueError('ref_simulate: expected %d parameters' % len(names))
    val = dict(zip(names, theta))
    sq = state_qnames(ms)
    n = len(sq)
    depot_name = depot(ms)
    has_depot = admin is not None and not admin['direct']
    N = n + (1 if has_depot else 0)
    cplx = np.iscomplexobj(theta)
    dt = complex if cplx else float
    rate = {}
    for k in ms['consts']:
        rate[k['id']] = val['global.%s' % k['id']]
    for d in ms['derived']:
        rate[d['id']] = rate[d['a']] * rate[d['b']]
    M = np.zeros((N, N), dtype=dt)
    for f in ms['flows']:
        r = rate[f['rate']]
        M[f['src'], f['src']] -= r
        if f['dst'] is not None:
            M[f['dst'], f['src']] += r
    b = np.zeros(N, dtype=dt)
    x0 = np.array([val[q] for q in sq] + ([val[depot_name + '.drug_amount']] if has_depot else []), dtype=dt)
    if admin is not None:
        if has_depot:
            ka = val[depot_name + '.absorption_rate']
            M[n, n] -= ka
            M[admin['comp'], n] += ka
            b[n] = 1.0
        else:
            b[admin['comp']] = 1.0
    times = np.asarray(times, dtype=float)
    events = sorted(events or [])
    # break points
    bps = sorted({0.0} | {e[0] for e in events} | {e[0] + e[1] for e in events})

    def u_at(t):
        tot = 0.0
        for s, d, r in events:
            if s <= t < s + d:
                tot += r
        return tot

    # propagate through break points, evaluating requested times on the way
    X = np.zeros((len(times), N), dtype=dt)
    order = np.argsort(times, kind='stable')
    x = x0.copy()
    t = 0.0
    pos = 0
    bps = [p for p in bps if p > 0] + [np.inf]
    for nxt in bps:
        u = u_at(t)
        A = np.zeros((N + 1, N + 1), dtype=dt)
        A[:N, :N] = M
        A[:N, N] = b * u
        while pos < len(times) and times[order[pos]] < nxt:
            tt = times[order[pos]]
            E = expm(A * (tt - t))
            X[order[pos]] = E[:N, :N] @ x + E[:N, N]
            pos += 1
        if pos >= len(times) or not np.isfinite(nxt):
            break
        E = expm(A * (nxt - t))
        x = E[:N, :N] @ x + E[:N, N]
        t = nxt
    out = np.zeros((len(outputs), len(times)), dtype=dt)
    for r, q in enumerate(outputs):
        if q in sq:
            out[r] = X[:, sq.index(q)]
        elif q == depot_name + '.drug_amount' and has_depot:
            out[r] = X[:, n]
        else:
            found = False
            for it in ms['inter']:
                if q == 'global.%s' % it['id']:
                    for coef, i in it['terms']:
                        out[r] = out[r] + coef * X[:, i]
                    found = True
            if not found:
                raise ValueError('ref_simulate: unknown output %r' % q)
    return out


def structure(ms):
    return [len(ms['comps']), len(ms['gstates']), len(ms['consts']), len(ms['derived']),
            [[f['src'], f['dst']] for f in ms['flows']], [len(i['terms']) for i in ms['inter']]]


def max_out_rate(ms, theta, admin=None):
    """Largest total first-order loss rate of any state (incl. depot) for the parameter vector
    theta (published order): bounds how fast solutions can decay."""
    names = published_parameters(ms, admin)
    val = dict(zip(names, [float(np.real(v)) for v in theta]))
    rate = {k['id']: val['global.%s' % k['id']] for k in ms['consts']}
    for d in ms['derived']:
        rate[d['id']] = rate[d['a']] * rate[d['b']]
    n = len(state_qnames(ms))
    loss = [0.0] * n
    for f in ms['flows']:
        loss[f['src']] += abs(rate[f['rate']])
    m = max(loss) if loss else 0.0
    if admin is not None and not admin['direct']:
        m = max(m, abs(val[depot(ms) + '.absorption_rate']))
    return m
