#!/venv/bin/python
"""Sensitivity mutants for C15 (tools/mut.py cannot be used while /repo still has the C15 defects: every mutant
would be "killed" by the genuine buckets).

usage: tools/mut_c15.py [--base] [M1 M2 ...] [-- extra ./check arguments]
Copies chi from $VERIF_CHI_PATH or /repo to a temporary directory, applies the proposed C15 fix
(tools/patches/c15_fix.diff) when it still applies (so that the base is quiet), applies one mutant (n-th occurrence of
a pattern in chi/_predictive_models.py) and runs ./check C15 --no-evidence --no-shrink. `--base` runs the fixed base
without a mutant. /repo is never touched.
"""
import os, shutil, subprocess, sys, tempfile

HERE = os.path.dirname(os.path.abspath(__file__))
BASE = os.path.join(os.environ.get('VERIF_CHI_PATH', '/repo'), 'chi')
PM = '_predictive_models.py'

# name: (description, old, new, occurrence (1-based))
MUTANTS = {
    'M1': ('posterior predictive: rng.choice per column instead of per row (no joint draw)',
           'parameters = rng.choice(posterior)\n',
           'parameters = np.array([rng.choice(posterior[:, j]) for j in range(posterior.shape[1])])\n', 1),
    'M2': ('posterior predictive: selected individual ignored (first individual always)',
           "posterior[:, param_id] = self._posterior[parameter].sel(\n                    individual=individual)",
           "posterior[:, param_id] = self._posterior[parameter].isel(\n                    individual=0)", 1),
    'M3': ('posterior predictive: default individual is the last instead of the first',
           'individual = str(ids.data[0])', 'individual = str(ids.data[-1])', 1),
    'M4': ('population predictive: compute_individual_parameters skipped (raw eta for non-centred dimensions)',
           'patients = self._compute_individual_parameters(\n            parameters, patients, covariates)',
           'patients = np.asarray(patients)', 1),
    'M5': ('PAM: ID shift omitted', "s['ID'] += int(np.sum(samples_per_model[:model_id]))", "s['ID'] += 0", 1),
    'M6': ('PAM: weights ignored', 'model_indices, p=self._weights, size=n_samples)', 'model_indices, size=n_samples)', 1),
    'M7': ('PredictiveModel.sample: times not sorted', 'times = np.sort(times)', 'times = np.asarray(times)', 2),
    'M8': ('PopulationPredictiveModel.sample: times not sorted', 'times = np.sort(times)', 'times = np.asarray(times)', 3),
    'M9': ('PriorPredictiveModel.sample: times not sorted', 'times = np.sort(times)', 'times = np.asarray(times)', 4),
    'M10': ('prior predictive: every observable labelled with the values of the first output',
            "'Value': sample[output_id, :, 0]})])", "'Value': sample[0, :, 0]})])", 2),
    'M11': ('population predictive data frame: sample ids attached in reverse order',
            'sample_ids[np.newaxis, np.newaxis, :],\n            shape=(n_outputs, n_times, n_samples)).flatten()',
            'sample_ids[np.newaxis, np.newaxis, ::-1],\n            shape=(n_outputs, n_times, n_samples)).flatten()', 1),
    'M12': ('population predictive data frame: covariate rows carry the first covariate',
            "'Value': covariates[..., idc]})])", "'Value': covariates[..., 0]})])", 1),
    'M13': ('prior predictive: one parameter set for all sample ids',
            'parameters = self._log_prior.sample().flatten()\n',
            "parameters = self._log_prior.sample().flatten() if sample_id == 1 else parameters\n", 1),
    'M14': ('dose rows of PredictiveModel attached to the first sample id only',
            "regimen['ID'] = _id\n                samples = pd.concat([samples, regimen])",
            "regimen['ID'] = 1\n                samples = pd.concat([samples, regimen])", 1),
    'M15': ('posterior predictive: always the first draw of the first chain',
            'parameters = rng.choice(posterior)\n', 'parameters = posterior[0]\n', 1),
}


def replace_nth(s, old, new, n):
    pos = -1
    for _ in range(n):
        pos = s.find(old, pos + 1)
        if pos < 0:
            return None
    return s[:pos] + new + s[pos + len(old):]


def run(name, rest):
    d = tempfile.mkdtemp(prefix='chimut15_')
    try:
        shutil.copytree(BASE, os.path.join(d, 'chi'), ignore=shutil.ignore_patterns('__pycache__', 'tests'))
        fix = os.path.join(HERE, 'patches', 'c15_fix.diff')
        dry = subprocess.run(['patch', '-p1', '--dry-run', '-s', '-i', fix], cwd=d, capture_output=True, text=True)
        if dry.returncode == 0:
            subprocess.run(['patch', '-p1', '-s', '-i', fix], cwd=d, check=True)
        if name is not None:
            desc, old, new, nth = MUTANTS[name]
            p = os.path.join(d, 'chi', PM)
            s = replace_nth(open(p).read(), old, new, nth)
            if s is None:
                print('%s MUTANT-ERROR: pattern not found' % name)
                return
            open(p, 'w').write(s)
        env = dict(os.environ, VERIF_CHI_PATH=d)
        r = subprocess.run(['/verif/check', 'C15', '--no-evidence', '--no-shrink'] + rest, env=env,
                           capture_output=True, text=True)
        out = [ln for ln in r.stdout.strip().splitlines() if ln.lstrip().startswith('bucket') or 'HARNESS' in ln]
        verdict = 'KILLED' if r.returncode == 1 else 'SURVIVED' if r.returncode == 0 else 'HARNESS-ERROR'
        print('%s %s: %s' % (name or 'BASE', verdict if name else ('quiet' if r.returncode == 0 else 'exit %d' % r.returncode),
                             MUTANTS[name][0] if name else 'fixed base'))
        for ln in out[:4]:
            print('     ' + ln.strip()[:260])
    finally:
        shutil.rmtree(d, ignore_errors=True)


def main():
    args = sys.argv[1:]
    rest = []
    if '--' in args:
        rest = args[args.index('--') + 1:]
        args = args[:args.index('--')]
    if '--base' in args:
        run(None, rest)
        args = [a for a in args if a != '--base']
        if not args:
            return
    for name in (args or sorted(MUTANTS, key=lambda k: int(k[1:]))):
        run(name, rest)


main()
