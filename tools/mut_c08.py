#!/venv/bin/python
"""Sensitivity mutants for C08 (tools/mut.py cannot be used while /repo still has the C08 defects: every mutant
would be "killed" by the genuine buckets, and several mutated texts occur once per Reduced* class).

usage: tools/mut_c08.py [--base] [M1 M2 ...] [-- extra ./check arguments]
Copies chi from $VERIF_CHI_PATH or /repo to a temporary directory, applies the proposed C08 repairs when the
unfixed text is still present (so that the base is quiet), applies one mutant (n-th occurrence of a pattern) and
runs ./check C08 --no-evidence --no-shrink. `--base` runs the repaired base without a mutant. /repo is never touched.
"""
import os, shutil, subprocess, sys, tempfile

BASE = os.path.join(os.environ.get('VERIF_CHI_PATH', '/repo'), 'chi')
EM, MM, PM, LP, PR, PB = ('_error_models.py', '_mechanistic_models.py', '_population_models.py', '_log_pdfs.py',
                          '_predictive_models.py', '_problems.py')

# ---- proposed repairs (no-ops when already applied) ---------------------------------------------------
FIXES = [
    (PM, """            self._fixed_params_values[~self._fixed_params_mask] = parameters
            parameters = self._fixed_params_values

        return self._population_model.compute_individual_parameters(""",
     """            self._fixed_params_values[~self._fixed_params_mask] = parameters
            parameters = self._fixed_params_values.copy()

        return self._population_model.compute_individual_parameters("""),
    (PM, """            self._fixed_params_values[~self._fixed_params_mask] = parameters
            parameters = self._fixed_params_values

        # Sample from population model""",
     """            self._fixed_params_values[~self._fixed_params_mask] = parameters
            parameters = self._fixed_params_values.copy()

        # Sample from population model"""),
    (PM, """            names = np.array(
                self._population_model.get_parameter_names(), dtype='U50')
            names[~self._fixed_params_mask] = parameter_names""",
     """            names = np.array(
                self._population_model.get_parameter_names(
                    exclude_dim_names=True), dtype='U50')
            names[~self._fixed_params_mask] = parameter_names"""),
]

REFIX_OLD = """            self._fixed_params_mask[index] = value is not None
            self._fixed_params_values[index] = value"""
REFIX_NEW = """            if (value is None) or (not self._fixed_params_mask[index]):
                self._fixed_params_values[index] = value
            self._fixed_params_mask[index] = value is not None"""

# name -> (file, old, new, occurrence (0-based), description)
MUTANTS = {
    'M1': (EM, """        if self._fixed_params_mask is not None:
            self._fixed_params_values[~self._fixed_params_mask] = parameters
            parameters = self._fixed_params_values

        score = self._error_model.compute_log_likelihood(""", """        if self._fixed_params_mask is not None:
            parameters = self._fixed_params_values

        score = self._error_model.compute_log_likelihood(""", 0,
           'ReducedErrorModel.compute_log_likelihood: value buffer not rewritten on evaluation '
           '(the same mutant in ReducedMechanisticModel.simulate feeds uninitialised memory to the ODE solver: watchdog)'),
    'M2': (EM, "            self._fixed_params_mask[index] = value is not None",
           "            self._fixed_params_mask[index] = True", 0,
           'ReducedErrorModel.fix_parameters: mask not cleared on release'),
    'M3': (EM, "        mask[-self._n_parameters:] = ~self._fixed_params_mask",
           "        mask[-self._n_parameters:] = self._fixed_params_mask", 0,
           'ReducedErrorModel.compute_sensitivities filtered with the complement mask'),
    'M4': (PM, "            return score, dpsi, dtheta[~self._fixed_params_mask]",
           "            return score, dpsi, dtheta[self._fixed_params_mask]", 0,
           'ReducedPopulationModel.compute_sensitivities (separate form) filtered with the complement mask'),
    'M5': (MM, "            names = names[~self._fixed_params_mask]\n", "            names = names[:]\n", 0,
           'ReducedMechanisticModel.parameters: names not filtered'),
    'M6': (PM, REFIX_OLD, REFIX_NEW, 0, 'ReducedPopulationModel.fix_parameters: re-fix keeps the old value'),
    'M7': (MM, REFIX_OLD, REFIX_NEW, 0, 'ReducedMechanisticModel.fix_parameters: re-fix keeps the old value'),
    'M8': (PB, """        # Reset priors
        self._log_prior = None""", """        # Reset priors
        pass""", 0, 'ProblemModellingController.fix_parameters forgets to reset the prior'),
    'M9': (MM, """        if self.has_sensitivities() is True:
            self.enable_sensitivities(True)""", """        if self.has_sensitivities() is True:
            pass""", 0, 'ReducedMechanisticModel.fix_parameters does not refresh the sensitivity columns'),
    'M10': (LP, """        self._error_models = error_models

        # Update names and number of parameters
        self._set_number_and_parameter_names()""", """        self._error_models = error_models""", 0,
            'LogLikelihood.fix_parameters does not update names / counts'),
    'M11': (PR, """        # Safe reduced models
        self._population_model = pop_model""", """        # Safe reduced models
        pass""", 0, 'PopulationPredictiveModel.fix_parameters drops the reduced population model'),
    'M12': (PB, """            # Unfix model parameters
            self._population_model = \\
                self._population_model.get_population_model()""", """            # Unfix model parameters
            pass""", 0, 'ProblemModellingController.set_data does not un-fix population parameters'),
    'M13': (EM, "        if self._fixed_params_mask is None:\n            self._fixed_params_mask = np.zeros(",
            "        if True:\n            self._fixed_params_mask = np.zeros(", 0,
            'ReducedErrorModel.fix_parameters: every call forgets the parameters fixed earlier (order dependence)'),
    'M14': (MM, "        model = copy.deepcopy(self)\n\n        # Replace mechanistic model",
            "        model = copy.copy(self)\n\n        # Replace mechanistic model", 0,
            'ReducedMechanisticModel.copy shares mask and value buffer with the original'),
    'M15': (EM, """        if self._fixed_params_mask is not None:
            self._fixed_params_values[~self._fixed_params_mask] = parameters
            parameters = self._fixed_params_values

        # Sample from error model""", """        if self._fixed_params_mask is not None:
            parameters = self._fixed_params_values

        # Sample from error model""", 0, 'ReducedErrorModel.sample: value buffer not rewritten (stale free values)'),
    'M16': (PM, "        dtheta = dscore[n_bottom:][~self._fixed_params_mask]",
            "        dtheta = dscore[n_bottom:][self._fixed_params_mask]", 0,
            'ReducedPopulationModel.compute_sensitivities (reduce=True) filtered with the complement mask'),
    'M17': (PR, """        # Fix model parameters
        mechanistic_model.fix_parameters(name_value_dict)
        for error_model in error_models:
            error_model.fix_parameters(name_value_dict)""", """        # Fix model parameters
        mechanistic_model.fix_parameters(name_value_dict)
        for error_model in error_models[:1]:
            error_model.fix_parameters(name_value_dict)""", 0,
            'PredictiveModel.fix_parameters only reaches the first error model'),
}


def replace_nth(s, old, new, k):
    pos = -1
    for _ in range(k + 1):
        pos = s.find(old, pos + 1)
        if pos < 0:
            return None
    return s[:pos] + new + s[pos + len(old):]


def main():
    args = sys.argv[1:]
    extra = []
    if '--' in args:
        i = args.index('--')
        args, extra = args[:i], args[i + 1:]
    base_only = '--base' in args
    names = [a for a in args if a != '--base'] or (list(MUTANTS) if not base_only else [])
    jobs = [None] if base_only else names
    rc_all = 0
    for name in jobs:
        d = tempfile.mkdtemp(prefix='chimut_c08_')
        try:
            shutil.copytree(BASE, os.path.join(d, 'chi'), ignore=shutil.ignore_patterns('__pycache__', 'tests'))
            for rel, old, new in FIXES:
                p = os.path.join(d, 'chi', rel)
                s = open(p).read()
                if s.count(old) == 1:
                    open(p, 'w').write(s.replace(old, new))
            if name is not None:
                rel, old, new, k, what = MUTANTS[name]
                p = os.path.join(d, 'chi', rel)
                s = replace_nth(open(p).read(), old, new, k)
                if s is None:
                    print('%s MUTANT-ERROR: pattern not found (%s)' % (name, what))
                    rc_all = 3
                    continue
                open(p, 'w').write(s)
            env = dict(os.environ, VERIF_CHI_PATH=d)
            r = subprocess.run(['/verif/check', 'C08', '--no-evidence', '--no-shrink'] + extra, env=env,
                               capture_output=True, text=True)
            out = [l for l in r.stdout.strip().splitlines() if l.startswith('  bucket') or l.startswith('HARNESS')]
            verdict = 'KILLED' if r.returncode == 1 else 'SURVIVED' if r.returncode == 0 else 'HARNESS-ERROR'
            if name is None:
                print('BASE exit %d (%s)' % (r.returncode, 'quiet' if r.returncode == 0 else 'NOT QUIET'))
            else:
                print('%s %s  [%s]' % (name, verdict, MUTANTS[name][4]))
            for l in out[:3]:
                print('     ' + l.strip()[:230])
            if verdict != 'KILLED' and name is not None:
                rc_all = 1
        finally:
            shutil.rmtree(d, ignore_errors=True)
    return rc_all


sys.exit(main())
