#!/venv/bin/python
"""Verify an independently seeded change and run checks against it.

usage: tools/seedcheck.py <seed dir> <comma separated check ids> [--tier quick] [--no-tests]
The seed dir (patch.diff, demo.py, meta.json) lives inside a scratch git worktree of /repo (its parent dir).
Steps: unchanged tree -> demo must exit 0; patch applied -> demo must exit != 0, the 346 stable tests must still
pass, then the named checks are run with VERIF_CHI_PATH=<worktree>; finally the worktree is restored.
"""
import json, os, subprocess, sys, tempfile
import xml.etree.ElementTree as ET

seed = os.path.abspath(sys.argv[1])
checks = sys.argv[2].split(',')
tier = 'quick'
if '--tier' in sys.argv:
    tier = sys.argv[sys.argv.index('--tier') + 1]
wt = os.path.dirname(seed)
res = dict(seed=seed, checks={})

def sh(cmd, **kw):
    return subprocess.run(cmd, shell=True, capture_output=True, text=True, **kw)

sh('git -C %s checkout -- chi' % wt)
r = sh('cd %s && /venv/bin/python %s/demo.py' % (wt, os.path.basename(seed)))
res['demo_unchanged_rc'] = r.returncode
a = sh('git -C %s apply %s/patch.diff' % (wt, seed))
res['apply_rc'] = a.returncode
if a.returncode != 0:
    res['apply_err'] = a.stderr[-300:]
try:
    r = sh('cd %s && /venv/bin/python %s/demo.py' % (wt, os.path.basename(seed)))
    res['demo_patched_rc'] = r.returncode
    res['demo_patched_out'] = (r.stdout + r.stderr)[-400:]
    if '--no-tests' not in sys.argv:
        b = json.load(open('/root/.vp/BASELINE.json'))
        fd, path = tempfile.mkstemp(suffix='.xml'); os.close(fd)
        sh('cd %s && /venv/bin/python -m pytest -q -p no:cacheprovider --timeout=900 --continue-on-collection-errors '
           '--junitxml=%s chi/tests' % (wt, path))
        passed = set()
        for tc in ET.parse(path).getroot().iter('testcase'):
            if not any(ch.tag in ('failure', 'error', 'skipped') for ch in tc):
                passed.add('%s::%s' % (tc.get('classname'), tc.get('name')))
        os.remove(path)
        res['stable_missing'] = sorted(set(b['stable_pass']) - passed)
        res['n_passed'] = len(passed)
    for c in checks:
        env = dict(os.environ, VERIF_CHI_PATH=wt)
        r = subprocess.run(['/verif/check', c, '--tier', tier, '--no-evidence', '--no-shrink'], env=env,
                           capture_output=True, text=True)
        lines = [l for l in r.stdout.splitlines() if l.startswith('  bucket') or l.startswith('VIOLATION') or 'HARNESS' in l]
        res['checks'][c] = dict(rc=r.returncode, lines=[l[:260] for l in lines[:6]])
finally:
    sh('git -C %s checkout -- chi' % wt)
print(json.dumps(res, indent=1))
