#!/venv/bin/python
"""Sensitivity helper: run a check against a mutated scratch copy of chi.

usage: tools/mut.py <PROP> <file relative to chi/> <old> <new> [--tier quick] [--examples N]
The scratch copy lives under /tmp and is removed afterwards. /repo is never touched.
"""
import os, shutil, subprocess, sys, tempfile

def main():
    prop, rel, old, new = sys.argv[1:5]
    rest = sys.argv[5:]
    d = tempfile.mkdtemp(prefix='chimut_')
    try:
        shutil.copytree('/repo/chi', os.path.join(d, 'chi'), ignore=shutil.ignore_patterns('__pycache__', 'tests'))
        p = os.path.join(d, 'chi', rel)
        s = open(p).read()
        if s.count(old) != 1:
            print('MUTANT-ERROR: pattern occurs %d times' % s.count(old)); return 3
        open(p, 'w').write(s.replace(old, new))
        env = dict(os.environ, VERIF_CHI_PATH=d)
        r = subprocess.run(['/verif/check', prop, '--no-evidence'] + rest, env=env, capture_output=True, text=True)
        out = r.stdout.strip().splitlines()
        print('\n'.join(out[-8:]))
        print('exit', r.returncode, '=> mutant', 'KILLED' if r.returncode == 1 else 'SURVIVED' if r.returncode == 0 else 'HARNESS-ERROR')
        return 0
    finally:
        shutil.rmtree(d, ignore_errors=True)

sys.exit(main())
