#!/bin/sh
# Runs every thorough check sequentially (used with `vp run`); prints one summary block per property.
cd "$(dirname "$0")/.."
./setup.sh >/dev/null 2>&1
for p in ${PROPS:-C01 C02 C03 C04 C05 C06 C07 C08 C09 C10 C11 C12 C13 C14 C15 C16 C17 C18 C19 C20}; do
  echo "=== $p $(date +%H:%M:%S)"
  VERIF_SEED=${VERIF_SEED:-1} ./check $p --tier thorough > evidence/.thorough_$p.out 2>&1; rc=$?
  grep -v "^  classes\|^  clauses" evidence/.thorough_$p.out | cut -c1-600; rm -f evidence/.thorough_$p.out
  echo "=== $p rc=$rc done $(date +%H:%M:%S)"
  for f in evidence/replay_${p}_*.json; do [ -f "$f" ] && { echo "--- $f"; head -c 3000 "$f"; echo; }; done
done
