#!/venv/bin/python
"""Sensitivity mutants for C20 (tools/mut.py cannot be used while /repo still has the C20 defects: every
mutant would be "killed" by the genuine buckets, and several patterns occur once per figure class).

usage: tools/mut_c20.py [M1 M2 ...]
Copies chi from $VERIF_CHI_PATH or /repo to a temporary directory, applies the proposed C20 fixes when the
unfixed text is still present (so that the base is quiet), applies one mutant (n-th occurrence of a pattern)
and runs ./check C20 --no-evidence --no-shrink. /repo is never touched.
"""
import os, shutil, subprocess, sys, tempfile

BASE = os.path.join(os.environ.get('VERIF_CHI_PATH', '/repo'), 'chi')
TS = '_time_series.py'; RS = '_residuals.py'
FIXES = [
 (RS, "observations = temp[meas_key].to_numpy()\n", "observations = temp[meas_key].to_numpy(dtype=float, copy=True)\n"),
 (TS, "biom_types = data[obs_key].unique()\n", "biom_types = data[obs_key].dropna().unique()\n"),
 (TS, "                    line=dict(color='black', width=1))))\n\n    def _add_prediction_bulk_prob_trace(self, data, colors):",
      "                    line=dict(color='black', width=1))),\n            row=2,\n            col=1)\n\n    def _add_prediction_bulk_prob_trace(self, data, colors):"),
]

def nth_replace(s, old, new, n):
    idx = -1
    for _ in range(n):
        idx = s.find(old, idx + 1)
        if idx < 0:
            raise SystemExit('MUTANT-ERROR: pattern %r has no occurrence %d' % (old, n))
    return s[:idx] + new + s[idx + len(old):]

# order of the classes in _time_series.py: PDPredictivePlot, PKPredictivePlot, PDTimeSeriesPlot, PKTimeSeriesPlot
MUTANTS = {
 'M1 dose ID mask dropped (PKTimeSeriesPlot)': [(TS, "mask = dose_data[id_key] == _id", "mask = dose_data[id_key] == dose_data[id_key]", 2)],
 'M2 >= -> <= in upper rank cut (PDPredictivePlot)': [(TS, "mask = percentile_df >= upper", "mask = percentile_df <= upper", 1)],
 'M3 upper/lower swapped in polygon (PKPredictivePlot)': [(TS, "values = np.hstack([upper, lower[::-1]])", "values = np.hstack([lower, upper[::-1]])", 2)],
 'M4 wrong observable mask in PDPredictivePlot.add_prediction': [(TS, "mask = data[obs_key] == observable", "mask = data[obs_key] == biom_types[0]", 2)],
 'M5 time mask <= in _compute_bulk_probs (PKPredictivePlot)': [(TS, "mask = data[time_key] == time", "mask = data[time_key] <= time", 2)],
 'M6 wrong observable mask in PDTimeSeriesPlot.add_data': [(TS, "mask = data[obs_key] == observable", "mask = data[obs_key] == biom_types[0]", 5)],
 'M7 band narrowed by one rank on both sides (PDPredictivePlot)': [
     (TS, "mask = percentile_df <= lower", "mask = percentile_df <= lower + 1.0 / len(percentile_df)", 1),
     (TS, "mask = percentile_df >= upper", "mask = percentile_df >= upper - 1.0 / len(percentile_df)", 1)],
 'M8 add_simulation sorts by time': [(TS, "        times = data[time_key]\n        values = data[value_key]\n\n        self._add_simulation_trace", "        data = data.sort_values(time_key)\n        times = data[time_key]\n        values = data[value_key]\n\n        self._add_simulation_trace", 1)],
 'M9 add_simulation sorts caller frame in place': [(TS, "        times = data[time_key]\n        values = data[value_key]\n\n        self._add_simulation_trace", "        data.sort_values(time_key, inplace=True)\n        times = data[time_key]\n        values = data[value_key]\n\n        self._add_simulation_trace", 1)],
 'M10 residual sign': [(RS, "observations -= mean_predictions", "observations += mean_predictions", 1)],
 'M11 residual uses median prediction': [(RS, "means[time_id] = pred[mask][sample_key].mean()", "means[time_id] = pred[mask][sample_key].median()", 1)],
 'M12 lower limit taken as min instead of max (PKPredictivePlot)': [(TS, "biom_lower = reduced_data[mask][sample_key].max()", "biom_lower = reduced_data[mask][sample_key].min()", 2)],
 'M13 time mask on measurements dropped NaN values (PKTimeSeriesPlot keeps only notnull values)': [(TS, "data = data[mask][[id_key, time_key, value_key]]", "data = data[mask][[id_key, time_key, value_key]].drop_duplicates()", 2)],
 'M14 ResidualPlot residuals written back into the caller frame': [(RS, "observations = temp[meas_key].to_numpy(dtype=float, copy=True)", "observations = temp[meas_key].to_numpy(dtype=float, copy=True); self._measurements.loc[mask[mask].index, meas_key] = 0.0", 1)],
 'P1 naive fix .to_numpy().copy() (no float cast)': [(RS, "observations = temp[meas_key].to_numpy(dtype=float, copy=True)", "observations = temp[meas_key].to_numpy().copy()", 1)],
}
sel = sys.argv[1:]
for name, edits in MUTANTS.items():
    if sel and not any(name.startswith(x + ' ') for x in sel):
        continue
    d = tempfile.mkdtemp(prefix='c20mut_')
    try:
        shutil.copytree(BASE, os.path.join(d, 'chi'), ignore=shutil.ignore_patterns('__pycache__', 'tests'))
        for rel, old, new in FIXES:
            p = os.path.join(d, 'chi', 'plots', rel)
            s = open(p).read()
            if old in s:
                open(p, 'w').write(s.replace(old, new))
        for rel, old, new, n in edits:
            p = os.path.join(d, 'chi', 'plots', rel)
            s = open(p).read()
            open(p, 'w').write(nth_replace(s, old, new, n))
        env = dict(os.environ, VERIF_CHI_PATH=d)
        r = subprocess.run(['/verif/check', 'C20', '--no-evidence', '--no-shrink'], env=env, capture_output=True, text=True)
        buckets = [l.strip()[:230] for l in r.stdout.splitlines() if l.strip().startswith('bucket')]
        print('%s: exit %d => %s' % (name, r.returncode, 'KILLED' if r.returncode == 1 else 'SURVIVED' if r.returncode == 0 else 'HARNESS-ERROR'))
        for b in buckets: print('     ', b)
        if r.returncode == 2: print(r.stdout[-1500:])
    finally:
        shutil.rmtree(d, ignore_errors=True)
