#!/venv/bin/python
"""Refresh the table of DESIGN.md section 9.4 from seeded/*/meta.json (tools/seedtable.py)."""
import subprocess
p = '/verif/DESIGN.md'
s = open(p).read()
a, b = s.index('<!-- SEEDTABLE:BEGIN -->'), s.index('<!-- SEEDTABLE:END -->')
table = subprocess.run(['/venv/bin/python', '/verif/tools/seedtable.py'], capture_output=True, text=True).stdout
open(p, 'w').write(s[:a] + '<!-- SEEDTABLE:BEGIN -->\n' + table + s[b:])
print('table refreshed')
