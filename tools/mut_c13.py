#!/venv/bin/python
"""Sensitivity mutants for C13 (tools/mut.py cannot be used while /repo still has the C13 defects: every mutant
would be "killed" by the genuine buckets).

usage: tools/mut_c13.py [--base] [M1 M2 ...] [-- extra ./check arguments]
Copies chi from $VERIF_CHI_PATH or /repo to a temporary directory, applies the proposed C13 fix when the unfixed
text is still present (so that the base is quiet), applies one mutant (n-th occurrence of a pattern) and runs
./check C13 --no-evidence --no-shrink. `--base` runs the fixed base without a mutant. /repo is never touched.
"""
import os, shutil, subprocess, sys, tempfile

BASE = os.path.join(os.environ.get('VERIF_CHI_PATH', '/repo'), 'chi')
LP = '_log_pdfs.py'
PM = '_population_models.py'

FIX_HELPERS = '''    def _get_special_dims(self):
        """
        Returns the pooled and heterogeneous dimensions of the population
        model (also inside covariate and nested composed models).
        """
        return self._population_model.get_special_dims()

    def _reshape_bottom_parameters(self, bottom_parameters, top_parameters):
        """
        Takes bottom parameters of shape (n_ids, n_hierarchical_dim) and
        returns bottom parameters of shape (n_ids, n_dim), where the pooled
        and heterogeneous dimensions are filled in by the population model.
        """
        n_dim = self._population_model.n_dim()
        if self._n_hdim == n_dim:
            return bottom_parameters

        return self._population_model.compute_individual_parameters(
            parameters=top_parameters,
            eta=bottom_parameters.flatten(),
            covariates=self._covariates,
            return_eta=True)

'''
FIX_OLD_TAIL = '''        s, dbottom, dtheta = self._population_model.compute_sensitivities(
            parameters=pop_parameters,
            observations=bottom_parameters,
            covariates=self._covariates,
            dlogp_dpsi=ds_dpsi)
        score += s
        sensitivities[:n_pop] += dtheta
        if np.isinf(score):
            return score, sensitivities[:self._n_parameters]

        # Collect sensitivities
        sensitivities = self._remove_duplicates(sensitivities, dbottom)

        return score, sensitivities
'''
FIX_NEW_TAIL = '''        # (reduce=True returns the sensitivities of the bottom-level
        # parameters that are exposed, followed by those of the population
        # parameters, with pooled and heterogeneous contributions propagated)
        s, dscore = self._population_model.compute_sensitivities(
            parameters=pop_parameters,
            observations=bottom_parameters,
            covariates=self._covariates,
            dlogp_dpsi=ds_dpsi,
            reduce=True)
        score += s
        if np.isinf(score):
            return score, sensitivities[:self._n_parameters]

        n_bottom = self._n_samples * self._n_hdim
        sensitivities[self._n_top:self._end_bottom] = dscore[:n_bottom]
        sensitivities[:n_pop] += dscore[n_bottom:]

        return score, sensitivities
'''


def apply_fix(s):
    """The proposed repair of PopulationFilterLogPosterior (no-op when already applied)."""
    if 'def _remove_duplicates(self, sensitivities, dbottom):' not in s:
        return s
    a = s.index('    def _get_special_dims(self):\n        """\n        Counts the number of pooled')
    b = s.index('    def evaluateS1(self, parameters):', a)
    s = s[:a] + FIX_HELPERS + s[b:]
    if s.count(FIX_OLD_TAIL) != 1:
        raise SystemExit('FIX-ERROR: evaluateS1 tail not found')
    return s.replace(FIX_OLD_TAIL, FIX_NEW_TAIL)


def nth_replace(s, old, new, n):
    idx = -1
    for _ in range(n):
        idx = s.find(old, idx + 1)
        if idx < 0:
            raise SystemExit('MUTANT-ERROR: pattern %r has no occurrence %d' % (old, n))
    return s[:idx] + new + s[idx + len(old):]


EPS_NAMES_OLD = '''        for output in self._mechanistic_model.outputs():
            name = output + ' Epsilon time '
            epsilon_names += [
                name + '%d' % (idt + 1) for idt in range(self._n_times)]
'''
EPS_NAMES_NEW = '''        for idt in range(self._n_times):
            epsilon_names += [
                output + ' Epsilon time %d' % (idt + 1)
                for output in self._mechanistic_model.outputs()]
'''
# occurrences are counted inside chi/_log_pdfs.py after the fix; (file, old, new, n-th occurrence)
MUTANTS = {
 'M1 _end_bottom off by n_top': [(LP, "self._end_bottom = self._n_top + self._n_samples * self._n_hdim", "self._end_bottom = self._n_samples * self._n_hdim", 1)],
 'M2 heterogeneous values reshaped (n_dim, n_ids)': [(PM, "        if parameters.ndim == 1:\n            parameters = parameters.reshape(self._n_ids, self._n_dim)\n        elif parameters.ndim == 3:\n            parameters = np.diagonal(parameters, axis1=0, axis2=1).T\n\n        return parameters", "        if parameters.ndim == 1:\n            parameters = parameters.reshape(self._n_dim, self._n_ids).T\n        elif parameters.ndim == 3:\n            parameters = np.diagonal(parameters, axis1=0, axis2=1).T\n\n        return parameters", 1)],
 'M3 log-scale noise implemented as y + sigma*eps (__call__ and evaluateS1)': [(LP, "            y *= np.exp(sigma * epsilon)", "            y += sigma * epsilon", 1), (LP, "            y *= np.exp(sigma * epsilon)", "            y += sigma * epsilon", 1)],
 'M4 np.swapaxes replaced by a reshape (additive branch)': [(LP, "                ds_y[..., np.newaxis]\n                * np.swapaxes(dybar_dpsi, 1, 2), axis=(1, 2))", "                ds_y[..., np.newaxis]\n                * dybar_dpsi.reshape(ds_y.shape + (-1,)), axis=(1, 2))", 1)],
 'M5 sigma sensitivities summed over the wrong axes': [(LP, "                    ds_y * epsilon, axis=(0, 2))", "                    ds_y * epsilon, axis=(0, 1))", 1)],
 'M6 epsilon names time-major': [(LP, EPS_NAMES_OLD, EPS_NAMES_NEW, 1)],
 'M7 noise term -sum(eps^2) instead of /2 (both evaluations)': [(LP, "            - np.sum(epsilon**2) / 2", "            - np.sum(epsilon**2)", 1), (LP, "            - np.sum(epsilon**2) / 2", "            - np.sum(epsilon**2)", 1), (LP, "sensitivities[self._end_bottom:] = -epsilon.flatten()", "sensitivities[self._end_bottom:] = -2 * epsilon.flatten()", 1)],
 'M8 filter not sorted with the times': [(LP, "        self._filter.sort_times(np.argsort(times))\n", "", 1)],
 'M9 times not sorted (filter sorted)': [(LP, "        self._times = np.sort(times)", "        self._times = np.asarray(times, dtype=float)", 1)],
 'M10 log-scale eps sensitivities without the factor y': [(LP, "sensitivities[self._end_bottom:] += (ds_y * y * sigma).flatten()", "sensitivities[self._end_bottom:] += (ds_y * sigma).flatten()", 1)],
 'M11 1-d covariates: only the first covariate row ever used': [(LP, "            self._covariates = covariates\n", "            self._covariates = np.broadcast_to(covariates[:1], (n_samples, n_c))\n", 1)],
 'M12 ids of the noise block in reversed order': [(LP, "                'Sim. %d' % (_id + 1)] * self._n_observables * self._n_times", "                'Sim. %d' % (self._n_samples - _id)] * self._n_observables * self._n_times", 1)],
 'M13 prior sensitivities dropped for sigma': [(LP, "                sensitivities[n_pop:self._n_top] += np.sum(\n                    ds_y * epsilon, axis=(0, 2))", "                sensitivities[n_pop:self._n_top] = np.sum(\n                    ds_y * epsilon, axis=(0, 2))", 1)],
 'M14 free sigma read from the wrong slice (first n_obs population parameters)': [(LP, "            sigma = parameters[n_pop:self._n_top].reshape(\n                1, self._n_observables, 1)", "            sigma = np.abs(parameters[:self._n_observables]).reshape(\n                1, self._n_observables, 1)", 1)],
 'E1 (equivalent, must SURVIVE) normalisation constant with the factor n_times': [(LP, "            - self._n_samples * self._n_observables * np.log(2 * np.pi) / 2 \\", "            - self._n_samples * self._n_observables * self._n_times * np.log(2 * np.pi) / 2 \\", 1), (LP, "            - self._n_samples * self._n_observables * np.log(2 * np.pi) / 2 \\", "            - self._n_samples * self._n_observables * self._n_times * np.log(2 * np.pi) / 2 \\", 1)],
}


def run(name, edits, extra):
    d = tempfile.mkdtemp(prefix='c13mut_')
    try:
        shutil.copytree(BASE, os.path.join(d, 'chi'), ignore=shutil.ignore_patterns('__pycache__', 'tests'))
        p = os.path.join(d, 'chi', LP)
        src = apply_fix(open(p).read())
        open(p, 'w').write(src)
        for rel, old, new, n in edits:
            p = os.path.join(d, 'chi', rel)
            src = nth_replace(open(p).read(), old, new, n)
            open(p, 'w').write(src)
        env = dict(os.environ, VERIF_CHI_PATH=d)
        r = subprocess.run(['/verif/check', 'C13', '--no-evidence', '--no-shrink'] + extra, env=env,
                           capture_output=True, text=True)
        buckets = [l.strip()[:230] for l in r.stdout.splitlines() if l.strip().startswith('bucket')]
        print('%s: exit %d => %s' % (name, r.returncode, 'KILLED' if r.returncode == 1 else 'SURVIVED'
                                     if r.returncode == 0 else 'HARNESS-ERROR'))
        for b in buckets:
            print('     ', b)
        if r.returncode == 2:
            print(r.stdout[-1500:])
    finally:
        shutil.rmtree(d, ignore_errors=True)


def main():
    argv = sys.argv[1:]
    extra = []
    if '--' in argv:
        extra = argv[argv.index('--') + 1:]
        argv = argv[:argv.index('--')]
    if '--base' in argv:
        run('BASE (proposed fix, no mutant)', [], extra)
        argv = [a for a in argv if a != '--base']
        if not argv:
            return
    for name, edits in MUTANTS.items():
        if argv and not any(name.startswith(x + ' ') for x in argv):
            continue
        run(name, edits, extra)


main()
