#!/venv/bin/python
import json, sys
for p in sys.argv[1:]:
    d = json.load(open(p))
    print(p, d.get('bucket'), d.get('count'))
    print('  ', json.dumps(d['spec'])[:1500])
    if d.get('fail'): print('  ', d['fail']['detail'][:400])
