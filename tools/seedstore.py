#!/venv/bin/python
"""Copy a verified seeded change into /verif/seeded/<id>/ and record what was run.
usage: tools/seedstore.py <PROP> <seedN> [result json ...]   (results of tools/seedcheck.py; merged)"""
import json, os, shutil, sys
prop, sn = sys.argv[1], sys.argv[2]
src = '/tmp/%s_%s/%s' % ({'seed3': 'seedb', 'seed4': 'seedb', 'seed5': 'seedc', 'seed6': 'seedc', 'seed7': 'seedd', 'seed8': 'seedd', 'seed9': 'seede', 'seed10': 'seede', 'seed11': 'seedf', 'seed12': 'seedf', 'seed13': 'seedg', 'seed14': 'seedg', 'seed15': 'seedh', 'seed16': 'seedh', 'seed17': 'seedi', 'seed18': 'seedi', 'seed19': 'seedj', 'seed20': 'seedj'}.get(sn, 'seed'), prop, sn)
dst = '/verif/seeded/%s_%s' % (prop, sn)
os.makedirs(dst, exist_ok=True)
for f in sorted(os.listdir(src)):
    if os.path.isfile(os.path.join(src, f)) and not f.endswith('.pyc') and os.path.getsize(os.path.join(src, f)) < 2e6:
        shutil.copy(os.path.join(src, f), os.path.join(dst, f))
meta = json.load(open(os.path.join(src, 'meta.json')))
ran = dict(verified_by_lead=True, demo_unchanged_rc=None, demo_patched_rc=None, stable_tests_missing=None, checks={})
for rf in sys.argv[3:]:
    try:
        r = json.load(open(rf))
    except Exception:
        continue
    for k in ('demo_unchanged_rc', 'demo_patched_rc'):
        if r.get(k) is not None:
            ran[k] = r[k]
    if 'stable_missing' in r:
        ran['stable_tests_missing'] = r['stable_missing']
        ran['n_tests_passed_with_patch'] = r.get('n_passed')
    for c, v in r.get('checks', {}).items():
        ran['checks'][c] = dict(exit=v['rc'], first_lines=v['lines'][:2])
meta['what_was_run'] = ran
meta['how_to_run'] = ('tools/seedcheck.py <scratch worktree>/<seed dir> <checks>: demo on the unchanged tree (exit 0), patch applied '
                      '(git apply), demo (exit != 0), repository tests (all 346 stable tests still pass), then ./check <id> --tier quick '
                      'with VERIF_CHI_PATH pointing at the patched scratch worktree; worktree restored afterwards')
meta['caught_by'] = sorted(c for c, v in ran['checks'].items() if v['exit'] == 1)
meta['not_caught_by'] = sorted(c for c, v in ran['checks'].items() if v['exit'] == 0)
json.dump(meta, open(os.path.join(dst, 'meta.json'), 'w'), indent=1)
print(dst, 'caught_by', meta['caught_by'], 'not', meta['not_caught_by'])
