#!/venv/bin/python
"""Regenerates MANIFEST.json from the table below (keeps the file valid at all times)."""
import json, os, sys
HERE = os.path.dirname(os.path.dirname(os.path.abspath(__file__)))
sys.path.insert(0, HERE)

from tools.checks_table import CHECKS
ALL = ['C%02d' % i for i in range(1, 21)]

def main():
    checks = []
    for pid in ALL:
        if pid not in CHECKS:
            continue
        c = CHECKS[pid]
        checks.append(dict(
            property_id=pid,
            quick_cmd='./check %s --tier quick' % pid,
            thorough_cmd='./check %s --tier thorough' % pid,
            evidence_file='evidence/%s.json' % pid,
            replay_cmd_template='./check %s --replay {path}' % pid,
            engine='vf',
            level_claimed=dict(category='exploration', text=c['text'], design_ref=c['design']),
            level_note=c['note'],
            technique=c['technique']))
    na = [dict(property_id=p, reason='check not built yet in this round (planned in DESIGN.md section 3); nothing is claimed')
          for p in ALL if p not in CHECKS]
    m = dict(
        version=1,
        setup_cmd='./setup.sh',
        hooks=dict(
            guard='CHI_VERIF',
            enable='no source hooks are needed: the harness replaces myokit.Simulation inside its own process (vf/simshim.py); CHI_VERIF=1 is exported by ./check for completeness',
            baseline_off_cmd='cd /repo && /venv/bin/python -m pytest -ra -q -p no:cacheprovider --timeout=900 --continue-on-collection-errors',
            source_commits=[],
            add_only=True),
        engines=[dict(name='vf', path='vf/run.py', serves_properties=[c['property_id'] for c in checks],
                      kind_free_text='Hypothesis-driven spec generation, collect-then-shrink failure buckets, JSON replay files, 16-process sharding')],
        checks=checks,
        notes='See DESIGN.md. Known findings: known_findings.json. Seeded mutants: seeded/.',
        not_applicable=na)
    with open(os.path.join(HERE, 'MANIFEST.json'), 'w') as f:
        json.dump(m, f, indent=1)
    print('MANIFEST.json: %d checks, %d not_applicable' % (len(checks), len(na)))

main()
