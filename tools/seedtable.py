#!/venv/bin/python
"""Print the markdown table of DESIGN.md section 9.4 from seeded/*/meta.json and seeded/HISTORY.json."""
import glob, json, os
H = json.load(open('/verif/seeded/HISTORY.json'))['missed_at_first']
rows = []
for d in sorted(glob.glob('/verif/seeded/C*_seed*')):
    name = os.path.basename(d)
    m = json.load(open(os.path.join(d, 'meta.json')))
    title = m['title'].replace('|', '/')
    if len(title) > 150:
        title = title[:147] + '...'
    caught = ', '.join(m.get('caught_by', [])) or '-'
    missed = ', '.join(m.get('not_caught_by', [])) or '-'
    first = 'missed; added: ' + H[name] if name in H else 'caught'
    rows.append('| %s | %s | %s | %s | %s |' % (name, title, caught, missed, first))
print('| change | what it does | caught by (final checks) | run, not caught | first run |')
print('|---|---|---|---|---|')
print('\n'.join(rows))
own = sum(1 for d in glob.glob('/verif/seeded/C*_seed*')
          if os.path.basename(d)[:3] in json.load(open(os.path.join(d, 'meta.json'))).get('caught_by', []))
print('\n%d changes, %d caught by the check of their own property, %d missed at first' % (len(rows), own, len(H)))
